(* C05 — the marshaler's object iterator as an executable function.

   Model of
     iterator/iterators.go      every iterate* function, newPointerIterator,
                                newSliceOrArrayAsListIterator, newMapIterator,
                                extractFields, isValueEmpty/isValueZero,
                                shouldIncludeField, newStructIterator, newRecordIterators
     iterator/iterator_root.go  RootObjectIterator.Iterate, addLocalReference,
                                getNamedLocalReference
     iterator/context.go        sessionContext (record types in name order)
     iterator/session.go        getDefaultIteratorForType (which iterator a type gets)
     go-duplicates              FindDuplicatePointers (scanValue)
     internal/common/common.go  CamelCaseToSnakeCase, ElementCountToByteCount
   written from the code as it is, defects included.  Definitions only.

   A Go value is represented the way package reflect presents it to the
   iterator: a tree whose nodes say which iterator the static type selects
   ([gval]; the choice made by getDefaultIteratorForType is therefore an input:
   the harness classifies each reflect.Type exactly as that switch does).
   Pointers, list-slices and maps carry the identity the code uses for them,
   duplicates.TypedPointer = (type, address), as a number [addr] (equal numbers
   <-> equal TypedPointer).  A shared object is written out at each occurrence;
   a back edge of a cycle is an occurrence whose content is never inspected
   (any content will do).  Map entries are listed in the order the iteration
   delivered them (Go's order is random; the harness observes it).

   Outside the model (stated where used): values of the library types
   time.Time, url.URL, big.Int, big.Float, apd.Decimal, compact DFloat are
   carried as the payload of the event they produce plus their reflect
   IsZero-ness; Go's unicode.ToLower on non-ASCII field names (names are
   ASCII); custom converters; configurations in which a record type is reached statically
   (through fields, pointers, slices, arrays, maps - not through an interface) from the fields of
   a record type whose name sorts at the same place or earlier: Session.Init builds the field
   iterators of each record type, in name order, BEFORE it registers that type, so such inner
   occurrences are iterated by the plain struct iterator cached at that moment (as maps, not as
   records); the harness recognises these configurations and keeps them out of the
   correspondence (its oracle accepts either form); pointers into the middle of another object
   (address of a struct field / slice element held as a pointer elsewhere) in so far as
   FindDuplicatePointers registers the address of every field of an addressable struct as a
   pointer of its own, which can make such a pointer a duplicate although the value holds it
   once: the harness builds such values on purpose (a struct and its first field, an array or
   slice and its first element share an address and differ in type, so they are different
   [addr]s here), computes [scan] on its side and keeps a case out of the correspondence exactly
   when that extra registration changes the answer for an object the iterator asks about; kinds the iterator panics on
   (chan, func, complex, uintptr, unsafe pointer); embedded library struct types (time.Time,
   url.URL, types.Media, ... embedded by value: their Kind is Struct, so extractFields flattens
   their exported fields, while [gval] presents them as leaves).  An embedded field of a
   non-struct type (type MyInt int, *Inner) is inside the model: an ordinary field named after
   its type ([flattened]). *)
From CE Require Export Model.Rules Base.LE.
Open Scope N_scope.

(* ------------------------------------------------------------------------- *)
(* Values                                                                     *)

Inductive omit := ODefault | ONever | OAlways | OEmpty | OZero.
Definition omit_eqb (a b : omit) : bool :=
  match a, b with
  | ODefault, ODefault | ONever, ONever | OAlways, OAlways | OEmpty, OEmpty | OZero, OZero => true
  | _, _ => false
  end.

(* one struct field as common.DecodeGoTags + reflect describe it *)
Record finfo := mkF {
  f_name : bytes;      (* tags.Name: the `name=` tag, else the Go field name *)
  f_exported : bool;   (* common.IsFieldExported *)
  f_anon : bool;       (* reflect.StructField.Anonymous (embedded) *)
  f_omit : omit;       (* tags.OmitBehavior *)
  f_order : Z;         (* tags.Order; math.MaxInt64 when there is no `order=` tag *)
}.

(* element kinds that get a typed-array iterator (int and uint are 64 bits wide: common.Is64BitArch) *)
Inductive akind := AU8 | AU16 | AU32 | AU64 | AI8 | AI16 | AI32 | AI64 | AF32 | AF64.

(* nil slice / non-nil slice / array *)
Inductive skind := SNil | SSlice | SArr.

Inductive gval :=
| VBool (b : bool)
| VInt (z : Z)                                   (* int, int8..int64: reflect Int() *)
| VUint (n : N)                                  (* uint, uint8..uint64: reflect Uint() *)
| VF32 (w : N)                                   (* float32, its 32-bit pattern *)
| VF64 (b : N)                                   (* float64, its 64-bit pattern *)
| VString (s : bytes)
| VNum (sk : skind) (k : akind) (elems : list Z) (* []T / [n]T of a numeric kind: integers by value, floats by bit pattern *)
| VBools (sk : skind) (l : list bool)            (* []bool / [n]bool *)
| VSlice (addr : N) (elems : list gval)          (* non-nil slice of any other element type *)
| VNilSlice
| VArray (elems : list gval)                     (* array of any other element type *)
| VMap (addr : N) (entries : list (gval * gval)) (* non-nil map *)
| VNilMap
| VPtr (addr : N) (p : gval)                     (* non-nil pointer handled by newPointerIterator *)
| VNilPtr
| VOPtr (p : gval)                               (* non-nil *url.URL, *big.Int, *big.Float, *apd.Decimal, *time.Time, *compact_time.Time *)
| VIface (v : gval)                              (* non-nil interface value *)
| VNilIface
| VStruct (sid : N) (fields : list (finfo * gval)) (* sid = identity of the struct type; every field, in declaration order *)
| VTime (zero : bool) (text : bytes)             (* time.Time / compact_time.Time: String() of the compact time, with a
                                                    leading NUL when Validate rejects the value (Model/Rules.v time_token_valid) *)
| VUrl (zero : bool) (text : bytes)              (* url.URL: its String() *)
| VBigInt (zero : bool) (z : Z)
| VBigFloat (zero : bool) (f : bigfloat)
| VBigDec (zero : bool) (d : dfloat)
| VDFloat (zero : bool) (d : dfloat)
| VUid (b : bytes)                               (* types.UID = [16]byte *)
| VMedia (zero : bool) (mt : bytes) (data : bytes)
| VNode (value : gval) (children : gval)         (* types.Node{Value interface{}; Children []interface{}} *)
| VEdge (s d t : gval).                          (* types.Edge: three interface{} fields *)

Record rectype := mkRT {
  rt_name : bytes;                 (* IteratorConfiguration.RecordTypes[type] *)
  rt_sid : N;                      (* the struct type *)
  rt_proto : list (finfo * gval);  (* the fields of the type (any value of the type, e.g. its zero value) *)
}.

Record icfg := mkCfg {
  c_snake : bool;                  (* FieldNameStyle = FieldNameSnakeCase *)
  c_recursion : bool;              (* RecursionSupport *)
  c_default_omit : omit;           (* DefaultFieldOmitBehavior *)
  c_records : list rectype;        (* RecordTypes, any order *)
}.

(* ------------------------------------------------------------------------- *)
(* Small helpers                                                              *)

Definition len {A} (l : list A) : N := N.of_nat (length l).
Definition is_nil {A} (l : list A) : bool := match l with [] => true | _ => false end.

Definition is_upper (c : N) : bool := (65 <=? c) && (c <=? 90).
Definition is_lower (c : N) : bool := (97 <=? c) && (c <=? 122).
Definition is_digit (c : N) : bool := (48 <=? c) && (c <=? 57).
Definition to_lower (c : N) : N := if is_upper c then c + 32 else c.

(* regexp `([A-Z]+)([A-Z][a-z])` -> "${1}_${2}": the only capital of a run of capitals that is
   followed by a lower-case letter is the last one, so a match is a run of at least two capitals
   followed by a lower-case letter, and the underscore goes before the run's last capital. *)
Fixpoint snake1 (s : bytes) : bytes :=
  match s with
  | a :: r =>
      match r with
      | b :: c :: _ => if is_upper a && is_upper b && is_lower c then a :: 95 :: snake1 r else a :: snake1 r
      | _ => a :: snake1 r
      end
  | [] => []
  end.
(* regexp `([a-z\d])([A-Z])` -> "${1}_${2}" *)
Fixpoint snake2 (s : bytes) : bytes :=
  match s with
  | a :: r =>
      match r with
      | b :: _ => if (is_lower a || is_digit a) && is_upper b then a :: 95 :: snake2 r else a :: snake2 r
      | [] => [a]
      end
  | [] => []
  end.
(* common.CamelCaseToSnakeCase on an ASCII name *)
Definition snake_case (s : bytes) : bytes := map to_lower (snake2 (snake1 s)).

Definition field_name (cfg : icfg) (i : finfo) : bytes :=
  if c_snake cfg then snake_case (f_name i) else f_name i.

(* strconv.AppendInt(buf, int64(num), 10) for num >= 0 *)
Fixpoint dec_rev (fuel : nat) (n : N) : bytes :=
  match fuel with
  | O => []
  | S f => (48 + n mod 10) :: (if n / 10 =? 0 then [] else dec_rev f (n / 10))
  end.
Definition dec_bytes (n : N) : bytes := rev (dec_rev 20 n).

(* ------------------------------------------------------------------------- *)
(* Scalars and typed arrays                                                   *)

Definition p31 : N := 2147483648.
Definition p23 : N := 8388608.
Definition p22 : N := 4194304.
Definition p29 : N := 536870912.
Definition p51 : N := 2251799813685248.
Definition p52 : N := 4503599627370496.
Definition p63 : N := 9223372036854775808.

Definition w32_sign (w : N) : N := (w / p31) mod 2.
Definition w32_expo (w : N) : N := (w / p23) mod 256.
Definition w32_mant (w : N) : N := w mod p23.
Definition w32_is_nan (w : N) : bool := (w32_expo w =? 255) && negb (w32_mant w =? 0).
Definition mk64 (s e m : N) : N := s * p63 + e * p52 + m.

(* float64(x) for a float32 x, as the hardware conversion does it (reflect.Value.Float on a
   float32): exact for numbers and infinities; a NaN keeps sign and payload and becomes quiet. *)
Definition widen32 (w : N) : N :=
  let s := w32_sign w in
  let e := w32_expo w in
  let m := w32_mant w in
  if e =? 255 then
    if m =? 0 then mk64 s 2047 0 else mk64 s 2047 (N.lor (m * p29) p51)
  else if e =? 0 then
    if m =? 0 then mk64 s 0 0
    else let l := N.log2 m in mk64 s (l + 874) ((m - 2 ^ l) * 2 ^ (52 - l))
  else mk64 s (e + 896) (m * p29).

(* float32(v.Index(i).Float()) on a float32 element: float32 -> float64 -> float32; the number
   comes back unchanged, a NaN comes back quiet *)
Definition f32_through_f64 (w : N) : N := if w32_is_nan w then N.lor w p22 else w.

Definition at_of (k : akind) : arrty :=
  match k with
  | AU8 => AT_Uint8 | AU16 => AT_Uint16 | AU32 => AT_Uint32 | AU64 => AT_Uint64
  | AI8 => AT_Int8 | AI16 => AT_Int16 | AI32 => AT_Int32 | AI64 => AT_Int64
  | AF32 => AT_Float32 | AF64 => AT_Float64
  end.
Definition width_of (k : akind) : nat :=
  match k with
  | AU8 | AI8 => 1 | AU16 | AI16 => 2 | AU32 | AI32 | AF32 => 4 | AU64 | AI64 | AF64 => 8
  end%nat.

(* data[i*w+j] = uint8(elem >> (8*j)) *)
Definition elem_bytes (k : akind) (z : Z) : bytes :=
  let w := width_of k in
  let raw := Z.to_N (z mod 2 ^ (8 * Z.of_nat w))%Z in
  le_encode w (match k with AF32 => f32_through_f64 raw | _ => raw end).
Definition num_bytes (k : akind) (es : list Z) : bytes := flat_map (elem_bytes k) es.

(* accum |= 1 << iBit for the true elements *)
Fixpoint bits_byte (l : list bool) (i : N) : N :=
  match l with
  | [] => 0
  | b :: r => (if b then 2 ^ i else 0) + bits_byte r (i + 1)
  end.

(* iterateSliceOrArrayBool: the outer loop runs once per output byte; the inner loop reads
   v.Index(iSrc) for the next bitCount elements (iSrc runs over the whole slice; before /repo
   commit 734b6c6 it read v.Index(iBit), always the first bitCount elements). *)
Fixpoint pack_bools_loop (v : list bool) (isrc : nat) (nbytes : nat) : bytes :=
  match nbytes with
  | O => []
  | S k =>
      let bitcount := Nat.min 8 (length v - isrc) in
      bits_byte (firstn bitcount (skipn isrc v)) 0 :: pack_bools_loop v (isrc + bitcount) k
  end.
Definition bool_byte_count (n : N) : N := elem_byte_count 1 n.   (* common.ElementCountToByteCount(1, n) *)
Definition pack_bools (v : list bool) : bytes :=
  pack_bools_loop v 0 (N.to_nat (bool_byte_count (len v))).

(* the same packing by chunks of eight (element i in bit i mod 8 of byte i / 8) *)
Fixpoint pack_bits (v : list bool) (nbytes : nat) : bytes :=
  match nbytes with
  | O => []
  | S k => bits_byte (firstn 8 v) 0 :: pack_bits (skipn 8 v) k
  end.

(* ------------------------------------------------------------------------- *)
(* Struct fields                                                              *)

(* isValueEmpty *)
Definition is_empty (v : gval) : bool :=
  match v with
  | VNilIface | VNilPtr | VNilSlice | VNilMap => true
  | VMap _ es => is_nil es
  | VSlice _ es | VArray es => is_nil es
  | VNum _ _ es => is_nil es
  | VBools _ l => is_nil l
  | VString s => is_nil s
  | _ => false
  end.

Definition num_elem_zero (k : akind) (z : Z) : bool :=
  match k with
  | AF32 => (Z.to_N z mod p31 =? 0)       (* +0 and -0 *)
  | AF64 => (Z.to_N z mod p63 =? 0)
  | _ => (z =? 0)%Z
  end.

(* reflect.Value.IsZero *)
Fixpoint is_zero (v : gval) : bool :=
  match v with
  | VBool b => negb b
  | VInt z => (z =? 0)%Z
  | VUint n => n =? 0
  | VF32 w => w mod p31 =? 0
  | VF64 b => b mod p63 =? 0
  | VString s => is_nil s
  | VNum SNil _ _ => true
  | VNum SSlice _ _ => false
  | VNum SArr k es => forallb (num_elem_zero k) es
  | VBools SNil _ => true
  | VBools SSlice _ => false
  | VBools SArr l => forallb negb l
  | VSlice _ _ | VMap _ _ | VPtr _ _ | VOPtr _ | VIface _ => false
  | VNilSlice | VNilMap | VNilPtr | VNilIface => true
  | VArray es => forallb is_zero es
  | VStruct _ fs => forallb (fun iv => is_zero (snd iv)) fs
  | VTime z _ | VUrl z _ | VBigInt z _ | VBigFloat z _ | VBigDec z _ | VDFloat z _ | VMedia z _ _ => z
  | VUid b => forallb (N.eqb 0) b
  | VNode x ch => is_zero x && is_zero ch
  | VEdge a b c => is_zero a && is_zero b && is_zero c
  end.

(* isValueZero *)
Definition is_value_zero (v : gval) : bool := is_zero v || is_empty v.

(* shouldIncludeField, given the two facts it reads from the value *)
Definition should_include (cfg : icfg) (i : finfo) (empty zero : bool) : bool :=
  let o := match f_omit i with ODefault => c_default_omit cfg | x => x end in
  match o with
  | OAlways => false
  | ONever => true
  | OEmpty => negb empty
  | OZero => negb zero
  | ODefault => true          (* "should never happen": falls out of the switch *)
  end.

(* extractFields keeps: exported, not tagged `omit`; an embedded field whose type is a struct
   (reflectField.Anonymous && reflectField.Type.Kind() == reflect.Struct) is replaced by the
   fields of the embedded struct; an embedded field of any other type (type MyInt int, *Inner) is
   an ordinary field named after its type. *)
Definition extractable (i : finfo) : bool := f_exported i && negb (omit_eqb (f_omit i) OAlways).
(* the value of an embedded field is a struct that extractFields looks into *)
Definition is_vstruct (v : gval) : bool := match v with VStruct _ _ => true | _ => false end.
Definition flattened (i : finfo) (x : gval) : bool := f_anon i && is_vstruct x.

(* sort.SliceStable(fields, Order <): stable insertion sort.  extractFields sorts the
   accumulated list at the end of every (nested) call; sorting a stably sorted prefix again
   together with what was appended equals one stable sort of the whole list. *)
Fixpoint ins_by {A} (key : A -> Z) (x : A) (l : list A) : list A :=
  match l with
  | [] => [x]
  | y :: r => if (key x <=? key y)%Z then x :: l else y :: ins_by key x r
  end.
Definition sort_by {A} (key : A -> Z) (l : list A) : list A := fold_right (ins_by key) [] l.

(* ------------------------------------------------------------------------- *)
(* The iterator without recursion support                                      *)

(* one extracted field: its description, whether this value of it is kept, the events of the value *)
Definition gitem (A : Type) := (finfo * bool * A)%type.
Definition gitem_order {A} (it : gitem A) : Z := f_order (fst (fst it)).
(* the fields in emission order / the fields of this value that are emitted *)
Definition sorted_items {A} (its : list (gitem A)) : list (gitem A) := sort_by gitem_order its.
Definition kept_items {A} (its : list (gitem A)) : list (gitem A) :=
  filter (fun it => snd (fst it)) (sorted_items its).

(* the fields a record type declares, hence the fields every record of the type carries:
   shouldIncludeField evaluated on reflect.ValueOf(1), which is neither empty nor zero *)
Definition declared_items (cfg : icfg) {A} (its : list (gitem A)) : list (gitem A) :=
  filter (fun it => should_include cfg (fst (fst it)) false false) (sorted_items its).

Definition item := gitem (list event).

(* newStructIterator *)
Definition struct_events (cfg : icfg) (its : list item) : list event :=
  EMap :: flat_map (fun it => EStringArray AT_String (field_name cfg (fst (fst it))) :: snd it) (kept_items its)
       ++ [EEnd].

(* newRecordIterators, recordIterator: the fields the type declares, whatever this value holds
   in them (since /repo commit 8413af6; before, the fields kept for this value) *)
Definition record_events (cfg : icfg) (name : bytes) (its : list item) : list event :=
  ERecord name :: flat_map (fun it => snd it) (declared_items cfg its) ++ [EEnd].

Fixpoint find_record (rs : list rectype) (sid : N) : option rectype :=
  match rs with
  | [] => None
  | r :: t => if rt_sid r =? sid then Some r else find_record t sid
  end.

(* [walk cfg v] = (events of v, extracted fields of v when v is a struct) *)
Fixpoint walk (cfg : icfg) (v : gval) {struct v} : list event * list item :=
  match v with
  | VBool b => ([EBool b], [])
  | VInt z => ([EInt z], [])
  | VUint n => ([EPosInt n], [])
  | VF32 w => ([EFloat (widen32 w)], [])
  | VF64 b => ([EFloat b], [])
  | VString s => ([EStringArray AT_String s], [])
  | VNum _ k es => ([EArray (at_of k) (len es) (num_bytes k es)], [])
  | VBools _ l => ([EArray AT_Bit (len l) (pack_bools l)], [])
  | VNilSlice | VNilMap | VNilPtr | VNilIface => ([ENull], [])
  | VSlice _ es | VArray es => (EList :: flat_map (fun x => fst (walk cfg x)) es ++ [EEnd], [])
  | VMap _ kvs =>
      (EMap :: flat_map (fun kv => fst (walk cfg (fst kv)) ++ fst (walk cfg (snd kv))) kvs ++ [EEnd], [])
  | VPtr _ p | VOPtr p | VIface p => (fst (walk cfg p), [])
  | VStruct sid fs =>
      let its :=
        (fix go (fs : list (finfo * gval)) : list item :=
           match fs with
           | [] => []
           | (i, x) :: r =>
               (if extractable i then
                  if flattened i x then snd (walk cfg x)
                  else [(i, should_include cfg i (is_empty x) (is_value_zero x), fst (walk cfg x))]
                else []) ++ go r
           end) fs in
      (match find_record (c_records cfg) sid with
       | Some r => record_events cfg (rt_name r) its
       | None => struct_events cfg its
       end, its)
  | VTime _ t => ([ETime t], [])
  | VUrl _ t => ([EStringArray AT_ResourceID t], [])
  | VBigInt _ z => ([EBigInt (Some z)], [])
  | VBigFloat _ f => ([EBigFloat (Some f)], [])
  | VBigDec _ d => ([EBigDecimal (Some d)], [])
  | VDFloat _ d => ([EDecimal d], [])
  | VUid b => ([EUid b], [])
  | VMedia _ mt data => ([EMedia mt data], [])
  | VNode x ch =>
      (ENode :: fst (walk cfg x)
         ++ match ch with
            | VSlice _ es => flat_map (fun c => fst (walk cfg c)) es
            | _ => []
            end
         ++ [EEnd], [])
  | VEdge a b c =>
      (* iterateEdge: OnEdge and the three components; no OnEndContainer *)
      (EEdge :: fst (walk cfg a) ++ fst (walk cfg b) ++ fst (walk cfg c), [])
  end.

Definition plain (cfg : icfg) (v : gval) : list event := fst (walk cfg v).
Definition items_of (cfg : icfg) (v : gval) : list item := snd (walk cfg v).

(* ------------------------------------------------------------------------- *)
(* Record types at the top of the document                                    *)

Fixpoint bytes_ltb (a b : bytes) : bool :=     (* Go string < *)
  match a, b with
  | _, [] => false
  | [], _ :: _ => true
  | x :: a', y :: b' => if x <? y then true else if y <? x then false else bytes_ltb a' b'
  end.
Fixpoint ins_rt (x : rectype) (l : list rectype) : list rectype :=
  match l with
  | [] => [x]
  | y :: r => if bytes_ltb (rt_name y) (rt_name x) then y :: ins_rt x r else x :: l
  end.
(* sort.SliceStable by name; with distinct names the result does not depend on the map order *)
Definition sort_records (l : list rectype) : list rectype := fold_right ins_rt [] l.

(* typeIterator *)
Definition decl_keys (cfg : icfg) (r : rectype) : list bytes :=
  map (fun it : item => field_name cfg (fst (fst it)))
      (declared_items cfg (items_of cfg (VStruct (rt_sid r) (rt_proto r)))).
Definition rectype_events (cfg : icfg) (r : rectype) : list event :=
  ERecordType (rt_name r) :: map (fun k => EStringArray AT_String k) (decl_keys cfg r) ++ [EEnd].

Definition rectypes_events (cfg : icfg) : list event :=
  flat_map (rectype_events cfg) (sort_records (c_records cfg)).

(* ------------------------------------------------------------------------- *)
(* Recursion support: duplicates.FindDuplicatePointers                         *)

(* registry: address -> seen more than once *)
Definition reg := list (N * bool).
Fixpoint reg_find (a : N) (r : reg) : option bool :=
  match r with
  | [] => None
  | (a', d) :: t => if a =? a' then Some d else reg_find a t
  end.
Fixpoint reg_mark (a : N) (r : reg) : reg :=
  match r with
  | [] => []
  | (a', d) :: t => if a =? a' then (a', true) :: t else (a', d) :: reg_mark a t
  end.
(* RegisterPointer then, the first time, the continuation *)
Definition register (a : N) (k : reg -> reg) (r : reg) : reg :=
  match reg_find a r with
  | Some _ => reg_mark a r
  | None => k ((a, false) :: r)
  end.

(* scanValue.  Map keys are not scanned.  The "scannable kind" tests only skip values in which
   there is nothing to find.  Registration of the addresses of addressable struct fields is
   outside the model (see the head of the file). *)
Fixpoint scan (v : gval) : reg -> reg :=
  match v with
  | VIface p => scan p
  | VPtr a p => register a (scan p)
  | VOPtr _ => fun r => r
  | VMap a kvs =>
      if is_nil kvs then (fun r => r)
      else register a ((fix go (kvs : list (gval * gval)) (r : reg) : reg :=
                          match kvs with [] => r | kv :: t => go t (scan (snd kv) r) end) kvs)
  | VSlice a es =>
      if is_nil es then (fun r => r)
      else register a ((fix go (es : list gval) (r : reg) : reg :=
                          match es with [] => r | x :: t => go t (scan x r) end) es)
  | VArray es =>
      (fix go (es : list gval) (r : reg) : reg :=
         match es with [] => r | x :: t => go t (scan x r) end) es
  | VStruct _ fs =>
      (fix go (fs : list (finfo * gval)) (r : reg) : reg :=
         match fs with [] => r | iv :: t => go t (scan (snd iv) r) end) fs
  | VNode x ch => fun r => scan ch (scan x r)
  | VEdge a b c => fun r => scan c (scan b (scan a r))
  | _ => fun r => r
  end.

Definition dups_of (v : gval) : list N :=
  map fst (filter (fun ad => snd ad) (scan v [])).

(* ------------------------------------------------------------------------- *)
(* The iterator with recursion support                                         *)

Record st := mkSt { named : list (N * N); next_marker : N }.
Definition st0 : st := {| named := []; next_marker := 0 |}.
Fixpoint named_find (a : N) (l : list (N * N)) : option N :=
  match l with
  | [] => None
  | (a', n) :: t => if a =? a' then Some n else named_find a t
  end.

(* an emitter delivers events and either the next state or a panic (None) *)
Definition emitter := st -> list event * option st.
Definition emit (es : list event) : emitter := fun s => (es, Some s).
Definition seq_em (a b : emitter) : emitter :=
  fun s => match a s with
           | (e1, Some s1) => let (e2, r) := b s1 in (e1 ++ e2, r)
           | (e1, None) => (e1, None)
           end.
Fixpoint seq_all (l : list emitter) : emitter :=
  match l with
  | [] => emit []
  | a :: r => seq_em a (seq_all r)
  end.

(* addLocalReference + getNamedLocalReference (nextMarkerName is a uint32) *)
Definition with_ref (dups : list N) (a : N) (body : emitter) : emitter :=
  fun s =>
    if existsb (N.eqb a) dups then
      match named_find a (named s) with
      | None =>
          let n := next_marker s in
          let (e, s') := body {| named := (a, n) :: named s; next_marker := (n + 1) mod 4294967296 |} in
          (EMarker (dec_bytes n) :: e, s')
      | Some n => ([ERefLocal (dec_bytes n)], Some s)
      end
    else body s.

Definition ritem := gitem emitter.

Definition struct_em (cfg : icfg) (its : list ritem) : emitter :=
  seq_em (emit [EMap])
   (seq_em (seq_all (map (fun it => seq_em (emit [EStringArray AT_String (field_name cfg (fst (fst it)))]) (snd it))
                         (kept_items its)))
           (emit [EEnd])).
Definition record_em (cfg : icfg) (name : bytes) (its : list ritem) : emitter :=
  seq_em (emit [ERecord name]) (seq_em (seq_all (map (fun it => snd it) (declared_items cfg its))) (emit [EEnd])).

Fixpoint rwalk (cfg : icfg) (dups : list N) (v : gval) {struct v} : emitter * list ritem :=
  match v with
  | VSlice a es =>
      (with_ref dups a
         (seq_em (emit [EList]) (seq_em (seq_all (map (fun x => fst (rwalk cfg dups x)) es)) (emit [EEnd]))), [])
  | VArray es =>
      (* addLocalReference returns false for arrays (since /repo commit 7f07b92; before, it called
         reflect.Value.Pointer on the array, which panics) *)
      (seq_em (emit [EList]) (seq_em (seq_all (map (fun x => fst (rwalk cfg dups x)) es)) (emit [EEnd])), [])
  | VMap a kvs =>
      (with_ref dups a
         (seq_em (emit [EMap])
            (seq_em (seq_all (map (fun kv => seq_em (fst (rwalk cfg dups (fst kv))) (fst (rwalk cfg dups (snd kv)))) kvs))
                    (emit [EEnd]))), [])
  | VPtr a p => (with_ref dups a (fst (rwalk cfg dups p)), [])
  | VOPtr p | VIface p => (fst (rwalk cfg dups p), [])
  | VStruct sid fs =>
      let its :=
        (fix go (fs : list (finfo * gval)) : list ritem :=
           match fs with
           | [] => []
           | (i, x) :: r =>
               (if extractable i then
                  if flattened i x then snd (rwalk cfg dups x)
                  else [(i, should_include cfg i (is_empty x) (is_value_zero x), fst (rwalk cfg dups x))]
                else []) ++ go r
           end) fs in
      (match find_record (c_records cfg) sid with
       | Some r => record_em cfg (rt_name r) its
       | None => struct_em cfg its
       end, its)
  | VNode x ch =>
      (seq_em (emit [ENode])
         (seq_em (fst (rwalk cfg dups x))
            (seq_em (match ch with
                     | VSlice _ es => seq_all (map (fun c => fst (rwalk cfg dups c)) es)
                     | _ => emit []
                     end)
                    (emit [EEnd]))), [])
  | VEdge a b c =>
      (seq_em (emit [EEdge])
         (seq_em (fst (rwalk cfg dups a)) (seq_em (fst (rwalk cfg dups b)) (fst (rwalk cfg dups c)))), [])
  | other => (emit (plain cfg other), [])
  end.

(* events, and whether the iteration ran to completion *)
Definition recursive (cfg : icfg) (v : gval) : list event * bool :=
  match fst (rwalk cfg (dups_of v) v) st0 with
  | (es, Some _) => (es, true)
  | (es, None) => (es, false)
  end.

(* ------------------------------------------------------------------------- *)
(* RootObjectIterator.Iterate                                                  *)

Definition value_outcome (cfg : icfg) (v : gval) : list event * bool :=
  if c_recursion cfg then recursive cfg v else (plain cfg v, true).

(* root = None: Iterate(nil).  Result: the events delivered, and false when the iteration
   panicked (nothing is delivered after the panic, in particular no end of document). *)
Definition iterate_outcome (cfg : icfg) (root : option gval) : list event * bool :=
  match root with
  | None => ([EBeginDoc; EVersion 0; ENull; EEndDoc], true)
  | Some v =>
      let (es, ok) := value_outcome cfg v in
      (EBeginDoc :: EVersion 0 :: rectypes_events cfg ++ es ++ (if ok then [EEndDoc] else []), ok)
  end.
Definition iterate (cfg : icfg) (root : option gval) : list event := fst (iterate_outcome cfg root).

(* ------------------------------------------------------------------------- *)
(* What an event stream describes                                             *)

(* the value a document describes.  A record is the map from the keys its record type declares
   to its values; scalars that are one event are kept as that event. *)
Inductive dval :=
| DNull
| DScalar (e : event)
| DString (s : bytes)
| DRid (s : bytes)
| DNums (t : arrty) (elems : list N)      (* element i = the little-endian number in bytes [i*w, (i+1)*w) *)
| DBits (l : list bool)                   (* element i = bit (i mod 8) of byte (i / 8) *)
| DList (l : list dval)
| DMap (kvs : list (dval * dval))
| DNode (v : dval) (children : list dval)
| DEdge (s d t : dval)
| DMarked (id : bytes) (v : dval)
| DRef (id : bytes).

(* containers being read; accumulators are in reverse order *)
Inductive frame :=
| FList (acc : list dval)
| FMap (acc : list dval)
| FRecord (keys : list bytes) (acc : list dval)
| FRecType (name : bytes) (acc : list dval)
| FNode (acc : list dval)
| FEdge (acc : list dval)
| FMarked (id : bytes).

Record rstate := mkRS {
  rs_env : list (bytes * list bytes);   (* record types declared so far: name, keys *)
  rs_stack : list frame;
  rs_done : list dval;                  (* completed top-level values *)
  rs_ended : bool;
}.
Definition rs0 : rstate := mkRS [] [] [] false.

(* a value is complete: it goes to the innermost open container *)
Fixpoint push (v : dval) (env : list (bytes * list bytes)) (stk : list frame) (done : list dval) : rstate :=
  match stk with
  | [] => mkRS env [] (done ++ [v]) false
  | FMarked id :: s => push (DMarked id v) env s done
  | FList acc :: s => mkRS env (FList (v :: acc) :: s) done false
  | FMap acc :: s => mkRS env (FMap (v :: acc) :: s) done false
  | FRecord ks acc :: s => mkRS env (FRecord ks (v :: acc) :: s) done false
  | FRecType n acc :: s => mkRS env (FRecType n (v :: acc) :: s) done false
  | FNode acc :: s => mkRS env (FNode (v :: acc) :: s) done false
  | FEdge acc :: s => mkRS env (FEdge (v :: acc) :: s) done false
  end.
Definition push_st (v : dval) (st : rstate) : rstate := push v (rs_env st) (rs_stack st) (rs_done st).
Definition open_frame (f : frame) (st : rstate) : rstate :=
  mkRS (rs_env st) (f :: rs_stack st) (rs_done st) false.

Fixpoint pair_up (l : list dval) : option (list (dval * dval)) :=
  match l with
  | [] => Some []
  | k :: v :: r => match pair_up r with Some t => Some ((k, v) :: t) | None => None end
  | _ => None
  end.
Fixpoint all_strings (l : list dval) : option (list bytes) :=
  match l with
  | [] => Some []
  | DString s :: r => match all_strings r with Some t => Some (s :: t) | None => None end
  | _ => None
  end.
Fixpoint env_find (n : bytes) (env : list (bytes * list bytes)) : option (list bytes) :=
  match env with
  | [] => None
  | (n', ks) :: r => if bytes_eqb n n' then Some ks else env_find n r
  end.

Definition num_width (t : arrty) : option nat :=
  if (t =? AT_Uint8) || (t =? AT_Int8) then Some 1%nat
  else if (t =? AT_Uint16) || (t =? AT_Int16) || (t =? AT_Float16) then Some 2%nat
  else if (t =? AT_Uint32) || (t =? AT_Int32) || (t =? AT_Float32) then Some 4%nat
  else if (t =? AT_Uint64) || (t =? AT_Int64) || (t =? AT_Float64) then Some 8%nat
  else None.

(* n elements of w bytes each, nothing left over *)
Fixpoint chunks (w n : nat) (data : bytes) : option (list N) :=
  match n with
  | O => match data with [] => Some [] | _ => None end
  | S k =>
      if (length data <? w)%nat then None
      else match chunks w k (skipn w data) with
           | Some r => Some (le_decode (firstn w data) :: r)
           | None => None
           end
  end.

Fixpoint byte_bits (k : nat) (b : N) (i : N) : list bool :=
  match k with
  | O => []
  | S k' => N.testbit b i :: byte_bits k' b (i + 1)
  end.
(* n bits, least significant bit of the first byte first, ceil(n/8) bytes *)
Fixpoint unpack_bits (n : nat) (data : bytes) : option (list bool) :=
  match data with
  | [] => if (n =? 0)%nat then Some [] else None
  | b :: r =>
      if (n =? 0)%nat then None
      else let m := Nat.min 8 n in
           match unpack_bits (n - m) r with
           | Some t => Some (byte_bits m b 0 ++ t)
           | None => None
           end
  end.

Definition read_array (t : arrty) (count : N) (data : bytes) : option dval :=
  if t =? AT_Bit then
    match unpack_bits (N.to_nat count) data with Some l => Some (DBits l) | None => None end
  else match num_width t with
       | Some w => match chunks w (N.to_nat count) data with Some l => Some (DNums t l) | None => None end
       | None => None
       end.

Definition close_frame (f : frame) (env : list (bytes * list bytes)) (stk : list frame) (done : list dval) : option rstate :=
  match f with
  | FList acc => Some (push (DList (rev acc)) env stk done)
  | FMap acc => match pair_up (rev acc) with Some kvs => Some (push (DMap kvs) env stk done) | None => None end
  | FRecord ks acc =>
      if (length ks =? length acc)%nat
      then Some (push (DMap (combine (map DString ks) (rev acc))) env stk done)
      else None
  | FRecType n acc =>
      match all_strings (rev acc), stk with
      | Some ks, [] => Some (mkRS (env ++ [(n, ks)]) [] done false)
      | _, _ => None
      end
  | FNode acc => match rev acc with v :: ch => Some (push (DNode v ch) env stk done) | [] => None end
  | FEdge acc => match rev acc with [a; b; c] => Some (push (DEdge a b c) env stk done) | _ => None end
  | FMarked _ => None
  end.

Definition rd_step (st : rstate) (e : event) : option rstate :=
  if rs_ended st then None else
  match e with
  | ENull => Some (push_st DNull st)
  | EBool _ | ETrue | EFalse | EPosInt _ | ENegInt _ | EInt _ | EBigInt _ | EFloat _ | EBigFloat _
  | EDecimal _ | EBigDecimal _ | ENan _ | EUid _ | ETime _ | EMedia _ _ | ECustomBin _ _ | ECustomText _ _ =>
      Some (push_st (DScalar e) st)
  | EStringArray t s =>
      if t =? AT_String then Some (push_st (DString s) st)
      else if t =? AT_ResourceID then Some (push_st (DRid s) st)
      else Some (push_st (DScalar e) st)
  | EArray t n data => match read_array t n data with Some v => Some (push_st v st) | None => None end
  | EList => Some (open_frame (FList []) st)
  | EMap => Some (open_frame (FMap []) st)
  | ENode => Some (open_frame (FNode []) st)
  | EEdge => Some (open_frame (FEdge []) st)
  | ERecord n => match env_find n (rs_env st) with Some ks => Some (open_frame (FRecord ks []) st) | None => None end
  | ERecordType n => match rs_stack st with [] => Some (open_frame (FRecType n []) st) | _ => None end
  | EMarker id => Some (open_frame (FMarked id) st)
  | ERefLocal id => Some (push_st (DRef id) st)
  | EEnd => match rs_stack st with
            | f :: stk => close_frame f (rs_env st) stk (rs_done st)
            | [] => None
            end
  | EEndDoc => match rs_stack st with [] => Some (mkRS (rs_env st) [] (rs_done st) true) | _ => None end
  | _ => None
  end.

Fixpoint rd_run (st : rstate) (es : list event) : option rstate :=
  match es with
  | [] => Some st
  | e :: r => match rd_step st e with Some st1 => rd_run st1 r | None => None end
  end.

(* the value a whole document describes *)
Definition read_doc (es : list event) : option dval :=
  match es with
  | EBeginDoc :: EVersion _ :: body =>
      match rd_run rs0 body with
      | Some st => if rs_ended st then match rs_done st with [v] => Some v | _ => None end else None
      | None => None
      end
  | _ => None
  end.

(* ------------------------------------------------------------------------- *)
(* What a Go value is, as a document value (the right-hand side of "describes exactly") *)

(* float32 -> float64, exact, NaN payload and signalling state kept *)
Definition widen_exact (w : N) : N :=
  let s := w32_sign w in
  let e := w32_expo w in
  let m := w32_mant w in
  if e =? 255 then mk64 s 2047 (m * p29)
  else if e =? 0 then
    if m =? 0 then mk64 s 0 0
    else let l := N.log2 m in mk64 s (l + 874) ((m - 2 ^ l) * 2 ^ (52 - l))
  else mk64 s (e + 896) (m * p29).

Definition elem_pattern (k : akind) (z : Z) : N := Z.to_N (z mod 2 ^ (8 * Z.of_nat (width_of k)))%Z.

Definition citem := gitem dval.
(* a struct that is not of a registered record type: its kept fields, by emitted name *)
Definition struct_dval (cfg : icfg) (its : list citem) : dval :=
  DMap (map (fun it => (DString (field_name cfg (fst (fst it))), snd it)) (kept_items its)).
(* a struct of a registered record type: every field the type declares *)
Definition record_dval (cfg : icfg) (its : list citem) : dval :=
  DMap (map (fun it => (DString (field_name cfg (fst (fst it))), snd it)) (declared_items cfg its)).

(* the fields of a struct as the property counts them ("every non-omitted struct field"): Go
   promotes the exported fields of an embedded struct to the outer struct whatever the name of the
   embedded TYPE is, so an embedded struct is looked into even when common.IsFieldExported says no
   of it (a lower-case type name).  extractFields uses [extractable] and drops such an embedded
   struct with everything below it: the open class "promoted field of an unexported embedded
   struct dropped" ([promoted_ok] below excludes it, Props/C05.v refutes the property on it). *)
Definition cextractable (i : finfo) (x : gval) : bool :=
  (f_exported i || flattened i x) && negb (omit_eqb (f_omit i) OAlways).

Fixpoint cwalk (cfg : icfg) (v : gval) {struct v} : dval * list citem :=
  match v with
  | VBool b => (DScalar (EBool b), [])
  | VInt z => (DScalar (EInt z), [])
  | VUint n => (DScalar (EPosInt n), [])
  | VF32 w => (DScalar (EFloat (widen_exact w)), [])
  | VF64 b => (DScalar (EFloat b), [])
  | VString s => (DString s, [])
  | VNum _ k es => (DNums (at_of k) (map (elem_pattern k) es), [])
  | VBools _ l => (DBits l, [])
  | VNilSlice | VNilMap | VNilPtr | VNilIface => (DNull, [])
  | VSlice _ es | VArray es => (DList (map (fun x => fst (cwalk cfg x)) es), [])
  | VMap _ kvs => (DMap (map (fun kv => (fst (cwalk cfg (fst kv)), fst (cwalk cfg (snd kv)))) kvs), [])
  | VPtr _ p | VOPtr p | VIface p => (fst (cwalk cfg p), [])
  | VStruct sid fs =>
      let its :=
        (fix go (fs : list (finfo * gval)) : list citem :=
           match fs with
           | [] => []
           | (i, x) :: r =>
               (if cextractable i x then
                  if flattened i x then snd (cwalk cfg x)
                  else [(i, should_include cfg i (is_empty x) (is_value_zero x), fst (cwalk cfg x))]
                else []) ++ go r
           end) fs in
      (match find_record (c_records cfg) sid with
       | Some _ => record_dval cfg its
       | None => struct_dval cfg its
       end, its)
  | VTime _ t => (DScalar (ETime t), [])
  | VUrl _ t => (DRid t, [])
  | VBigInt _ z => (DScalar (EBigInt (Some z)), [])
  | VBigFloat _ f => (DScalar (EBigFloat (Some f)), [])
  | VBigDec _ d => (DScalar (EBigDecimal (Some d)), [])
  | VDFloat _ d => (DScalar (EDecimal d), [])
  | VUid b => (DScalar (EUid b), [])
  | VMedia _ mt data => (DScalar (EMedia mt data), [])
  | VNode x ch =>
      (DNode (fst (cwalk cfg x))
             (match ch with VSlice _ es => map (fun c => fst (cwalk cfg c)) es | _ => [] end), [])
  | VEdge a b c => (DEdge (fst (cwalk cfg a)) (fst (cwalk cfg b)) (fst (cwalk cfg c)), [])
  end.

Definition canon (cfg : icfg) (v : gval) : dval := fst (cwalk cfg v).
Definition canon_root (cfg : icfg) (root : option gval) : dval :=
  match root with None => DNull | Some v => canon cfg v end.

(* ------------------------------------------------------------------------- *)
(* The domain of the theorems (Proofs/IterateProofs.v)                         *)

(* a signalling float32 NaN *)
Definition is_snan32 (w : N) : bool := w32_is_nan w && negb (N.testbit w 22).

(* the record types as the reader knows them after the head of the document *)
Definition decl_env (cfg : icfg) : list (bytes * list bytes) :=
  map (fun r => (rt_name r, decl_keys cfg r)) (sort_records (c_records cfg)).
(* every registered record type's name resolves to its own declaration (true when names are distinct) *)
Definition records_ok (cfg : icfg) : bool :=
  forallb (fun r => match env_find (rt_name r) (decl_env cfg) with
                    | Some ks => list_eqb bytes_eqb ks (decl_keys cfg r)
                    | None => false
                    end) (c_records cfg).

(* the names of the fields a value of a registered record type carries *)
Definition record_names (cfg : icfg) (v : gval) : list bytes :=
  map (fun it : item => field_name cfg (fst (fst it))) (declared_items cfg (items_of cfg v)).

(* an embedded struct with a lower-case type name (not tagged `omit`) promotes no field: what it
   holds has no exported field to show *)
Definition promoted_ok (cfg : icfg) (i : finfo) (x : gval) : bool :=
  negb (flattened i x && negb (f_exported i) && negb (omit_eqb (f_omit i) OAlways))
  || is_nil (snd (cwalk cfg x)).

(* [descr cfg v]: v avoids the open defect classes of the iterator:
   - no types.Edge (no end-container event is emitted for it),
   - no signalling float32 NaN (reflect's Float() goes through float64 and quiets it),
   - no exported field promoted through an embedded struct whose type name is lower-case
     (extractFields drops the embedded struct) [promoted_ok];
   and v is well-formed: a value of a registered record type has the fields of that type
   (the same struct type as the registered one), bool slices are shorter than 2^64. *)
Fixpoint descr (cfg : icfg) (v : gval) {struct v} : bool :=
  match v with
  | VF32 w => negb (is_snan32 w)
  | VNum _ AF32 es => forallb (fun z => negb (is_snan32 (elem_pattern AF32 z))) es
  | VBools _ l => len l <? two64
  | VSlice _ es | VArray es => forallb (descr cfg) es
  | VMap _ kvs => forallb (fun kv => descr cfg (fst kv) && descr cfg (snd kv)) kvs
  | VPtr _ p | VOPtr p | VIface p => descr cfg p
  | VStruct sid fs =>
      forallb (fun iv => descr cfg (snd iv)) fs &&
      forallb (fun iv => promoted_ok cfg (fst iv) (snd iv)) fs &&
      match find_record (c_records cfg) sid with
      | Some r => list_eqb bytes_eqb (decl_keys cfg r) (record_names cfg (VStruct sid fs))
      | None => true
      end
  | VNode x ch => descr cfg x && match ch with VSlice _ es => forallb (descr cfg) es | _ => true end
  | VEdge _ _ _ => false
  | _ => true
  end.

(* one-event values that can be map keys, with the key the validator derives from the event *)
Fixpoint key_of (v : gval) : option rawkey :=
  match v with
  | VBool b => Some (RkBool b)
  | VInt z => Some (RkInt64 z)
  | VUint n => Some (RkUint64 n)
  | VString s => Some (RkString s)
  | VUid b => Some (RkBytes b)
  | VTime _ t => Some (RkTime t)
  | VBigInt _ z => Some (RkBigInt z)
  | VIface k | VOPtr k => key_of k
  | _ => None
  end.
Definition is_some {A} (o : option A) : bool := match o with Some _ => true | None => false end.

(* no key repeats, in the order the validator sees them *)
Fixpoint keys_fresh (seen : list nkey) (l : list nkey) : bool :=
  match l with
  | [] => true
  | k :: r => negb (existsb (nkey_eqb k) seen) && keys_fresh (k :: seen) r
  end.
Definition key_norm (v : gval) : nkey :=
  match key_of v with Some k => norm_key k | None => NkBool false end.

Definition string_ok (rc : rcfg) (s : bytes) : bool := length_ok rc (blen s) && utf8_valid s.
Definition kept_names (cfg : icfg) (v : gval) : list bytes :=
  map (fun it : item => field_name cfg (fst (fst it))) (kept_items (items_of cfg v)).

(* [vok rc cfg d v]: the value v, standing d containers deep, is within what the validator
   (limits rc) can accept from the iterator without recursion support:
   - a time.Time / compact_time.Time is the zero value or one compact_time's Validate accepts
     ([time_token_valid] of its token, rules OnTime, /repo bdbfb19: the iterator emits any time,
     the validator refuses the others);
   - strings, resource ids, field names and media types are valid UTF-8 within the size limit;
     a media type has the form type/subtype the validator asks for ([media_type_valid], rules
     ValidateMediaType, /repo afaa1e5: a types.Media with any other media type is rejected);
     arrays are within the size limit (and their bit size does not wrap at 2^64);
   - containers nest no deeper than the depth limit;
   - map keys are one-event keyable values (bool, integers, string, uid, time) that stay distinct
     as document keys; the emitted field names of a struct are distinct;
   - a value of a registered record type has as many declared fields as that type (it is of the
     registered struct type), and the record name is a valid identifier;
   - no types.Edge (no end-container event is emitted for it).
   Fields that are omitted are required to be acceptable too (simplification). *)
Fixpoint vok (rc : rcfg) (cfg : icfg) (d : N) (v : gval) {struct v} : bool :=
  match v with
  | VString s => string_ok rc s
  | VUrl _ t => string_ok rc t
  | VTime _ t => time_token_valid t
  | VNum _ k es => (len es * 64 <? two64) && length_ok rc (blen (num_bytes k es))
  | VBools _ l => (len l <? two64) && length_ok rc (blen (pack_bools l))
  | VMedia _ mt data => utf8_valid mt && media_type_valid mt && (blen data * 8 <? two64) && length_ok rc (blen data)
  | VSlice _ es | VArray es =>
      (d + 1 <=? max_container_depth rc) && forallb (vok rc cfg (d + 1)) es
  | VMap _ kvs =>
      (d + 1 <=? max_container_depth rc)
      && forallb (fun kv => is_some (key_of (fst kv)) && vok rc cfg (d + 1) (fst kv) && vok rc cfg (d + 1) (snd kv)) kvs
      && keys_fresh [] (map (fun kv => key_norm (fst kv)) kvs)
  | VPtr _ p | VOPtr p | VIface p => vok rc cfg d p
  | VStruct sid fs =>
      (d + 1 <=? max_container_depth rc)
      && forallb (fun iv => vok rc cfg (d + 1) (snd iv)) fs
      && match find_record (c_records cfg) sid with
         | Some r => validate_identifier rc (rt_name r)
                     && (length (record_names cfg (VStruct sid fs)) =? length (decl_keys cfg r))%nat
         | None => forallb (string_ok rc) (kept_names cfg (VStruct sid fs))
                   && keys_fresh [] (map NkString (kept_names cfg (VStruct sid fs)))
         end
  | VNode x ch =>
      (d + 1 <=? max_container_depth rc) && vok rc cfg (d + 1) x
      && match ch with VSlice _ es => forallb (vok rc cfg (d + 1)) es | _ => true end
  | VEdge _ _ _ => false
  | _ => true
  end.

(* the head of the document: record names are distinct valid identifiers, the keys of each
   record type are distinct valid strings *)
Fixpoint names_fresh (seen : list bytes) (l : list bytes) : bool :=
  match l with
  | [] => true
  | n :: r => negb (existsb (bytes_eqb n) seen) && names_fresh (n :: seen) r
  end.
Definition head_ok (rc : rcfg) (cfg : icfg) : bool :=
  (1 <=? max_container_depth rc)
  && names_fresh [] (map rt_name (sort_records (c_records cfg)))
  && forallb (fun r => validate_identifier rc (rt_name r)
                       && forallb (string_ok rc) (decl_keys cfg r)
                       && keys_fresh [] (map NkString (decl_keys cfg r)))
             (c_records cfg).

(* number of events that count as an object for the validator: all but the end-container events *)
Definition is_end (e : event) : bool := match e with EEnd => true | _ => false end.
Fixpoint weight (es : list event) : N :=
  match es with
  | [] => 0
  | e :: r => (if is_end e then 0 else 1) + weight r
  end.

(* ------------------------------------------------------------------------- *)
(* The whole quantifier of the property (used to state it in full, Props/C05.v) *)

Definition non_nil (v : gval) : bool :=
  match v with VNilIface | VNilPtr | VNilSlice | VNilMap => false | _ => true end.

(* [supported]: as [vok] but edges are allowed (with a source and a destination) *)
Fixpoint supported (rc : rcfg) (cfg : icfg) (d : N) (v : gval) {struct v} : bool :=
  match v with
  | VString s => string_ok rc s
  | VUrl _ t => string_ok rc t
  | VTime _ t => time_token_valid t
  | VNum _ k es => (len es * 64 <? two64) && length_ok rc (blen (num_bytes k es))
  | VBools _ l => (len l <? two64) && length_ok rc (blen (pack_bools l))
  | VMedia _ mt data => utf8_valid mt && media_type_valid mt && (blen data * 8 <? two64) && length_ok rc (blen data)
  | VSlice _ es | VArray es =>
      (d + 1 <=? max_container_depth rc) && forallb (supported rc cfg (d + 1)) es
  | VMap _ kvs =>
      (d + 1 <=? max_container_depth rc)
      && forallb (fun kv => is_some (key_of (fst kv)) && supported rc cfg (d + 1) (fst kv) && supported rc cfg (d + 1) (snd kv)) kvs
      && keys_fresh [] (map (fun kv => key_norm (fst kv)) kvs)
  | VPtr _ p | VOPtr p | VIface p => supported rc cfg d p
  | VStruct sid fs =>
      (d + 1 <=? max_container_depth rc)
      && forallb (fun iv => supported rc cfg (d + 1) (snd iv)) fs
      && match find_record (c_records cfg) sid with
         | Some r => validate_identifier rc (rt_name r)
                     && (length (record_names cfg (VStruct sid fs)) =? length (decl_keys cfg r))%nat
         | None => forallb (string_ok rc) (kept_names cfg (VStruct sid fs))
                   && keys_fresh [] (map NkString (kept_names cfg (VStruct sid fs)))
         end
  | VNode x ch =>
      (d + 1 <=? max_container_depth rc) && supported rc cfg (d + 1) x
      && match ch with VSlice _ es => forallb (supported rc cfg (d + 1)) es | _ => true end
  | VEdge a b c =>
      (d + 1 <=? max_container_depth rc) && non_nil a && non_nil c
      && supported rc cfg (d + 1) a && supported rc cfg (d + 1) b && supported rc cfg (d + 1) c
  | _ => true
  end.

(* [supported_any_names]: [supported] without the demand that the emitted field names of a struct
   are distinct.  Go lets an embedded struct have a field with the name of a field of the outer
   struct (the outer one shadows it), two embedded structs may both have a field X, and two names
   may fall together in snake case or through a `name=` tag; extractFields keeps all of them, so the
   map gets a key twice: the open class "duplicate flattened field name" (Props/C05.v refutes the
   property stated with this predicate). *)
Fixpoint supported_any_names (rc : rcfg) (cfg : icfg) (d : N) (v : gval) {struct v} : bool :=
  match v with
  | VString s => string_ok rc s
  | VUrl _ t => string_ok rc t
  | VTime _ t => time_token_valid t
  | VNum _ k es => (len es * 64 <? two64) && length_ok rc (blen (num_bytes k es))
  | VBools _ l => (len l <? two64) && length_ok rc (blen (pack_bools l))
  | VMedia _ mt data => utf8_valid mt && media_type_valid mt && (blen data * 8 <? two64) && length_ok rc (blen data)
  | VSlice _ es | VArray es =>
      (d + 1 <=? max_container_depth rc) && forallb (supported_any_names rc cfg (d + 1)) es
  | VMap _ kvs =>
      (d + 1 <=? max_container_depth rc)
      && forallb (fun kv => is_some (key_of (fst kv)) && supported_any_names rc cfg (d + 1) (fst kv) && supported_any_names rc cfg (d + 1) (snd kv)) kvs
      && keys_fresh [] (map (fun kv => key_norm (fst kv)) kvs)
  | VPtr _ p | VOPtr p | VIface p => supported_any_names rc cfg d p
  | VStruct sid fs =>
      (d + 1 <=? max_container_depth rc)
      && forallb (fun iv => supported_any_names rc cfg (d + 1) (snd iv)) fs
      && match find_record (c_records cfg) sid with
         | Some r => validate_identifier rc (rt_name r)
                     && (length (record_names cfg (VStruct sid fs)) =? length (decl_keys cfg r))%nat
         | None => forallb (string_ok rc) (kept_names cfg (VStruct sid fs))
         end
  | VNode x ch =>
      (d + 1 <=? max_container_depth rc) && supported_any_names rc cfg (d + 1) x
      && match ch with VSlice _ es => forallb (supported_any_names rc cfg (d + 1)) es | _ => true end
  | VEdge a b c =>
      (d + 1 <=? max_container_depth rc) && non_nil a && non_nil c
      && supported_any_names rc cfg (d + 1) a && supported_any_names rc cfg (d + 1) b && supported_any_names rc cfg (d + 1) c
  | _ => true
  end.

(* no object contains itself (an occurrence whose address is the address of an enclosing object) *)
Fixpoint acyclic (anc : list N) (v : gval) {struct v} : bool :=
  match v with
  | VSlice a es => negb (existsb (N.eqb a) anc) && forallb (acyclic (a :: anc)) es
  | VArray es => forallb (acyclic anc) es
  | VMap a kvs => negb (existsb (N.eqb a) anc)
                  && forallb (fun kv => acyclic (a :: anc) (fst kv) && acyclic (a :: anc) (snd kv)) kvs
  | VPtr a p => negb (existsb (N.eqb a) anc) && acyclic (a :: anc) p
  | VOPtr p | VIface p => acyclic anc p
  | VStruct _ fs => forallb (fun iv => acyclic anc (snd iv)) fs
  | VNode x ch => acyclic anc x && acyclic anc ch
  | VEdge a b c => acyclic anc a && acyclic anc b && acyclic anc c
  | _ => true
  end.

(* a document with markers and references, read as the value it stands for: every reference is
   replaced by the marked value (finite unfolding; None when it does not end within the fuel) *)
Fixpoint marks (v : dval) : list (bytes * dval) :=
  match v with
  | DMarked id x => (id, x) :: marks x
  | DList l => flat_map marks l
  | DMap kvs => flat_map (fun kv => marks (fst kv) ++ marks (snd kv)) kvs
  | DNode x ch => marks x ++ flat_map marks ch
  | DEdge a b c => marks a ++ marks b ++ marks c
  | _ => []
  end.
Fixpoint mark_find (id : bytes) (tbl : list (bytes * dval)) : option dval :=
  match tbl with
  | [] => None
  | (i, x) :: r => if bytes_eqb id i then Some x else mark_find id r
  end.
Fixpoint omap {A B} (f : A -> option B) (l : list A) : option (list B) :=
  match l with
  | [] => Some []
  | x :: r => match f x, omap f r with Some y, Some t => Some (y :: t) | _, _ => None end
  end.
Fixpoint unref (fuel : nat) (tbl : list (bytes * dval)) (v : dval) : option dval :=
  match fuel with
  | O => None
  | S f =>
    match v with
    | DRef id => match mark_find id tbl with Some x => unref f tbl x | None => None end
    | DMarked _ x => unref f tbl x
    | DList l => match omap (unref f tbl) l with Some l' => Some (DList l') | None => None end
    | DMap kvs =>
        match omap (fun kv => match unref f tbl (fst kv), unref f tbl (snd kv) with
                              | Some k, Some x => Some (k, x) | _, _ => None end) kvs with
        | Some kvs' => Some (DMap kvs') | None => None end
    | DNode x ch =>
        match unref f tbl x, omap (unref f tbl) ch with
        | Some x', Some ch' => Some (DNode x' ch') | _, _ => None end
    | DEdge a b c =>
        match unref f tbl a, unref f tbl b, unref f tbl c with
        | Some a', Some b', Some c' => Some (DEdge a' b' c') | _, _, _ => None end
    | other => Some other
    end
  end.
Definition described_rec (es : list event) : option dval :=
  match read_doc es with
  | Some d => unref (S (length es)) (marks d) d
  | None => None
  end.

(* ------------------------------------------------------------------------- *)
(* Correspondence cases: configuration, root value (None = nil), the events the
   implementation delivered, and whether the iteration completed (false: it panicked),
   and the index of the first event its validator (default limits) rejected. *)
Definition iterate_case := (icfg * option gval * list event * bool * option N)%type.
Definition iterate_case_ok (k : iterate_case) : bool :=
  let '(cfg, root, evs, completed, rej) := k in
  let (es, ok) := iterate_outcome cfg root in
  list_eqb event_eqb es evs && Bool.eqb ok completed
  && option_eqb N.eqb (rejected_at default_rcfg evs) rej.

(* ------------------------------------------------------------------------- *)
(* One RootObjectIterator used for several documents (what a Marshaler may do).
   Iterate makes foundReferences and namedReferences anew for every document, so every document
   stands on its own; only nextMarkerName is never reset: the marker names of a later document
   continue where the document before stopped.  [iterate_outcome_from n] is [iterate_outcome] with
   n as the first marker name; it also returns the first marker name of the next document. *)
Definition recursive_from (n : N) (cfg : icfg) (v : gval) : list event * bool * N :=
  match fst (rwalk cfg (dups_of v) v) {| named := []; next_marker := n |} with
  | (es, Some s) => (es, true, next_marker s)
  | (es, None) => (es, false, n)
  end.
Definition iterate_outcome_from (n : N) (cfg : icfg) (root : option gval) : list event * bool * N :=
  match root with
  | None => ([EBeginDoc; EVersion 0; ENull; EEndDoc], true, n)
  | Some v =>
      let '(es, ok, n') := if c_recursion cfg then recursive_from n cfg v else (plain cfg v, true, n) in
      (EBeginDoc :: EVersion 0 :: rectypes_events cfg ++ es ++ (if ok then [EEndDoc] else []), ok, n')
  end.

(* Correspondence cases for a sequence of documents through one iterator: per document the root
   value, the events delivered, whether the iteration completed, the validator's verdict *)
Definition iterate_doc := (option gval * list event * bool * option N)%type.
Definition iterate_seq_case := (icfg * list iterate_doc)%type.
Fixpoint seq_ok (cfg : icfg) (n : N) (docs : list iterate_doc) : bool :=
  match docs with
  | [] => true
  | (root, evs, completed, rej) :: r =>
      let '(es, ok, n') := iterate_outcome_from n cfg root in
      list_eqb event_eqb es evs && Bool.eqb ok completed
      && option_eqb N.eqb (rejected_at default_rcfg evs) rej && seq_ok cfg n' r
  end.
Definition iterate_seq_case_ok (k : iterate_seq_case) : bool := seq_ok (fst k) 0 (snd k).
