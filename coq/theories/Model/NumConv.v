(* C19 - numeric conversions of the object builder.

   Modelled code (all in /repo):
     builder/builder_event_rcv.go   OnPositiveInt / OnNegativeInt / OnInt / OnBigInt / OnFloat /
                                    OnBigFloat / OnDecimalFloat / OnBigDecimalFloat / OnNan   ([route])
     builder/builder_numeric.go     intBuilder, uintBuilder, floatBuilder, (p)bigIntBuilder,
                                    (p)bigFloatBuilder                                        ([build])
     builder/conversions.go         set{Int,Uint,Float,BigInt,PBigInt,BigFloat,PBigFloat}From*
     conversions/conversions.go     UintToInt, IntToUint, UintToBigInt, BigIntTo{Int,Uint,Float},
                                    BigFloatTo{Int,Uint,BigInt}, FloatToBigInt,
                                    DecimalFloatToBigInt, BigDecimalFloatTo{Uint,BigInt}
     go-compact-float dfloat.go     DFloat.Int, DFloat.Uint, DFloat.BigInt, specials of DFloat.BigFloat
     apd/v2 decimal.go              Decimal.Int64 (by its value-level behaviour)
     Go itself                      reflect.Value.SetInt/SetUint/SetFloat truncation, int64(float64),
                                    uint64(float64) as compiled for amd64 by go1.23, float64(int64),
                                    float64(uint64), float32(float64) on integer values,
                                    math/big Float.{SetInt64,SetUint64,SetInt,Int64,Uint64,Int,MantExp,Cmp},
                                    big.NewFloat, strconv.ParseFloat on integer text.

   NOT modelled (abstract, Section variables [ext_df], [ext_bdf]): the decimal -> binary
   parse  big.ParseFloat(text, 10, prec, ToNearestEven)  reached through DFloat.BigFloat and
   conversions.BigDecimalFloatToBigFloat.  A concrete instance for integer-valued decimals with
   a small non-negative exponent is [parse_int_dec] (single correct rounding).

   Everything is in Z.  Wrap-around is explicit ([wraps], [wrapu], [mod p64]).
   The model describes what the code DOES, including its defects.
   Executable definitions only; proofs are in Proofs/NumConvProofs.v. *)
From CE Require Export Base.Prelude.
Open Scope Z_scope.

(* ------------------------------------------------------------------ *)
(* Machine integers                                                    *)

Definition p63 : Z := 9223372036854775808.
Definition p64 : Z := 18446744073709551616.

Inductive iw := I8 | I16 | I32 | I64.          (* int / uint are 64 bits wide on the checked platform *)
Definition iw_mod (w : iw) : Z :=
  match w with I8 => 256 | I16 => 65536 | I32 => 4294967296 | I64 => 18446744073709551616 end.
Definition iw_half (w : iw) : Z :=
  match w with I8 => 128 | I16 => 32768 | I32 => 2147483648 | I64 => 9223372036854775808 end.

(* reflect.Value.SetUint on a uintN followed by Uint(): keeps the low N bits *)
Definition wrapu (w : iw) (z : Z) : Z := z mod iw_mod w.
(* reflect.Value.SetInt on an intN followed by Int(): keeps the low N bits, sign-extended *)
Definition wraps (w : iw) (z : Z) : Z := (z + iw_half w) mod iw_mod w - iw_half w.

Definition in_i64 (z : Z) : bool := (- p63 <=? z) && (z <? p63).
Definition in_u64 (z : Z) : bool := (0 <=? z) && (z <? p64).

Definition sgn (neg : bool) (z : Z) : Z := if neg then - z else z.

(* ------------------------------------------------------------------ *)
(* Binary floats                                                       *)

(* A decoded IEEE value: (-1)^neg * m * 2^e with m >= 0 *)
Inductive fdec := FNan | FInf (neg : bool) | FFin (neg : bool) (m : Z) (e : Z).

Definition f64_decode (bits : N) : fdec :=
  let z := Z.of_N bits in
  let s := Z.odd (z / p63) in
  let ef := (z / 4503599627370496) mod 2048 in
  let mf := z mod 4503599627370496 in
  if ef =? 2047 then (if mf =? 0 then FInf s else FNan)
  else if ef =? 0 then FFin s mf (-1074)
  else FFin s (4503599627370496 + mf) (ef - 1075).

Definition f32_decode (bits : N) : fdec :=
  let z := Z.of_N bits in
  let s := Z.odd (z / 2147483648) in
  let ef := (z / 8388608) mod 256 in
  let mf := z mod 8388608 in
  if ef =? 255 then (if mf =? 0 then FInf s else FNan)
  else if ef =? 0 then FFin s mf (-149)
  else FFin s (8388608 + mf) (ef - 150).

(* floor of m * 2^e for m >= 0 (= truncation toward zero of the magnitude) *)
Definition dy_trunc (m e : Z) : Z := if 0 <=? e then m * 2 ^ e else m / 2 ^ (- e).

(* int64(f) as compiled for amd64 (CVTTSD2SQ): truncation; the "integer indefinite"
   value 0x8000000000000000 for NaN, infinities and anything out of range *)
Definition cvt64 (f : fdec) : Z :=
  match f with
  | FFin s m e => let t := sgn s (dy_trunc m e) in if in_i64 t then t else - p63
  | _ => - p63
  end.

(* f < 2^63 as a float comparison (false for NaN) *)
Definition f_lt_p63 (f : fdec) : bool :=
  match f with
  | FNan => false
  | FInf s => s
  | FFin s m e => s || (dy_trunc m e <? p63)
  end.

(* uint64(f) as compiled for amd64 by go1.23:
     if f < 2^63 { uint64(int64(f)) } else { uint64(int64(f - 2^63)) | 1<<63 }
   For 2^63 <= f < 2^64 the float subtraction is exact; for f >= 2^64 its (rounded) result is
   still >= 2^63, so the inner conversion yields the indefinite value and the OR leaves 2^63. *)
Definition go_uint64 (f : fdec) : Z :=
  if f_lt_p63 f then (cvt64 f) mod p64
  else match f with
       | FFin _ m e => let y := dy_trunc m e - p63 in if y <? p63 then y + p63 else p63
       | _ => p63
       end.

(* number of bits of n >= 0 (big.Int.BitLen) *)
Definition bitlen (n : Z) : Z := if n <=? 0 then 0 else Z.log2 n + 1.

(* round the integer n >= 0 to p significant bits, ties to even; the result is an integer *)
Definition rne_mag (p n : Z) : Z :=
  let l := bitlen n in
  if l <=? p then n
  else
    let s := l - p in
    let q := n / 2 ^ s in
    let r := n mod 2 ^ s in
    let h := 2 ^ (s - 1) in
    (if (h <? r) || ((r =? h) && Z.odd q) then q + 1 else q) * 2 ^ s.

(* float64(v) for an int64 / uint64 v, as an integer (always finite) *)
Definition rne (p z : Z) : Z := if z <? 0 then - rne_mag p (- z) else rne_mag p z.

(* Go's f == float64(z') where the right-hand side is the float with integer value z *)
Definition f_eq_int (f : fdec) (z : Z) : bool :=
  match f with
  | FFin s m e => if 0 <=? e then sgn s m * 2 ^ e =? z else sgn s m =? z * 2 ^ (- e)
  | _ => false
  end.

Inductive fwid := F32 | F64.

(* reflect.Value.SetFloat of the float64 with integer magnitude n (n already a float64 value):
   unchanged for a float64 destination, rounded once more for a float32 destination
   (overflow gives an infinity).  Float() afterwards widens exactly. *)
Definition store_float (w : fwid) (neg : bool) (n : Z) : fdec :=
  match w with
  | F64 => FFin neg n 0
  | F32 => let n' := rne_mag 24 n in
           if 2 ^ 128 <=? n' then FInf neg else FFin neg n' 0
  end.

(* ------------------------------------------------------------------ *)
(* big.Float and decimal floats                                        *)

(* big.Float: (-1)^neg * m * 2^e (m >= 0) carrying a precision, or an infinity *)
Inductive bfl := BF (neg : bool) (m : Z) (e : Z) (prec : Z) | BFInf (neg : bool).

(* compact_float.DFloat and apd.Decimal: (-1)^neg * c * 10^e (c >= 0), infinities, NaNs.
   The DFloat negative zero is [Dec true 0 _] (its Exponent field holds ExpSpecial). *)
Inductive dec := Dec (neg : bool) (c : Z) (e : Z) | DecInf (neg : bool) | DecNan (signaling : bool).

(* Some z iff the value is a (finite) integer z *)
Definition bf_int_value (b : bfl) : option Z :=
  match b with
  | BF s m e _ =>
      if 0 <=? e then Some (sgn s (m * 2 ^ e))
      else if m mod 2 ^ (- e) =? 0 then Some (sgn s (m / 2 ^ (- e))) else None
  | BFInf _ => None
  end.

(* Float.MantExp(nil) *)
Definition bf_mantexp (b : bfl) : Z :=
  match b with
  | BF _ m e _ => if m =? 0 then 0 else bitlen m + e
  | BFInf _ => 0
  end.

(* Float.Int64(): Some i iff the accuracy is Exact *)
Definition bf_int64 (b : bfl) : option Z :=
  match bf_int_value b with
  | Some z => if in_i64 z then Some z else None
  | None => None
  end.

(* Float.Uint64(): Some u iff the accuracy is Exact *)
Definition bf_uint64 (b : bfl) : option Z :=
  match bf_int_value b with
  | Some z => if in_u64 z then Some z else None
  | None => None
  end.

(* conversions.BigFloatToInt: Int64 exact, then big.NewFloat(float64(i)).Cmp(value) == 0 *)
Definition bigfloat_to_int (b : bfl) : option Z :=
  match bf_int64 b with
  | Some i => if rne 53 i =? i then Some i else None
  | None => None
  end.

(* conversions.BigFloatToUint *)
Definition bigfloat_to_uint (b : bfl) : option Z :=
  match bf_uint64 b with
  | Some u => if rne 53 u =? u then Some u else None
  | None => None
  end.

(* conversions.BigFloatToBigInt *)
Definition bigfloat_to_bigint (max2 : Z) (b : bfl) : option Z :=
  if max2 <? bf_mantexp b then None else bf_int_value b.

(* big.NewFloat: panics on NaN; precision 53 *)
Definition new_float (f : fdec) : option bfl :=
  match f with
  | FNan => None
  | FInf s => Some (BFInf s)
  | FFin s m e => Some (BF s m e 53)
  end.

(* new(big.Float).SetInt(z): precision max(BitLen, 64) *)
Definition bf_set_int (z : Z) : bfl := BF (z <? 0) (Z.abs z) 0 (Z.max (bitlen (Z.abs z)) 64).

(* DFloat special values have Exponent = ExpSpecial < 0 *)
Definition dec_special (d : dec) : bool :=
  match d with
  | Dec true 0 _ => true
  | Dec _ _ _ => false
  | _ => true
  end.

(* DFloat.Int *)
Definition dfloat_int (d : dec) : option Z :=
  match d with
  | Dec neg c e =>
      if dec_special d then None
      else if e <? 0 then None
      else if 19 <=? e then None
      else
        let k := 10 ^ e in
        let cs := sgn neg c in
        let r := wraps I64 (cs * k) in
        if (r <? 0) || negb (Z.quot r k =? cs) then None else Some r
  | _ => None
  end.

(* DFloat.Uint *)
Definition dfloat_uint (d : dec) : option Z :=
  match d with
  | Dec neg c e =>
      if dec_special d then None
      else if e <? 0 then None
      else if 20 <=? e then None
      else
        let k := 10 ^ e in
        let u := (sgn neg c) mod p64 in          (* uint64(this.Coefficient) *)
        let r := (u * k) mod p64 in
        if r / k =? u then Some r else None
  | _ => None
  end.

(* conversions.DecimalFloatToBigInt (DFloat.BigInt inside) *)
Definition dfloat_bigint (max10 : Z) (d : dec) : option Z :=
  match d with
  | Dec neg c e =>
      if dec_special d then None
      else if max10 <? e then None
      else if e <? 0 then None
      else Some (sgn neg c * 10 ^ e)
  | _ => None
  end.

(* integer value of a finite decimal, if it is an integer *)
Definition dec_int_value (neg : bool) (c e : Z) : option Z :=
  if 0 <=? e then Some (sgn neg (c * 10 ^ e))
  else let k := 10 ^ (- e) in
       if c mod k =? 0 then Some (sgn neg (c / k)) else None.

(* apd.Decimal.Int64: the value if finite, integral and within int64 *)
Definition apd_int64 (d : dec) : option Z :=
  match d with
  | Dec neg c e =>
      match dec_int_value neg c e with
      | Some z => if in_i64 z then Some z else None
      | None => None
      end
  | _ => None
  end.

(* conversions.BigDecimalFloatToBigInt: 10^Exponent * Coeff, negated if value.Negative *)
Definition bigdec_to_bigint (max10 : Z) (d : dec) : option Z :=
  match d with
  | Dec neg c e =>
      if e <? 0 then None
      else if max10 <? e then None
      else Some (sgn neg (c * 10 ^ e))
  | _ => None
  end.

(* conversions.UintToBigInt *)
Definition uint_to_bigint (u : Z) : Z := if u <=? p63 - 1 then u (* big.NewInt(int64(u)) *) else u (* SetUint64 *).

(* ---- concrete instance of the decimal -> binary parse on integers ---- *)

Fixpoint ndigits_aux (fuel : nat) (c acc : Z) : Z :=
  match fuel with
  | O => acc
  | S k => if c <? 10 then acc else ndigits_aux k (c / 10) (acc + 1)
  end.
(* apd NumDigits: decimal digits of the coefficient (1 for 0) *)
Definition num_digits (c : Z) : Z := ndigits_aux (Z.to_nat (bitlen c)) c 1.
(* common.DecimalDigitsToBits *)
Definition digits_to_bits (d : Z) : Z :=
  (d / 3) * 10 + (match d mod 3 with 0 => 0 | 1 => 4 | _ => 7 end).

(* big.ParseFloat(text of (-1)^neg c 10^e, 10, prec, ToNearestEven) for e >= 0 and 5^e
   representable in prec+64 bits: one correct rounding of the exact integer.  None elsewhere. *)
Definition parse_int_dec (prec : Z) (d : dec) : option bfl :=
  match d with
  | Dec neg c e =>
      if (0 <=? e) && (bitlen (5 ^ e) <=? prec + 64)
      then Some (BF neg (rne_mag prec (c * 10 ^ e)) 0 prec)
      else None
  | _ => None
  end.
Definition bigdec_prec (d : dec) : Z :=
  match d with Dec _ c _ => digits_to_bits (num_digits c) | _ => 0 end.

(* ------------------------------------------------------------------ *)
(* Events, destinations, results                                       *)

Inductive src :=
| SPos (n : Z)            (* OnPositiveInt(uint64) *)
| SNeg (n : Z)            (* OnNegativeInt(uint64): the value is -n *)
| SInt (z : Z)            (* OnInt(int64) *)
| SBigInt (z : Z)         (* OnBigInt *)
| SFloat (bits : N)       (* OnFloat, 64-bit pattern *)
| SNan (signaling : bool) (* OnNan *)
| SBigFloat (b : bfl)     (* OnBigFloat *)
| SDec (d : dec)          (* OnDecimalFloat *)
| SBigDec (d : dec).      (* OnBigDecimalFloat *)

Inductive dst :=
| TInt (w : iw) | TUint (w : iw) | TFloat (w : fwid)
| TBigInt                 (* big.Int and *big.Int *)
| TBigFloat.              (* big.Float and *big.Float *)

Inductive stored :=
| StInt (z : Z) | StUint (z : Z) | StFloat (f : fdec) | StBigInt (z : Z) | StBigFloat (b : bfl).

(* Failed: the builder panicked (ce.Unmarshal* turns that into an error) *)
Inductive result := Stored (s : stored) | Failed.

(* The Builder method a numeric event ends up in, with its argument *)
Inductive call :=
| CInt (v : Z) | CUint (u : Z) | CBigInt (z : Z) | CFloat (f : fdec)
| CBigFloat (b : bfl) | CDec (d : dec) | CBigDec (d : dec).

(* builder_event_rcv.go.  OnNegativeInt: 0 becomes OnFloat(math.Copysign(0, -1)), the float
   negative zero; 1..2^63-1 become OnInt(-value); above that the magnitude is put into
   a big.Int with SetUint64 and negated. *)
Definition route (s : src) : call :=
  match s with
  | SPos n => CUint n
  | SNeg n => if n =? 0 then CFloat (FFin true 0 (-1074))
              else if n <=? p63 - 1 then CInt (- n)
              else CBigInt (- n)
  | SInt z => CInt z
  | SBigInt z => CBigInt z
  | SFloat b => CFloat (f64_decode b)
  | SNan _ => CFloat FNan
  | SBigFloat b => CBigFloat b
  | SDec d => CDec d
  | SBigDec d => CBigDec d
  end.

Section Conv.
  (* DFloat.BigFloat on finite non-zero values / conversions.BigDecimalFloatToBigFloat on finite values *)
  Variables (ext_df ext_bdf : dec -> option bfl).
  (* Builder.FloatToBigIntMaxBase2Exponent / FloatToBigIntMaxBase10Exponent *)
  Variables (max2 max10 : Z).

  (* ---- intBuilder ---- *)
  Definition int_from_i64 (w : iw) (i : Z) : result :=
    let st := wraps w i in if st =? i then Stored (StInt st) else Failed.
  Definition int_from_opt (w : iw) (o : option Z) : result :=
    match o with Some i => int_from_i64 w i | None => Failed end.
  Definition int_from_uint (w : iw) (u : Z) : result :=
    if p63 - 1 <? u then Failed                                (* UintToInt *)
    else let st := wraps w u in
         if st mod p64 =? u then Stored (StInt st) else Failed. (* uint64(dst.Int()) != value *)
  Definition int_from_float (w : iw) (f : fdec) : result :=
    let st := wraps w (cvt64 f) in
    if f_eq_int f (rne 53 st) then Stored (StInt st) else Failed.

  (* ---- uintBuilder ---- *)
  Definition uint_from_u64 (w : iw) (u : Z) : result :=
    let st := wrapu w u in if st =? u then Stored (StUint st) else Failed.
  Definition uint_from_opt (w : iw) (o : option Z) : result :=
    match o with Some u => uint_from_u64 w u | None => Failed end.
  (* setUintFromDecimalFloat: a negative coefficient of a non-special value is refused *)
  Definition uint_from_dec (w : iw) (d : dec) : result :=
    match d with
    | Dec neg c _ =>
        if negb (dec_special d) && (sgn neg c <? 0) then Failed
        else uint_from_opt w (dfloat_uint d)
    | _ => uint_from_opt w (dfloat_uint d)
    end.
  Definition uint_from_float (w : iw) (f : fdec) : result :=
    let u := go_uint64 f in
    if f_eq_int f (rne 53 u) then uint_from_u64 w u else Failed.
  (* conversions.BigDecimalFloatToUint *)
  Definition bigdec_to_bf (d : dec) : option bfl :=
    match d with Dec _ _ _ => ext_bdf d | _ => None end.   (* "NaN" / "Infinity" do not parse *)
  Definition bigdec_negative_nonzero (d : dec) : bool :=   (* value.Negative && !value.IsZero() *)
    match d with
    | Dec neg c _ => neg && negb (c =? 0)
    | DecInf neg => neg
    | DecNan _ => false        (* a NaN fails below whatever its sign *)
    end.
  Definition bigdec_to_uint (d : dec) : option Z :=
    if bigdec_negative_nonzero d then None else
    match apd_int64 d with
    | Some i => Some (i mod p64)                             (* uint64(i), negative i wraps *)
    | None => match bigdec_to_bf d with
              | Some b => bigfloat_to_uint b
              | None => None
              end
    end.

  (* ---- floatBuilder (integer arguments) ---- *)
  Definition float_from_int (w : fwid) (v : Z) : result :=
    let st := store_float w (v <? 0) (rne_mag 53 (Z.abs v)) in
    if cvt64 st =? v then Stored (StFloat st) else Failed.
  Definition float_from_uint (w : fwid) (u : Z) : result :=
    let st := store_float w false (rne_mag 53 u) in
    if go_uint64 st =? u then Stored (StFloat st) else Failed.
  (* BigIntToFloat: ParseFloat of the decimal text (correctly rounded; range error above the
     largest float64), then the float must convert back to the same integer.  After SetFloat
     the stored value is read back: big.NewFloat(dst.Float()).Int(nil) must be exact (an
     infinity is not) and equal to the big integer. *)
  Definition float_from_bigint (w : fwid) (z : Z) : result :=
    let n := rne_mag 53 (Z.abs z) in
    if 2 ^ 1024 <=? n then Failed
    else if n =? Z.abs z then
      match store_float w (z <? 0) n with
      | FFin s n' _ => if sgn s n' =? z then Stored (StFloat (FFin s n' 0)) else Failed
      | _ => Failed
      end
    else Failed.

  (* ---- bigIntBuilder / pBigIntBuilder ---- *)
  Definition bigint_from_opt (o : option Z) : result :=
    match o with Some z => Stored (StBigInt z) | None => Failed end.
  Definition bigint_from_float (f : fdec) : result :=
    match new_float f with
    | Some b => bigint_from_opt (bigfloat_to_bigint max2 b)
    | None => Failed
    end.

  (* ---- bigFloatBuilder / pBigFloatBuilder ---- *)
  Definition bigfloat_from_opt (o : option bfl) : result :=
    match o with Some b => Stored (StBigFloat b) | None => Failed end.
  (* DFloat.BigFloat *)
  Definition dfloat_to_bf (d : dec) : option bfl :=
    match d with
    | Dec false 0 0 => Some (BF false 0 0 53)     (* dfloatZero: big.NewFloat(0) *)
    | Dec true 0 _ => Some (BF true 0 0 53)       (* negative zero *)
    | Dec _ _ _ => ext_df d
    | DecInf s => Some (BFInf s)
    | DecNan _ => None                            (* big.NewFloat(NaN) panics *)
    end.

  Definition build (c : call) (t : dst) : result :=
    match t, c with
    | TInt w, CInt v => int_from_i64 w v
    | TInt w, CUint u => int_from_uint w u
    | TInt w, CBigInt z => if in_i64 z then int_from_i64 w z else Failed
    | TInt w, CFloat f => int_from_float w f
    | TInt w, CBigFloat b => int_from_opt w (bigfloat_to_int b)
    | TInt w, CDec d => int_from_opt w (dfloat_int d)
    | TInt w, CBigDec d => int_from_opt w (apd_int64 d)

    | TUint w, CInt v => if v <? 0 then Failed else uint_from_u64 w v
    | TUint w, CUint u => uint_from_u64 w u
    | TUint w, CBigInt z => if in_u64 z then uint_from_u64 w z else Failed
    | TUint w, CFloat f => uint_from_float w f
    | TUint w, CBigFloat b => uint_from_opt w (bigfloat_to_uint b)
    | TUint w, CDec d => uint_from_dec w d
    | TUint w, CBigDec d => uint_from_opt w (bigdec_to_uint d)

    | TFloat w, CInt v => float_from_int w v
    | TFloat w, CUint u => float_from_uint w u
    | TFloat w, CBigInt z => float_from_bigint w z
    | TFloat w, CFloat (FFin s 0 _) => Stored (StFloat (FFin s 0 0))  (* setFloatFromFloat on a zero: -0 from OnNegativeInt(0) *)
    | TFloat _, _ => Failed        (* float destination from a non-integer source: outside C19, not modelled *)

    | TBigInt, CInt v => Stored (StBigInt v)
    | TBigInt, CUint u => Stored (StBigInt (uint_to_bigint u))
    | TBigInt, CBigInt z => Stored (StBigInt z)
    | TBigInt, CFloat f => bigint_from_float f
    | TBigInt, CBigFloat b => bigint_from_opt (bigfloat_to_bigint max2 b)
    | TBigInt, CDec d => bigint_from_opt (dfloat_bigint max10 d)
    | TBigInt, CBigDec d => bigint_from_opt (bigdec_to_bigint max10 d)

    | TBigFloat, CInt v => Stored (StBigFloat (BF (v <? 0) (Z.abs v) 0 64))   (* SetInt64 *)
    | TBigFloat, CUint u => Stored (StBigFloat (BF false u 0 64))             (* SetUint64 *)
    | TBigFloat, CBigInt z => Stored (StBigFloat (bf_set_int z))
    | TBigFloat, CFloat f => bigfloat_from_opt (new_float f)
    | TBigFloat, CBigFloat b => Stored (StBigFloat b)
    | TBigFloat, CDec d => bigfloat_from_opt (dfloat_to_bf d)
    | TBigFloat, CBigDec d => bigfloat_from_opt (bigdec_to_bf d)
    end.

  Definition conv (s : src) (t : dst) : result := build (route s) t.
End Conv.

(* ------------------------------------------------------------------ *)
(* Mathematical values                                                 *)

(* n * 2^a * 10^b, an infinity, or no value *)
Inductive mval := MFin (n a b : Z) | MInf (neg : bool) | MNan.

(* equality of the denoted rationals: both sides are scaled by the same positive
   2^-min(a1,a2) * 10^-min(b1,b2), which makes them integers *)
Definition mval_eq (x y : mval) : Prop :=
  match x, y with
  | MFin n1 a1 b1, MFin n2 a2 b2 =>
      n1 * 2 ^ (a1 - Z.min a1 a2) * 10 ^ (b1 - Z.min b1 b2)
      = n2 * 2 ^ (a2 - Z.min a1 a2) * 10 ^ (b2 - Z.min b1 b2)
  | MInf s1, MInf s2 => s1 = s2
  | _, _ => False
  end.

Definition mval_eqb (x y : mval) : bool :=
  match x, y with
  | MFin n1 a1 b1, MFin n2 a2 b2 =>
      n1 * 2 ^ (a1 - Z.min a1 a2) * 10 ^ (b1 - Z.min b1 b2)
      =? n2 * 2 ^ (a2 - Z.min a1 a2) * 10 ^ (b2 - Z.min b1 b2)
  | MInf s1, MInf s2 => Bool.eqb s1 s2
  | _, _ => false
  end.

Definition fdec_val (f : fdec) : mval :=
  match f with FNan => MNan | FInf s => MInf s | FFin s m e => MFin (sgn s m) e 0 end.
Definition bfl_val (b : bfl) : mval :=
  match b with BF s m e _ => MFin (sgn s m) e 0 | BFInf s => MInf s end.
Definition dec_val (d : dec) : mval :=
  match d with Dec s c e => MFin (sgn s c) 0 e | DecInf s => MInf s | DecNan _ => MNan end.

Definition src_val (s : src) : mval :=
  match s with
  | SPos n => MFin n 0 0
  | SNeg n => MFin (- n) 0 0
  | SInt z | SBigInt z => MFin z 0 0
  | SFloat b => fdec_val (f64_decode b)
  | SNan _ => MNan
  | SBigFloat b => bfl_val b
  | SDec d | SBigDec d => dec_val d
  end.

Definition stored_val (s : stored) : mval :=
  match s with
  | StInt z | StUint z | StBigInt z => MFin z 0 0
  | StFloat f => fdec_val f
  | StBigFloat b => bfl_val b
  end.

(* what the argument types of the event methods guarantee *)
Definition wf_bfl (b : bfl) : bool := match b with BF _ m _ _ => 0 <=? m | BFInf _ => true end.
Definition wf_dec (d : dec) : bool := match d with Dec _ c _ => 0 <=? c | _ => true end.
Definition wf_src (s : src) : bool :=
  match s with
  | SPos n | SNeg n => in_u64 n
  | SInt z => in_i64 z
  | SBigInt _ | SFloat _ | SNan _ => true
  | SBigFloat b => wf_bfl b
  | SDec d => wf_dec d && match d with Dec _ c _ => c <=? p63 | _ => true end
  | SBigDec d => wf_dec d
  end.

Definition src_is_integer_form (s : src) : bool :=
  match s with SPos _ | SNeg _ | SInt _ | SBigInt _ => true | _ => false end.

(* The pairs C19 speaks about: every numeric source into an integer, unsigned, big.Int or
   big.Float destination; integer sources into a float destination. *)
Definition in_scope (s : src) (t : dst) : bool :=
  match t with TFloat _ => src_is_integer_form s | _ => true end.

(* ------------------------------------------------------------------ *)
(* Correspondence cases                                                *)

Definition fdec_same (a b : fdec) : bool :=
  match a, b with
  | FNan, FNan => true
  | FInf s1, FInf s2 => Bool.eqb s1 s2
  | FFin s1 m1 e1, FFin s2 m2 e2 => Bool.eqb s1 s2 && mval_eqb (MFin m1 e1 0) (MFin m2 e2 0)
  | _, _ => false
  end.

Definition bfl_same (a b : bfl) : bool :=
  match a, b with
  | BFInf s1, BFInf s2 => Bool.eqb s1 s2
  | BF s1 m1 e1 p1, BF s2 m2 e2 p2 =>
      Bool.eqb s1 s2 && (p1 =? p2) && mval_eqb (MFin m1 e1 0) (MFin m2 e2 0)
  | _, _ => false
  end.

(* what the harness saw the implementation do *)
Inductive observed :=
| OFailed
| OInt (z : Z) | OUint (z : Z) | OF32 (bits : N) | OF64 (bits : N) | OBigInt (z : Z) | OBigFloat (b : bfl).

Definition result_matches (r : result) (o : observed) : bool :=
  match r, o with
  | Failed, OFailed => true
  | Stored (StInt a), OInt b | Stored (StUint a), OUint b | Stored (StBigInt a), OBigInt b => a =? b
  | Stored (StFloat f), OF32 bits => fdec_same f (f32_decode bits)
  | Stored (StFloat f), OF64 bits => fdec_same f (f64_decode bits)
  | Stored (StBigFloat a), OBigFloat b => bfl_same a b
  | _, _ => false
  end.

Definition option_bfl_same (a b : option bfl) : bool :=
  match a, b with Some x, Some y => bfl_same x y | None, None => true | _, _ => false end.

Inductive numconv_case :=
(* one event into one destination; [ext] is what the library's decimal->binary parse returned
   for this source (None if it failed or the source is not a decimal) *)
| ConvCase (max2 max10 : Z) (s : src) (t : dst) (ext : option bfl) (o : observed)
(* the concrete parse instance against the library: big = conversions.BigDecimalFloatToBigFloat,
   otherwise DFloat.BigFloat (precision 63) *)
| ParseCase (big : bool) (d : dec) (o : option bfl)
(* int64(f), uint64(f) as compiled *)
| CvtCase (bits : N) (i u : Z)
(* float64(int64(v)) / float64(uint64(v)) and the same narrowed by float32(...) *)
| RoundCase (v : Z) (f64bits f32bits : N).

Definition numconv_case_ok (c : numconv_case) : bool :=
  match c with
  | ConvCase max2 max10 s t ext o =>
      result_matches (conv (fun _ => ext) (fun _ => ext) max2 max10 s t) o
  | ParseCase big d o =>
      match parse_int_dec (if big then bigdec_prec d else 63) d with
      | Some b => option_bfl_same (Some b) o
      | None => false
      end
  | CvtCase bits i u =>
      (cvt64 (f64_decode bits) =? i) && (go_uint64 (f64_decode bits) =? u)
  | RoundCase v f64bits f32bits =>
      fdec_same (FFin (v <? 0) (rne_mag 53 (Z.abs v)) 0) (f64_decode f64bits)
      && fdec_same (store_float F32 (v <? 0) (rne_mag 53 (Z.abs v))) (f32_decode f32bits)
  end.
