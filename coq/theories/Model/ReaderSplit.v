(* C28 — stream decoding versus the way an io.Reader delivers its bytes.

   Executable model (no proofs here) of
     /repo/cbe/decoder_reader.go   Reader: ReadUint8, ReadTypeOrEOF, readIntoBuffer, Read,
                                   readSmallULEB128, ReadUint, ReadBytes, ReadIdentifier,
                                   ReadDecimalFloat, ReadDate/Time/Timestamp, markBytesRead
     /repo/cbe/decoder.go          Decode, runMainDecodeLoop, decodePlane7f, decodeArrayChunks ...
     go-uleb128 v1.1.0             DecodeWithByteBuffer   (reads the io.Reader itself)
     go-compact-float v1.6.1       DecodeWithByteBuffer   (two ULEB reads)
     go-compact-time v1.8.3        DecodeDate/Time/TimestampWithBuffer, fillSlice, decodeTimezone
     /repo/cte/decoder.go          Decode: io.Copy of the whole input, then the parser
     /repo/ce/decoder.go, api.go   universal entry points: bufio.NewReader + Peek(1)
   written from the code as it is (/repo afaa1e5: after e4074d6 normalising Read, 8884bbf
   buffer growth, 40e3af2 validateTime):
     - every read of the decoder and of the three external field decoders goes
       through Reader.Read, which retries (0, nil) reads, reports an error that
       arrived together with data on the NEXT call (pendingErr), keeps reporting
       it from then on, and accounts the bytes it hands out against
       MaxDocumentSizeBytes;
     - so the callers only ever see (n>0, nil) or (0, io.EOF); the callers'
       own handling (byte count ignored by the one-byte reads, ULEB128 returning
       0 on an empty read, any error fatal in the fill loops) is modelled as it
       is written, it just cannot be reached with an awkward response any more.

   A reader is a SCRIPT: the list of responses it will give.  A response is
   (bytes, eof): the bytes it delivers and whether io.EOF accompanies them.
   ([], false) is the (0, nil) read; ([], true) is (0, io.EOF); after the script
   is exhausted every read answers (0, io.EOF).  A response holding more bytes
   than the caller's buffer is delivered in pieces (the remainder stays at the
   head of the script) — this is exactly what the harness's scriptReader does.

     - readIntoBuffer reads into the buffer it has (127 bytes at first) and
       doubles it when it is full, so the capacity of each Read depends on the
       buffer length, which is part of the state;
     - ReadDate/ReadTime/ReadTimestamp reject a decoded time that fails
       validateTime (Model/CbeTime.v [cbe_validate_time]); time values are the
       [gtime] of Model/CbeTime.v, built with its constructors (area/location
       names interpreted by [tz_at_area]).

   Not modelled: errors other than io.EOF. *)
From CE Require Export Base.Prelude Base.LE Model.Events Gen.RulesConsts Model.CbeTime.
Open Scope N_scope.

(* ------------------------------------------------------------------ *)
(* Scripts                                                              *)
(* ------------------------------------------------------------------ *)

Definition resp := (bytes * bool)%type.
Definition script := list resp.

Fixpoint lenN (l : bytes) : N :=
  match l with [] => 0 | _ :: r => N.succ (lenN r) end.
Fixpoint takeN (n : N) (l : bytes) : bytes :=
  match l with [] => [] | x :: r => if n =? 0 then [] else x :: takeN (N.pred n) r end.
Fixpoint dropN (n : N) (l : bytes) : bytes :=
  match l with [] => [] | x :: r => if n =? 0 then l else dropN (N.pred n) r end.

Definition script_data (sc : script) : bytes := concat (map fst sc).
Definition is_zero_resp (r : resp) : bool :=
  match r with ([], false) => true | _ => false end.
Definition script_zeros (sc : script) : nat := length (filter is_zero_resp sc).

(* One Read(p) with len(p) = cap >= 1 on a script reader. *)
Definition rd_script (cap : N) (sc : script) : bytes * bool * script :=
  match sc with
  | [] => ([], true, [])
  | (bs, e) :: rest =>
      if lenN bs <=? cap then (bs, e, rest)
      else (takeN cap bs, false, (dropN cap bs, e) :: rest)
  end.

(* A source is a script read directly, or a script behind bufio.Reader
   (buffer size 4096): [buf] = bytes buffered and not yet handed out,
   [pend] = an io.EOF remembered in b.err. *)
Inductive src :=
| Direct (sc : script)
| Buffered (buf : bytes) (pend : bool) (sc : script).

Definition bufio_size : N := 4096.

(* bufio.Reader.Read (go1.23): hand out buffered bytes; else report a pending
   error; else a large request goes straight to the underlying reader; else
   ONE underlying read into the internal buffer (a zero-length result is
   passed on as it is). *)
Definition rd (cap : N) (s : src) : bytes * bool * src :=
  match s with
  | Direct sc => let '(bs, e, sc') := rd_script cap sc in (bs, e, Direct sc')
  | Buffered buf pend sc =>
      match buf with
      | _ :: _ => (takeN cap buf, false, Buffered (dropN cap buf) pend sc)
      | [] =>
          if pend then ([], true, Buffered [] false sc)
          else if bufio_size <=? cap then
            let '(bs, e, sc') := rd_script cap sc in (bs, e, Buffered [] false sc')
          else
            let '(bs, e, sc') := rd_script bufio_size sc in
            match bs with
            | [] => ([], e, Buffered [] false sc')
            | _ :: _ => (takeN cap bs, false, Buffered (dropN cap bs) e sc')
            end
      end
  end.

Definition src_data (s : src) : bytes :=
  match s with Direct sc => script_data sc | Buffered buf _ sc => buf ++ script_data sc end.
Definition src_zeros (s : src) : nat :=
  match s with Direct sc => script_zeros sc | Buffered _ _ sc => script_zeros sc end.
(* Enough steps for any loop over the source: every iteration of every loop
   below consumes a data byte or a (0, nil) response, or ends the loop. *)
Definition src_fuel (s : src) : nat := (length (src_data s) + src_zeros s + 2)%nat.

(* bytes.Buffer / bytes.NewBuffer(document): the in-memory reader. *)
Definition mem_script (d : bytes) : script := match d with [] => [] | _ => [(d, false)] end.

(* ------------------------------------------------------------------ *)
(* What the decoder delivers                                            *)
(* ------------------------------------------------------------------ *)

(* a time is the [gtime] of Model/CbeTime.v (compact_time.Time field by field) *)
Inductive rtok := REv (e : event) | RTime (t : gtime).

Inductive status := SOk | SErr | SHang.
Definition result := (list rtok * status)%type.

(* ------------------------------------------------------------------ *)
(* Reader state and the monad of the decoder                            *)
(* ------------------------------------------------------------------ *)

Record rstate := mkst {
  s_src : src;
  s_pend : bool;              (* Reader.pendingErr != nil (only io.EOF is modelled) *)
  s_b0 : byte;                (* Reader.buffer[0] *)
  s_blen : N;                 (* len(Reader.buffer) *)
  s_cnt : N;                  (* Reader.bytesRead *)
  s_out : list rtok }.        (* events delivered so far, newest first *)

Inductive res (A : Type) :=
| Ret (a : A) (s : rstate)
| Fail (s : rstate)           (* a panic recovered by Decode *)
| Stuck.                      (* out of fuel: never happens (ReaderSplitProofs.decode_never_hangs) *)
Arguments Ret {A} a s.
Arguments Fail {A} s.
Arguments Stuck {A}.

Definition M (A : Type) := rstate -> res A.

Definition ret {A} (a : A) : M A := fun s => Ret a s.
Definition bind {A B} (m : M A) (f : A -> M B) : M B :=
  fun s => match m s with Ret a s' => f a s' | Fail s' => Fail s' | Stuck => Stuck end.
Definition fail {A} : M A := fun s => Fail s.
Definition stuck {A} : M A := fun _ => Stuck.

Declare Scope rs_scope.
Delimit Scope rs_scope with rs.
Notation "x <- m ;; k" := (bind m (fun x => k))
  (at level 61, m at next level, right associativity) : rs_scope.
Notation "m ;;; k" := (bind m (fun _ => k))
  (at level 61, right associativity) : rs_scope.
Open Scope rs_scope.

Definition emit (t : rtok) : M unit :=
  fun s => Ret tt (mkst (s_src s) (s_pend s) (s_b0 s) (s_blen s) (s_cnt s) (t :: s_out s)).
Definition ev (e : event) : M unit := emit (REv e).
Definition get_b0 : M byte := fun s => Ret (s_b0 s) s.
Definition two64 : N := 18446744073709551616.
(* decoderStartBufferSize *)
Definition start_buffer : N := 127.

(* Enough steps for every loop of the decoder: each iteration consumes at
   least one data byte or ends the loop (Reader.Read never returns (0, nil)). *)
Definition dec_fuel (s : src) : nat := (length (src_data s) + 2)%nat.
Definition get_fuel : M nat := fun s => Ret (dec_fuel (s_src s)) s.
Definition set_b0 (x : byte) : M unit :=
  fun s => Ret tt (mkst (s_src s) (s_pend s) x (s_blen s) (s_cnt s) (s_out s)).
Definition get_blen : M N := fun s => Ret (s_blen s) s.
Definition set_blen (n : N) : M unit :=
  fun s => Ret tt (mkst (s_src s) (s_pend s) (s_b0 s) n (s_cnt s) (s_out s)).

(* The retry loop of Reader.Read: read until data or an error arrives. *)
Fixpoint skip_zeros (fuel : nat) (cap : N) (s : src) : option (bytes * bool * src) :=
  match fuel with
  | O => None
  | S f =>
      let '(bs, e, s') := rd cap s in
      match bs with
      | _ :: _ => Some (bs, e, s')
      | [] => if e then Some ([], true, s') else skip_zeros f cap s'
      end
  end.

Section Decoder.
  (* configuration.Rules.MaxDocumentSizeBytes *)
  Variable maxdoc : N.

  (* Reader.Read(p) with len(p) = cap >= 1.  Result: (bytes, io.EOF returned);
     bytes <> [] implies no error.  bytesRead cannot wrap: it never exceeds
     the number of bytes delivered. *)
  Definition nrd (cap : N) : M (bytes * bool) :=
    fun s =>
      if s_pend s then Ret ([], true) s
      else match skip_zeros (S (src_zeros (s_src s))) cap (s_src s) with
           | None => Stuck
           | Some ([], _, src') => Ret ([], true) (mkst src' true (s_b0 s) (s_blen s) (s_cnt s) (s_out s))
           | Some (bs, e, src') =>
               let c := s_cnt s + lenN bs in
               if maxdoc <? c then Fail (mkst src' e (s_b0 s) (s_blen s) c (s_out s))
               else Ret (bs, false) (mkst src' e (s_b0 s) (s_blen s) c (s_out s))
           end.

  (* One Read(buffer[:1]).  Returns (a byte arrived, io.EOF was returned).
     buffer[0] changes only when a byte arrived. *)
  Definition rd1 : M (bool * bool) :=
    r <- nrd 1 ;;
    match fst r with
    | x :: _ => set_b0 x ;;; ret (true, snd r)
    | [] => ret (false, snd r)
    end.

  (* Reader.ReadUint8: byte count ignored, any error fatal. *)
  Definition read_u8 : M byte :=
    r <- rd1 ;; if snd r then fail else get_b0.

  (* Reader.ReadTypeOrEOF: io.EOF ends the document. *)
  Definition read_type_or_eof : M (option byte) :=
    r <- rd1 ;; if snd r then ret None else b <- get_b0 ;; ret (Some b).

  (* compact_time.fillSlice:
       for len(dst) > 0 { n, err := Read(dst); if err != nil { fail }; dst = dst[n:] }
     [at0] tells whether dst starts at buffer[0] (then buffer[0] is overwritten). *)
  Fixpoint fill_loop (fuel : nat) (need : N) : M bytes :=
    match fuel with
    | O => stuck
    | S f =>
        r <- nrd need ;;
        if snd r then fail
        else if need <=? lenN (fst r) then ret (fst r)
        else more <- fill_loop f (need - lenN (fst r)) ;; ret (fst r ++ more)
    end.

  Definition fill (at0 : bool) (need : N) : M bytes :=
    if need =? 0 then ret []
    else fuel <- get_fuel ;;
         bs <- fill_loop fuel need ;;
         (if at0 then match bs with x :: _ => set_b0 x | [] => ret tt end else ret tt) ;;;
         ret bs.

  (* Reader.growBuffer(filled, wanted): the new length *)
  Definition grow_buffer (blen wanted : N) : N := N.min (N.max (2 * blen) start_buffer) (2 * wanted).

  (* Reader.readIntoBuffer(count):
       for filled < count {
         if filled == len(buffer) { grow }
         n, err := Read(buffer[filled:min(len(buffer), count)]); if err != nil { fail }; filled += n }
     Result: the bytes and the buffer length at the end. *)
  Fixpoint rib_loop (fuel : nat) (count filled blen : N) (acc : bytes) : M (bytes * N) :=
    match fuel with
    | O => stuck
    | S f =>
        if count <=? filled then ret (acc, blen)
        else
          let blen' := if filled =? blen then grow_buffer blen count else blen in
          r <- nrd (N.min blen' count - filled) ;;
          if snd r then fail
          else rib_loop f count (filled + lenN (fst r)) blen' (acc ++ fst r)
    end.

  (* Reader.ReadBytes / readIntoBuffer *)
  Definition read_bytes (n : N) : M bytes :=
    if n =? 0 then ret []
    else fuel <- get_fuel ;;
         blen <- get_blen ;;
         r <- rib_loop fuel n 0 blen [] ;;
         set_blen (snd r) ;;;
         (match fst r with x :: _ => set_b0 x | [] => ret tt end) ;;;
         ret (fst r).

  (* uleb128.DecodeWithByteBuffer(reader, buffer) with buffer[:1] = Reader.buffer[:1].
     Result: value, number of bytes counted, and whether asBigInt is non-nil
     (19 groups or more always produce a big.Int, see the word bookkeeping). *)
  Record ulebv := mkU { u_val : N; u_k : N }.
  Definition u_big (u : ulebv) : bool := (19 <=? u_k u) || (two64 <=? u_val u).

  Fixpoint uleb_loop (fuel : nat) (acc shift k : N) : M ulebv :=
    match fuel with
    | O => stuck
    | S f =>
        r <- rd1 ;;
        if negb (fst r) then
          (* bytesRead == 0: return with the named results still zero and
             err = whatever Read returned *)
          if snd r then fail else ret (mkU 0 k)
        else
          b <- get_b0 ;;
          let acc' := acc + N.shiftl (N.land b 127) shift in
          if N.testbit b 7 then uleb_loop f acc' (shift + 7) (k + 1)
          else if snd r then fail     (* value complete but err = io.EOF is returned with it *)
          else ret (mkU acc' (k + 1))
    end.

  Definition uleb : M ulebv :=
    r <- rd1 ;;
    if snd r then fail
    else b <- get_b0 ;;
         if b <? 128 then ret (mkU b 1)
         else fuel <- get_fuel ;; uleb_loop fuel (N.land b 127) 7 1.

  (* Reader.readSmallULEB128 *)
  Definition small_uleb (maxv : N) : M N :=
    u <- uleb ;;
    if u_big u then fail else if maxv <? u_val u then fail else ret (u_val u).

  Definition read_identifier : M bytes :=
    n <- small_uleb 100000 ;; if n =? 0 then fail else read_bytes n.

  (* Reader.ReadUint: (small, big) *)
  Definition read_uint : M (N * bool) :=
    n <- small_uleb 1024 ;; bs <- read_bytes n ;; ret (le_decode bs, 8 <? n).

  (* ---- binary floats (decoder.go cbeTypeFloat16/32, common.Float32FromFloat16Bits) ---- *)
  Definition f64_snan : N := 0x7ff4000000000000.
  Definition f32_to_f64 (w : N) : N :=
    let s := N.shiftr w 31 in
    let e := N.land (N.shiftr w 23) 255 in
    let m := N.land w 0x7fffff in
    let sign := N.shiftl s 63 in
    if e =? 255 then
      if m =? 0 then sign + N.shiftl 2047 52
      else if N.testbit w 22 then sign + N.shiftl 2047 52 + N.shiftl m 29
      else f64_snan
    else if e =? 0 then
      if m =? 0 then sign
      else let l := N.log2 m in
           sign + N.shiftl (l + 874) 52 + N.shiftl (m - N.shiftl 1 l) (52 - l)
    else sign + N.shiftl (e + 896) 52 + N.shiftl m 29.
  Definition f16_to_f32 (h : N) : N :=
    if (N.land h 0x7f80 =? 0x7f80) && negb (N.land h 0x7f =? 0) then
      if N.land h 0x40 =? 0 then 0x7fa00000 else 0x7fe00000
    else N.shiftl h 16.

  (* ---- compact_float.DecodeWithByteBuffer ---- *)
  Definition zneg (neg : bool) (v : N) : Z := if neg then (- Z.of_N v)%Z else Z.of_N v.

  Definition read_decimal : M unit :=
    u <- uleb ;;
    if u_big u then fail
    else
      let v := u_val u in
      if (u_k u =? 1) && (v =? 2) then ev (EDecimal (DFin false 0 0))
      else if (u_k u =? 1) && (v =? 3) then ev (EDecimal (DFin true 0 0))
      else if (u_k u =? 2) && (v =? 0) then ev (EDecimal DQNan)
      else if (u_k u =? 2) && (v =? 1) then ev (EDecimal DSNan)
      else if (u_k u =? 2) && (v =? 2) then ev (EDecimal (DInf false))
      else if (u_k u =? 2) && (v =? 3) then ev (EDecimal (DInf true))
      else if 0x1ffffffff <? v then fail
      else
        let neg := N.testbit v 0 in
        let exponent := zneg (N.testbit v 1) (N.shiftr v 2) in
        c <- uleb ;;
        if u_big c || (N.shiftl 1 63 <=? u_val c)
        then ev (EBigDecimal (Some (DFin neg (u_val c) exponent)))
        else ev (EDecimal (DFin (neg && negb (u_val c =? 0)) (u_val c) exponent)).

  (* ---- compact_time (field extraction here, values and validation from Model/CbeTime.v) ---- *)
  Definition bits (v : N) (lo width : N) : N := N.land (N.shiftr v lo) (N.ones width).
  Definition sext (width v : N) : Z :=
    if N.testbit v (width - 1) then (Z.of_N v - Z.of_N (N.shiftl 1 width))%Z else Z.of_N v.
  (* (asUint << low) | accumulator with the "Year is too big" tests, then decodeYear *)
  Definition year_of (u : ulebv) (low acc : N) : option Z :=
    let enc := N.lor (N.shiftl (u_val u) low mod two64) acc in
    if u_big u then None
    else if (0xffffffff <? enc) || (64 <? u_k u * 7 + low) then None
    else Some (decode_year enc).

  Definition sel4 (m a b c d : N) : N :=
    if m =? 0 then a else if m =? 1 then b else if m =? 2 then c else d.

  (* Reader.validateTime, then the event *)
  Definition deliver_time (t : gtime) : M unit :=
    if cbe_validate_time t then emit (RTime t) else fail.

  Definition read_timezone : M gzone :=
    r <- rd1 ;;
    if snd r then fail
    else
      h <- get_b0 ;;
      if N.testbit h 0 then
        rest <- fill false 3 ;;
        let v := le_decode (h :: rest) in
        ret (tz_at_latlong (sext 15 (bits v 1 15)) (sext 16 (bits v 16 16)))
      else
        let len := N.shiftr h 1 in
        if len =? 0 then
          bs <- fill true 2 ;;
          let raw := le_decode bs in
          let minutes := if N.testbit raw 11 then sext 16 (N.lor raw 0xf000) else Z.of_N (N.land raw 0xfff) in
          ret (tz_with_minutes minutes)
        else
          bs <- fill true len ;;
          ret (if bytes_eqb bs [76] then tz_local else if bytes_eqb bs [90] then tz_utc else tz_at_area bs).

  Definition read_date : M unit :=
    bs <- fill true 2 ;;
    let acc := le_decode bs in
    let day := bits acc 0 5 in
    let month := bits acc 5 4 in
    u <- uleb ;;
    match year_of u 7 (N.shiftr acc 9) with
    | None => fail
    | Some year =>
        if (year =? 2000)%Z && (month =? 0) && (day =? 0)
        then deliver_time (zero_time KDate)
        else deliver_time (new_date year month day)
    end.

  Definition read_time : M unit :=
    r <- rd1 ;;
    if snd r then fail
    else
      h <- get_b0 ;;
      let mag := bits h 1 2 in
      let base := sel4 mag 3 4 5 7 in
      rest <- fill false (base - 1) ;;
      let acc := le_decode (h :: rest) in
      let sub := 10 * mag in
      let ns := bits acc 3 sub * sel4 mag 1 1000000 1000 1 in
      let sec := bits acc (3 + sub) 6 in
      let mi := bits acc (9 + sub) 6 in
      let hr := bits acc (15 + sub) 5 in
      let resv := N.shiftr acc (20 + sub) in
      if negb (resv =? sel4 mag 0xf 3 0 0x3f) then
        if resv =? 0 then deliver_time (zero_time KTime) else fail
      else if negb (N.testbit acc 0) then deliver_time (new_time hr mi sec ns tz_utc)
      else tz <- read_timezone ;; deliver_time (new_time hr mi sec ns tz).

  Definition read_timestamp : M unit :=
    r <- rd1 ;;
    if snd r then fail
    else
      h <- get_b0 ;;
      let mag := bits h 1 2 in
      let base := sel4 mag 4 5 7 8 in
      rest <- fill false (base - 1) ;;
      let acc := le_decode (h :: rest) in
      let sub := 10 * mag in
      let ns := bits acc 3 sub * sel4 mag 1 1000000 1000 1 in
      let sec := bits acc (3 + sub) 6 in
      let mi := bits acc (9 + sub) 6 in
      let hr := bits acc (15 + sub) 5 in
      let day := bits acc (20 + sub) 5 in
      let month := bits acc (25 + sub) 4 in
      u <- uleb ;;
      match year_of u (sel4 mag 3 1 7 5) (N.shiftr acc (29 + sub)) with
      | None => fail
      | Some year =>
          if negb (N.testbit acc 0) then
            if (year =? 2000)%Z && (month =? 0) && (day =? 0)
            then deliver_time (zero_time KTimestamp)
            else deliver_time (new_timestamp year month day hr mi sec ns tz_utc)
          else tz <- read_timezone ;; deliver_time (new_timestamp year month day hr mi sec ns tz)
      end.

  (* ---- arrays ---- *)
  (* common.ElementCountToByteCount (uint64 arithmetic) *)
  Definition elem_bytes (width count : N) : N :=
    ((count * width) mod two64) / 8 + (if (width =? 1) && negb (N.land count 7 =? 0) then 1 else 0).

  Fixpoint chunks (fuel : nat) (width : N) : M unit :=
    match fuel with
    | O => stuck
    | S f =>
        hdr <- small_uleb (two64 - 1) ;;
        let count := N.shiftr hdr 1 in
        let more := N.testbit hdr 0 in
        if N.shiftl 1 63 <=? count then fail            (* validateLength *)
        else
          ev (EArrayChunk count more) ;;;
          (let n := elem_bytes width count in
           if 0 <? n then bs <- read_bytes n ;; ev (EArrayData bs) else ret tt) ;;;
          if more then chunks f width else ret tt
    end.

  Definition elem_bits (t : N) : N := nth (N.to_nat t) array_elem_bits 0.

  Definition decode_array (fuel : nat) (t : N) : M unit :=
    ev (EArrayBegin t) ;;; chunks fuel (elem_bits t).

  Definition decode_media (fuel : nat) : M unit :=
    n <- small_uleb 0xffffffff ;; mt <- read_bytes n ;; ev (EMediaBegin mt) ;;; chunks fuel 8.

  Definition decode_custom (fuel : nat) : M unit :=
    ct <- small_uleb 0xffffffff ;; ev (ECustomBegin AT_CustomBinary ct) ;;; chunks fuel 8.

  (* decodePlane7f *)
  Definition short_array (t : N) (elsize : N) (count : N) : M unit :=
    bs <- read_bytes (count * elsize) ;; ev (EArray t count bs).

  Definition plane7f_array_type (c : N) : N :=
    if c =? 0xe0 then AT_UID else if c =? 0xe1 then AT_Int8
    else if c =? 0xe2 then AT_Uint16 else if c =? 0xe3 then AT_Int16
    else if c =? 0xe4 then AT_Uint32 else if c =? 0xe5 then AT_Int32
    else if c =? 0xe6 then AT_Uint64 else if c =? 0xe7 then AT_Int64
    else if c =? 0xe8 then AT_Float16 else if c =? 0xe9 then AT_Float32
    else if c =? 0xea then AT_Float64 else AT_Invalid.

  Definition decode_plane7f (fuel : nat) : M unit :=
    c <- read_u8 ;;
    let count := N.land c 15 in
    let hi := N.land c 0xf0 in
    if hi =? 0x10 then short_array AT_Int8 1 count
    else if hi =? 0x20 then short_array AT_Uint16 2 count
    else if hi =? 0x30 then short_array AT_Int16 2 count
    else if hi =? 0x40 then short_array AT_Uint32 4 count
    else if hi =? 0x50 then short_array AT_Int32 4 count
    else if hi =? 0x60 then short_array AT_Uint64 8 count
    else if hi =? 0x70 then short_array AT_Int64 8 count
    else if hi =? 0x80 then short_array AT_Float16 2 count
    else if hi =? 0x90 then short_array AT_Float32 4 count
    else if hi =? 0xa0 then short_array AT_Float64 8 count
    else if hi =? 0x00 then short_array AT_UID 16 count
    else if c =? 0xf0 then id <- read_identifier ;; ev (EMarker id)
    else if c =? 0xf1 then id <- read_identifier ;; ev (ERecordType id)
    else if c =? 0xf2 then decode_array fuel AT_ReferenceRemote
    else if c =? 0xf3 then decode_media fuel
    else let t := plane7f_array_type c in
         if t =? AT_Invalid then fail else decode_array fuel t.

  Definition int_event (neg : bool) (v : N * bool) : M unit :=
    let '(n, big) := v in
    if big then ev (EBigInt (Some (zneg neg n)))
    else ev (if neg then ENegInt n else EPosInt n).

  (* One iteration of runMainDecodeLoop for type byte [t]. *)
  Definition decode_token (fuel : nat) (t : N) : M unit :=
    if t =? 0x76 then read_decimal
    else if t =? 0x66 then v <- read_uint ;; int_event false v
    else if t =? 0x67 then v <- read_uint ;; int_event true v
    else if t =? 0x68 then b <- read_u8 ;; ev (EPosInt b)
    else if t =? 0x69 then b <- read_u8 ;; ev (ENegInt b)
    else if t =? 0x6a then bs <- read_bytes 2 ;; ev (EPosInt (le_decode bs))
    else if t =? 0x6b then bs <- read_bytes 2 ;; ev (ENegInt (le_decode bs))
    else if t =? 0x6c then bs <- read_bytes 4 ;; ev (EPosInt (le_decode bs))
    else if t =? 0x6d then bs <- read_bytes 4 ;; ev (ENegInt (le_decode bs))
    else if t =? 0x6e then bs <- read_bytes 8 ;; ev (EPosInt (le_decode bs))
    else if t =? 0x6f then bs <- read_bytes 8 ;; ev (ENegInt (le_decode bs))
    else if t =? 0x70 then bs <- read_bytes 2 ;; ev (EFloat (f32_to_f64 (f16_to_f32 (le_decode bs))))
    else if t =? 0x71 then bs <- read_bytes 4 ;; ev (EFloat (f32_to_f64 (le_decode bs)))
    else if t =? 0x72 then bs <- read_bytes 8 ;; ev (EFloat (le_decode bs))
    else if t =? 0x65 then bs <- read_bytes 16 ;; ev (EUid bs)
    else if t =? 0x99 then ev EMap
    else if t =? 0x9a then ev EList
    else if t =? 0x96 then id <- read_identifier ;; ev (ERecord id)
    else if t =? 0x97 then ev EEdge
    else if t =? 0x98 then ev ENode
    else if t =? 0x9b then ev EEnd
    else if t =? 0x78 then ev EFalse
    else if t =? 0x79 then ev ETrue
    else if t =? 0x7d then ev ENull
    else if t =? 0x95 then ev EPadding
    else if t =? 0x80 then ev (EArray AT_String 0 [])
    else if (0x81 <=? t) && (t <=? 0x8f) then
      bs <- read_bytes (t - 0x80) ;; ev (EArray AT_String (t - 0x80) bs)
    else if t =? 0x90 then decode_array fuel AT_String
    else if t =? 0x91 then decode_array fuel AT_ResourceID
    else if t =? 0x92 then decode_custom fuel
    else if t =? 0x7f then decode_plane7f fuel
    else if t =? 0x94 then decode_array fuel AT_Bit
    else if t =? 0x93 then decode_array fuel AT_Uint8
    else if t =? 0x77 then id <- read_identifier ;; ev (ERefLocal id)
    else if t =? 0x7a then read_date
    else if t =? 0x7b then read_time
    else if t =? 0x7c then read_timestamp
    else if t <=? 100 then ev (EInt (Z.of_N t))
    else if 156 <=? t then ev (EInt (Z.of_N t - 256))
    else fail.

  Fixpoint main_loop (fuel : nat) : M unit :=
    match fuel with
    | O => stuck
    | S f =>
        t <- read_type_or_eof ;;
        match t with
        | None => ev EEndDoc
        | Some t => decode_token f t ;;; main_loop f
        end
    end.

  (* cbe.Decoder.Decode *)
  Definition decode_doc (fuel : nat) : M unit :=
    ev EBeginDoc ;;;
    h <- read_u8 ;;
    if negb (h =? 0x81) then fail
    else v <- small_uleb (two64 - 1) ;;
         ev (EVersion (if v =? 1 then 0 else v)) ;;;
         main_loop fuel.

  Definition finish (r : res unit) : result :=
    match r with
    | Ret _ s => (rev (s_out s), SOk)
    | Fail s => (rev (s_out s), SErr)
    | Stuck => ([], SHang)
    end.

  (* A fresh decoder (buffer zeroed, nothing read) on source [s]. *)
  Definition cbe_decode_src (s : src) : result :=
    finish (decode_doc (dec_fuel s) (mkst s false 0 start_buffer 0 [])).

  (* NewCBEDecoder().Decode(reader) / UnmarshalCBE(reader) on a scripted reader *)
  Definition decode_stream (sc : script) : result := cbe_decode_src (Direct sc).
  (* DecodeDocument(d) / UnmarshalFromCBEDocument(d): bytes.NewBuffer(d) *)
  Definition decode_mem (d : bytes) : result := decode_stream (mem_script d).
End Decoder.

(* ------------------------------------------------------------------ *)
(* Universal entry points: bufio.NewReader(reader).Peek(1), dispatch    *)
(* ------------------------------------------------------------------ *)

(* Peek(1) -> fill(): up to 100 reads until one delivers data or an error. *)
Fixpoint peek_fill (tries : nat) (sc : script) : option (bytes * bool * script) :=
  match tries with
  | O => None                                   (* io.ErrNoProgress *)
  | S k =>
      let '(bs, e, sc') := rd_script bufio_size sc in
      if e then Some (bs, true, sc')
      else match bs with [] => peek_fill k sc' | _ => Some (bs, false, sc') end
  end.

(* Source state after a successful Peek(1), or None when Peek reports an error. *)
Definition peek_init (sc : script) : option src :=
  match peek_fill 100 sc with
  | Some (x :: bs, e, sc') => Some (Buffered (x :: bs) e sc')
  | _ => None
  end.

(* io.Copy(strings.Builder, reader): generic loop with a 32 KiB buffer. *)
Definition copy_cap : N := 32768.
Fixpoint copy_loop (fuel : nat) (s : src) : option bytes :=
  match fuel with
  | O => None
  | S f =>
      let '(bs, e, s') := rd copy_cap s in
      if e then Some bs
      else match copy_loop f s' with Some more => Some (bs ++ more) | None => None end
  end.
Definition copy_all (s : src) : option bytes := copy_loop (src_fuel s) s.

Section Entry.
  Context {R : Type}.
  Variable maxdoc : N.
  (* cte.ParseDocument (with the size test) on the complete text: not modelled *)
  Variable cte_parse : bytes -> outcome R.
  (* what is built from the CBE decoder's events (rules + builder): not modelled *)
  Variable cbe_build : result -> outcome R.

  Definition cte_src (s : src) : outcome R :=
    match copy_all s with Some d => cte_parse d | None => Hang end.
  (* NewCTEDecoder().Decode / UnmarshalCTE *)
  Definition cte_stream (sc : script) : outcome R := cte_src (Direct sc).
  (* DecodeDocument / UnmarshalFromCTEDocument *)
  Definition cte_mem (d : bytes) : outcome R := cte_parse d.

  Definition cbe_stream (sc : script) : outcome R := cbe_build (decode_stream maxdoc sc).
  Definition cbe_mem (d : bytes) : outcome R := cbe_build (decode_mem maxdoc d).

  (* UniversalDecoder.Decode / UnmarshalCE *)
  Definition ce_stream (sc : script) : outcome R :=
    match peek_init sc with
    | None => Err
    | Some s =>
        match src_data s with
        | b :: _ =>
            if (b =? 99) || (b =? 67) then cte_src s
            else if b =? 129 then cbe_build (cbe_decode_src maxdoc s)
            else Err
        | [] => Err
        end
    end.
  (* UnmarshalFromCEDocument (DecodeDocument panics on an empty document, see C27) *)
  Definition ce_mem (d : bytes) : outcome R :=
    match d with
    | b :: _ =>
        if (b =? 99) || (b =? 67) then cte_mem d
        else if b =? 129 then cbe_mem d
        else Err
    | [] => Err
    end.
End Entry.

(* ------------------------------------------------------------------ *)
(* Which scripts are readers                                            *)
(* ------------------------------------------------------------------ *)

(* io.EOF appears at most once, on the last response. *)
Fixpoint eof_last (sc : script) : bool :=
  match sc with
  | [] => true
  | [(_, _)] => true
  | (_, e) :: rest => negb e && eof_last rest
  end.
Definition script_wf (sc : script) : bool :=
  eof_last sc && forallb (fun r => forallb (fun x => x <? 256) (fst r)) sc.

(* [sc] is a reader that delivers document [d]. *)
Definition delivers (sc : script) (d : bytes) : Prop := script_wf sc = true /\ script_data sc = d.

Definition has_zero_read (sc : script) : bool := existsb is_zero_resp sc.
Definition has_data_eof (sc : script) : bool :=
  existsb (fun r => match r with (_ :: _, true) => true | _ => false end) sc.

(* ------------------------------------------------------------------ *)
(* Correspondence cases                                                 *)
(* ------------------------------------------------------------------ *)

Definition rtok_eqb (model impl : rtok) : bool :=
  match model, impl with
  | REv a, REv b => event_eqb a b
  | RTime a, RTime b => gtime_eqb a b
  | _, _ => false
  end.

Definition status_eqb (a b : status) : bool :=
  match a, b with SOk, SOk | SErr, SErr | SHang, SHang => true | _, _ => false end.

Definition result_eqb (model impl : result) : bool :=
  list_eqb rtok_eqb (fst model) (fst impl) && status_eqb (snd model) (snd impl).

Inductive readersplit_case :=
(* NewCBEDecoder().Decode(scriptReader(sc)) with MaxDocumentSizeBytes = maxdoc
   delivered [evs] and returned an error iff [err] *)
| CbeStream (maxdoc : N) (sc : script) (evs : list rtok) (err : bool)
(* same through NewCEDecoder() (bufio.Reader and Peek(1) in front) *)
| CeStream (maxdoc : N) (sc : script) (evs : list rtok) (err : bool)
(* NewCTEDecoder().Decode(scriptReader(sc)): [got] = the bytes the scripted
   reader had handed out when Decode returned (what io.Copy collected) *)
| CteCopy (sc : script) (got : bytes).

Definition st_of (err : bool) : status := if err then SErr else SOk.

Definition readersplit_case_ok (c : readersplit_case) : bool :=
  match c with
  | CbeStream maxdoc sc evs err => result_eqb (decode_stream maxdoc sc) (evs, st_of err)
  | CeStream maxdoc sc evs err =>
      match peek_init sc with
      | None => match evs with [] => err | _ => false end
      | Some s =>
          match src_data s with
          | 129 :: _ => result_eqb (cbe_decode_src maxdoc s) (evs, st_of err)
          | _ => false
          end
      end
  | CteCopy sc got =>
      match copy_all (Direct sc) with Some d => bytes_eqb d got | None => false end
  end.
