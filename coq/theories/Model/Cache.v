(* The type caches of the iterator and builder sessions and their use from many
   goroutines.

     iterator/session.go  Session.GetIteratorForType
     builder/session.go   Session.GetBuilderGeneratorForType

   Both functions are the same protocol over a sync.Map (shown for the iterator):

       storedIterator, ok := m.Load(t)                       PLoad
       if ok { return storedIterator }
       var wg sync.WaitGroup; var iterator IteratorFunction   (allocation, at the end of PLoad)
       wg.Add(1)                                              PAdd
       stored, loaded := m.LoadOrStore(t, func(ctx, v) {      PLoS
               wg.Wait()                                         (WCall (FPh p) v : Wait)
               iterator(ctx, v)                                  (WRead p v       : plain read)
       })
       if loaded { return stored }
       completed := false
       defer func() { if !completed {                         (a panic during generation, here or in a
               err := recover()                                  nested request, arrives here)
               m.Delete(t)                                    PDel
               iterator = func(..) { panic(err) }             PWErr (plain write of [iterator])
               wg.Done()                                      PDErr
               panic(err) } }()                                  (the enclosing request cleans up next)
       iterator = getDefaultIteratorForType(t)                PGen (asks the cache for the element
                                                                    types, recursively; panics on
                                                                    unsupported kinds), then
                                                              PWrite (plain write of [iterator])
       completed = true
       wg.Done()                                              PDone
       m.Store(t, iterator)                                   PStore (plain read by the writer itself)
       return iterator

   [iterator] (resp. [builderGenerator]) is an ordinary captured variable: the
   only memory in the protocol that is not accessed through sync.Map or
   sync.WaitGroup operations.

   The model is a small-step interleaving semantics: a state holds the shared
   map, the placeholder cells (WaitGroup counter + the plain variable), the
   heap of generated functions and the threads; [step tt s i] performs the next
   atomic action of thread [i] (or [None] if it has none or is blocked in
   [Wait]); a schedule is a list of thread numbers.  Every thread runs a list
   of jobs; a job (t, v) is "ask the cache for the function of type t and call
   it on the value v" - what Marshal / Unmarshal do through their session.

   Executable definitions only. *)
From CE Require Export Base.Prelude.
Open Scope N_scope.

(* ------------------------------------------------------------------------- *)
(* Types, functions, values *)

Definition ty := N.

(* What generating the function for a type does (getDefaultIteratorForType /
   defaultBuilderGeneratorForType): nothing else (scalars, typed arrays, the
   special struct types), a panic (chan, func, complex, uintptr, unsafe
   pointer), or asking the cache for the listed types in order (pointer: the
   element; slice, array: the element; map: key and element; struct: the
   fields). *)
Inductive tdesc := TLeaf | TBad | TNode (kids : list ty).
Definition ttable := list (ty * tdesc).

Fixpoint desc (tt : ttable) (t : ty) : tdesc :=
  match tt with
  | [] => TLeaf
  | (t', d) :: r => if t' =? t then d else desc r t
  end.

Definition kidtypes (tt : ttable) (t : ty) : list ty :=
  match desc tt t with TNode ks => ks | _ => [] end.
Definition is_bad (tt : ttable) (t : ty) : bool :=
  match desc tt t with TBad => true | _ => false end.

(* A function value: a generated function (index into the heap of generated
   functions) or the placeholder closure of cell p. *)
Inductive fn := FGen (g : nat) | FPh (p : nat) | FErr.
(* [FErr] is the function the failure path assigns: it panics with the
   generator's error.  It only ever lives in a cell's variable. *)

(* The shape of a value as far as the caches are concerned: which of the
   functions captured at generation time are called on which sub-values
   ([SKid i]: the i-th captured function), and which types are looked up in
   the cache while the call runs ([SDyn t]: iterateInterface). *)
Inductive sel := SKid (i : nat) | SDyn (t : ty).
Inductive val := V (subs : list (sel * val)).

(* A placeholder cell: the WaitGroup counter and the plain variable.
   [ph_pub] is a ghost flag (set when LoadOrStore published the closure);
   no step reads it. *)
Record ph := mkPh { ph_ty : ty; ph_cnt : N; ph_var : option fn; ph_pub : bool }.
(* A generated function: the type it was generated for and the functions it
   captured for the element types. Immutable once created. *)
Record clo := mkClo { clo_ty : ty; clo_kids : list fn }.

Inductive pc := PLoad | PAdd | PLoS | PGen | PWrite | PDone | PStore | PDel | PWErr | PDErr.

(* One activation of GetIteratorForType. *)
Record frame := mkFrame { f_ty : ty; f_ph : nat; f_pc : pc; f_todo : list ty; f_got : list fn }.

Inductive witem :=
| WGet (t : ty) (v : val)      (* ask the cache for t, then call the result on v *)
| WCall (f : fn) (v : val)     (* call f on v; for a placeholder this starts with wg.Wait() *)
| WRead (p : nat) (v : val).   (* Wait has returned; next: read the plain variable of p and call it *)

Inductive result :=
| ROk (trace : list ty) (kinds : list bool)
    (* the types whose generated functions ran, in order; for every cache
       request of the job, whether the cache handed out a placeholder *)
| RPanic.

Definition job := (ty * val)%type.

Record thread := mkThread {
  th_jobs : list job;                (* not yet started *)
  th_cur : option job;               (* running *)
  th_done : list (job * result);     (* finished, oldest first *)
  th_stack : list frame;             (* cache requests in progress, innermost first *)
  th_work : list witem;
  th_trace : list ty;
  th_kinds : list bool
}.

(* Ghost log of the accesses that matter for happens-before, newest first. *)
Inductive ev := EWrite (p : nat) | EDone (p : nat) | EWait (p : nat) | ERead (p : nat) | EOwnRead (p : nat).

Record state := mkState {
  st_map : list (ty * fn);           (* the sync.Map; the first binding of a key is the current one *)
  st_phs : list ph;
  st_heap : list clo;
  st_threads : list thread;
  st_log : list (nat * ev)
}.

(* ------------------------------------------------------------------------- *)
(* Helpers *)

Fixpoint lookup (m : list (ty * fn)) (t : ty) : option fn :=
  match m with
  | [] => None
  | (t', f) :: r => if t' =? t then Some f else lookup r t
  end.

Fixpoint upd {A} (l : list A) (i : nat) (x : A) : list A :=
  match l, i with
  | [], _ => []
  | _ :: r, O => x :: r
  | y :: r, S k => y :: upd r k x
  end.

Definition is_ph (f : fn) : bool := match f with FPh _ => true | _ => false end.

Fixpoint remove_key (m : list (ty * fn)) (t : ty) : list (ty * fn) :=
  match m with
  | [] => []
  | (t', f) :: r => if t' =? t then remove_key r t else (t', f) :: remove_key r t
  end.

Definition set_cnt (c : ph) (n : N) : ph := mkPh (ph_ty c) n (ph_var c) (ph_pub c).
Definition set_var (c : ph) (f : fn) : ph := mkPh (ph_ty c) (ph_cnt c) (Some f) (ph_pub c).
Definition set_pub (c : ph) : ph := mkPh (ph_ty c) (ph_cnt c) (ph_var c) true.

(* What a generated function does with the sub-values: new work items. *)
Definition expand (kids : list fn) (subs : list (sel * val)) : list witem :=
  flat_map (fun sv =>
    match fst sv with
    | SKid i => match nth_error kids i with Some k => [WCall k (snd sv)] | None => [] end
    | SDyn t => [WGet t (snd sv)]
    end) subs.

(* ------------------------------------------------------------------------- *)
(* One step of one thread.  [tstep] returns the new thread and the new shared
   components, or None when the thread has nothing to do or is blocked. *)

Definition with_stack (th : thread) (st : list frame) : thread :=
  mkThread (th_jobs th) (th_cur th) (th_done th) st (th_work th) (th_trace th) (th_kinds th).
Definition with_work (th : thread) (w : list witem) : thread :=
  mkThread (th_jobs th) (th_cur th) (th_done th) (th_stack th) w (th_trace th) (th_kinds th).

(* The innermost cache request returns f. *)
Definition ret (th : thread) (rest : list frame) (f : fn) : thread :=
  match rest with
  | parent :: rest' =>
      with_stack th (mkFrame (f_ty parent) (f_ph parent) (f_pc parent) (tl (f_todo parent)) (f_got parent ++ [f]) :: rest')
  | [] =>
      match th_work th with
      | WGet _ v :: w =>
          mkThread (th_jobs th) (th_cur th) (th_done th) [] (WCall f v :: w) (th_trace th) (th_kinds th ++ [is_ph f])
      | _ => with_stack th []   (* unreachable *)
      end
  end.

(* The current job ends in a (recovered) panic. *)
Definition panic (th : thread) : thread :=
  match th_cur th with
  | Some j => mkThread (th_jobs th) None (th_done th ++ [(j, RPanic)]) [] [] [] []
  | None => mkThread (th_jobs th) None (th_done th) [] [] [] []
  end.

Record shared := mkShared { sh_map : list (ty * fn); sh_phs : list ph; sh_heap : list clo; sh_ev : list ev }.

Definition tstep (tt : ttable) (m : list (ty * fn)) (phs : list ph) (heap : list clo) (th : thread)
  : option (thread * shared) :=
  let same th' := Some (th', mkShared m phs heap []) in
  match th_stack th with
  | fr :: rest =>
      let t := f_ty fr in
      let p := f_ph fr in
      let at_pc c todo := mkFrame t p c todo (f_got fr) in
      match f_pc fr with
      | PLoad =>
          match lookup m t with
          | Some f => same (ret th rest f)
          | None =>
              (* allocate the WaitGroup (counter 0) and the variable (nil) *)
              Some (with_stack th (mkFrame t (length phs) PAdd [] [] :: rest),
                    mkShared m (phs ++ [mkPh t 0 None false]) heap [])
          end
      | PAdd =>
          match nth_error phs p with
          | Some c => Some (with_stack th (at_pc PLoS [] :: rest),
                            mkShared m (upd phs p (set_cnt c (ph_cnt c + 1))) heap [])
          | None => None
          end
      | PLoS =>
          match lookup m t with
          | Some f => same (ret th rest f)
          | None =>
              match nth_error phs p with
              | Some c => Some (with_stack th (at_pc PGen (kidtypes tt t) :: rest),
                                mkShared ((t, FPh p) :: m) (upd phs p (set_pub c)) heap [])
              | None => None
              end
          end
      | PGen =>
          if is_bad tt t then same (with_stack th (at_pc PDel [] :: rest))   (* the generator panics: the deferred function runs *)
          else match f_todo fr with
               | c :: _ => same (with_stack th (mkFrame c 0 PLoad [] [] :: fr :: rest))
               | [] => same (with_stack th (at_pc PWrite [] :: rest))
               end
      | PWrite =>
          match nth_error phs p with
          | Some c => Some (with_stack th (at_pc PDone [] :: rest),
                            mkShared m (upd phs p (set_var c (FGen (length heap))))
                                     (heap ++ [mkClo t (f_got fr)]) [EWrite p])
          | None => None
          end
      | PDone =>
          match nth_error phs p with
          | Some c => Some (with_stack th (at_pc PStore [] :: rest),
                            mkShared m (upd phs p (set_cnt c (N.pred (ph_cnt c)))) heap [EDone p])
          | None => None
          end
      | PStore =>
          match nth_error phs p with
          | Some c =>
              match ph_var c with
              | Some f => Some (ret th rest f, mkShared ((t, f) :: m) phs heap [EOwnRead p])
              | None => Some (panic th, mkShared m phs heap [EOwnRead p])   (* calling / storing nil: unreachable *)
              end
          | None => None
          end
      | PDel => Some (with_stack th (at_pc PWErr [] :: rest), mkShared (remove_key m t) phs heap [])
      | PWErr =>
          match nth_error phs p with
          | Some c => Some (with_stack th (at_pc PDErr [] :: rest),
                            mkShared m (upd phs p (set_var c FErr)) heap [EWrite p])
          | None => None
          end
      | PDErr =>
          match nth_error phs p with
          | Some c =>
              (* Done, then the panic goes on: the enclosing request runs its deferred function,
                 the outermost one lets the panic reach the caller's recover *)
              Some (match rest with
                    | parent :: rest' =>
                        with_stack th (mkFrame (f_ty parent) (f_ph parent) PDel [] (f_got parent) :: rest')
                    | [] => panic (with_stack th [])
                    end,
                    mkShared m (upd phs p (set_cnt c (N.pred (ph_cnt c)))) heap [EDone p])
          | None => None
          end
      end
  | [] =>
      match th_work th with
      | WGet t v :: _ => same (with_stack th [mkFrame t 0 PLoad [] []])
      | WCall (FGen g) (V subs) :: w =>
          match nth_error heap g with
          | Some c => same (mkThread (th_jobs th) (th_cur th) (th_done th) [] (expand (clo_kids c) subs ++ w)
                                     (th_trace th ++ [clo_ty c]) (th_kinds th))
          | None => same (panic th)   (* unreachable *)
          end
      | WCall FErr _ :: _ => same (panic th)   (* unreachable *)
      | WCall (FPh p) v :: w =>
          match nth_error phs p with
          | Some c => if ph_cnt c =? 0
                      then Some (with_work th (WRead p v :: w), mkShared m phs heap [EWait p])
                      else None                               (* blocked in wg.Wait() *)
          | None => None
          end
      | WRead p v :: w =>
          match nth_error phs p with
          | Some c =>
              match ph_var c with
              | Some FErr => Some (panic th, mkShared m phs heap [ERead p])   (* the failed generation's error again *)
              | Some f => Some (with_work th (WCall f v :: w), mkShared m phs heap [ERead p])
              | None => Some (panic th, mkShared m phs heap [ERead p])    (* nil function call: unreachable *)
              end
          | None => None
          end
      | [] =>
          match th_cur th with
          | Some j => same (mkThread (th_jobs th) None (th_done th ++ [(j, ROk (th_trace th) (th_kinds th))]) [] [] [] [])
          | None =>
              match th_jobs th with
              | (t, v) :: js => same (mkThread js (Some (t, v)) (th_done th) [] [WGet t v] [] [])
              | [] => None
              end
          end
      end
  end.

Definition step (tt : ttable) (s : state) (i : nat) : option state :=
  match nth_error (st_threads s) i with
  | None => None
  | Some th =>
      match tstep tt (st_map s) (st_phs s) (st_heap s) th with
      | None => None
      | Some (th', sh) =>
          Some (mkState (sh_map sh) (sh_phs sh) (sh_heap sh) (upd (st_threads s) i th')
                        (map (fun e => (i, e)) (sh_ev sh) ++ st_log s))
      end
  end.

(* A schedule names the thread that moves next; naming a thread that cannot
   move leaves the state as it is. *)
Fixpoint run (tt : ttable) (s : state) (sched : list nat) : state :=
  match sched with
  | [] => s
  | i :: r => run tt (match step tt s i with Some s' => s' | None => s end) r
  end.

Definition new_thread (js : list job) : thread := mkThread js None [] [] [] [] [].
(* A new session whose cache is empty (the entries a session copies from the
   package-level root session were all generated during package
   initialisation, by one goroutine: they behave like entries generated by an
   earlier job). *)
Definition init (jobs : list (list job)) : state := mkState [] [] [] (map new_thread jobs) [].

(* ------------------------------------------------------------------------- *)
(* Observations on states *)

Definition th_finished (th : thread) : bool :=
  match th_jobs th, th_cur th with [], None => true | _, _ => false end.
Definition all_finished (s : state) : bool := forallb th_finished (st_threads s).

(* No thread can move. *)
Definition stuck (tt : ttable) (s : state) : bool :=
  forallb (fun i => match step tt s i with None => true | Some _ => false end) (seq 0 (length (st_threads s))).

(* The next action of a thread, if it is an access to a plain variable:
   (cell, is_write). *)
Definition next_access (th : thread) : option (nat * bool) :=
  match th_stack th with
  | fr :: _ => match f_pc fr with
               | PWrite => Some (f_ph fr, true)
               | PWErr => Some (f_ph fr, true)
               | PStore => Some (f_ph fr, false)
               | _ => None
               end
  | [] => match th_work th with
          | WRead p _ :: _ => Some (p, false)
          | _ => None
          end
  end.

(* Two different threads are both about to access the same plain variable and
   one of the accesses is a write: the two accesses are not ordered by any
   synchronisation, i.e. a data race. *)
Definition race_pair (a b : thread) : bool :=
  match next_access a, next_access b with
  | Some (p, w1), Some (q, w2) => Nat.eqb p q && (w1 || w2)
  | _, _ => false
  end.

Fixpoint race_in (ths : list thread) : bool :=
  match ths with
  | [] => false
  | a :: r => existsb (race_pair a) r || race_in r
  end.
Definition race_state (s : state) : bool := race_in (st_threads s).

(* What the same job yields when nothing else runs and every type is
   supported: the types visited, in order.  (Recursion on the value.) *)
Fixpoint ref (tt : ttable) (v : val) (t : ty) {struct v} : list ty :=
  match v with
  | V subs =>
      t :: flat_map (fun sv =>
             match fst sv with
             | SKid i => match nth_error (kidtypes tt t) i with Some c => ref tt (snd sv) c | None => [] end
             | SDyn t' => ref tt (snd sv) t'
             end) subs
  end.

(* ------------------------------------------------------------------------- *)
(* Running and exploring the model (used by the correspondence cases) *)

(* Let thread i move until it cannot (at most fuel steps). *)
Fixpoint run_thread (tt : ttable) (fuel : nat) (s : state) (i : nat) : state :=
  match fuel with
  | O => s
  | S k => match step tt s i with Some s' => run_thread tt k s' i | None => s end
  end.

(* Observation of one call as the harness sees it. *)
Inductive obs :=
| OOk (first_kind : option bool) (same_as_alone : bool)   (* returned normally; first_kind: placeholder handed out? *)
| OPanic (same_as_alone : bool)                            (* returned an error *)
| OHang.                                                   (* never returned *)

Definition bool_eqb (a b : bool) : bool := Bool.eqb a b.

Definition kind_matches (observed : option bool) (kinds : list bool) : bool :=
  match observed, kinds with
  | None, _ => true
  | Some b, k :: _ => bool_eqb b k
  | Some _, [] => false
  end.

Definition list_ty_eqb : list ty -> list ty -> bool := list_eqb N.eqb.

(* What the model says the job yields when it is the only job ever run on a
   new session. *)
Definition seq_fuel : nat := Nat.pow 10 5.
Definition alone (tt : ttable) (j : job) : option result :=
  match st_threads (run_thread tt seq_fuel (init [[j]]) 0) with
  | th :: _ => match th_done th with (_, r) :: _ => Some r | [] => None end
  | [] => None
  end.

(* same observable result: both panic, or both return after the same trace *)
Definition same_result (a : option result) (b : result) : bool :=
  match a, b with
  | Some (ROk t _), ROk u _ => list_ty_eqb t u
  | Some RPanic, RPanic => true
  | _, _ => false
  end.

(* An observation together with the model's run-alone result of its job. *)
Definition aobs := (obs * option result)%type.
Definition annotate (tt : ttable) (jobs : list job) (os : list obs) : list aobs :=
  combine os (map (alone tt) jobs).

(* Does the observation fit the model's result of the job?  Class (returned /
   error), the kind of function handed out first, and whether the result is
   the run-alone result must all agree. *)
Definition obs_fits (o : aobs) (r : result) : bool :=
  match fst o, r with
  | OOk k same, ROk tr kinds => kind_matches k kinds && bool_eqb same (same_result (snd o) r)
  | OPanic same, RPanic => bool_eqb same (same_result (snd o) r)
  | _, _ => false
  end.

(* A thread against its list of observations: finished jobs fit one by one;
   a trailing OHang means the thread is neither finished nor able to move. *)
Fixpoint thread_fits (os : list aobs) (done : list (job * result)) (blocked finished : bool) : bool :=
  match os, done with
  | [], [] => finished
  | [(OHang, _)], [] => blocked
  | o :: os', jr :: done' => obs_fits o (snd jr) && thread_fits os' done' blocked finished
  | _, _ => false
  end.

Definition can_move (tt : ttable) (s : state) (i : nat) : bool :=
  match step tt s i with Some _ => true | None => false end.

Definition state_fits (tt : ttable) (s : state) (oss : list (list aobs)) : bool :=
  (length oss =? length (st_threads s))%nat &&
  forallb (fun i =>
    match nth_error (st_threads s) i, nth_error oss i with
    | Some th, Some os => thread_fits os (th_done th) (negb (th_finished th) && negb (can_move tt s i)) (th_finished th)
    | _, _ => false
    end) (seq 0 (length oss)).

(* Sequential scenario: one thread per call, thread 0 runs until it cannot,
   then thread 1, ... *)
Definition run_seq (tt : ttable) (jobs : list job) : state :=
  fold_left (fun s i => run_thread tt seq_fuel s i) (seq 0 (length jobs)) (init (map (fun j => [j]) jobs)).

(* Concurrent scenario: is there a schedule after which no thread can move
   and the state fits the observations?  Depth-first search over all
   schedules; two reductions that lose no outcome: (1) a thread whose next
   step neither reads nor writes anything shared is moved at once, (2) states
   already explored are not explored again. *)

Definition fn_eqb (a b : fn) : bool :=
  match a, b with
  | FGen g, FGen h => Nat.eqb g h
  | FPh p, FPh q => Nat.eqb p q
  | FErr, FErr => true
  | _, _ => false
  end.
Definition sel_eqb (a b : sel) : bool :=
  match a, b with
  | SKid i, SKid j => Nat.eqb i j
  | SDyn t, SDyn u => t =? u
  | _, _ => false
  end.
Fixpoint val_eqb (a b : val) {struct a} : bool :=
  match a, b with
  | V xs, V ys =>
      (fix go (xs : list (sel * val)) (ys : list (sel * val)) : bool :=
         match xs, ys with
         | [], [] => true
         | x :: xs', y :: ys' => sel_eqb (fst x) (fst y) && val_eqb (snd x) (snd y) && go xs' ys'
         | _, _ => false
         end) xs ys
  end.
Definition pc_eqb (a b : pc) : bool :=
  match a, b with
  | PLoad, PLoad | PAdd, PAdd | PLoS, PLoS | PGen, PGen | PWrite, PWrite | PDone, PDone | PStore, PStore
  | PDel, PDel | PWErr, PWErr | PDErr, PDErr => true
  | _, _ => false
  end.
Definition frame_eqb (a b : frame) : bool :=
  (f_ty a =? f_ty b) && Nat.eqb (f_ph a) (f_ph b) && pc_eqb (f_pc a) (f_pc b) &&
  list_eqb N.eqb (f_todo a) (f_todo b) && list_eqb fn_eqb (f_got a) (f_got b).
Definition witem_eqb (a b : witem) : bool :=
  match a, b with
  | WGet t v, WGet u w => (t =? u) && val_eqb v w
  | WCall f v, WCall g w => fn_eqb f g && val_eqb v w
  | WRead p v, WRead q w => Nat.eqb p q && val_eqb v w
  | _, _ => false
  end.
Definition result_eqb (a b : result) : bool :=
  match a, b with
  | ROk t k, ROk u l => list_eqb N.eqb t u && list_eqb bool_eqb k l
  | RPanic, RPanic => true
  | _, _ => false
  end.
(* jobs are compared by how many are left / done (the lists themselves are fixed by the scenario) *)
Definition thread_eqb (a b : thread) : bool :=
  Nat.eqb (length (th_jobs a)) (length (th_jobs b)) &&
  bool_eqb (match th_cur a with Some _ => true | None => false end) (match th_cur b with Some _ => true | None => false end) &&
  list_eqb (fun x y => result_eqb (snd x) (snd y)) (th_done a) (th_done b) &&
  list_eqb frame_eqb (th_stack a) (th_stack b) &&
  list_eqb witem_eqb (th_work a) (th_work b) &&
  list_eqb N.eqb (th_trace a) (th_trace b) && list_eqb bool_eqb (th_kinds a) (th_kinds b).
Definition ph_eqb (a b : ph) : bool :=
  (ph_ty a =? ph_ty b) && (ph_cnt a =? ph_cnt b) && option_eqb fn_eqb (ph_var a) (ph_var b) && bool_eqb (ph_pub a) (ph_pub b).
Definition clo_eqb (a b : clo) : bool := (clo_ty a =? clo_ty b) && list_eqb fn_eqb (clo_kids a) (clo_kids b).
(* the log is ghost: not compared *)
Definition state_eqb (a b : state) : bool :=
  list_eqb (fun x y => (fst x =? fst y) && fn_eqb (snd x) (snd y)) (st_map a) (st_map b) &&
  list_eqb ph_eqb (st_phs a) (st_phs b) && list_eqb clo_eqb (st_heap a) (st_heap b) &&
  list_eqb thread_eqb (st_threads a) (st_threads b).

(* Is the next step of the thread one that commutes with every step of every
   other thread (so that making it at once loses no outcome)?  Steps on the
   thread's own record; a cell nobody else knows yet; the plain write (nobody
   reads before a Wait has seen Done); map reads that find a generated
   function (such a binding is never replaced by a different one); Wait once
   the counter is zero and the read after it (counter and variable do not
   change any more). *)
Definition local_step (s : state) (th : thread) : bool :=
  match th_stack th with
  | fr :: _ => match f_pc fr with
               | PGen | PAdd | PWrite | PWErr => true
               | PLoad | PLoS => match lookup (st_map s) (f_ty fr) with Some (FGen _) => true | _ => false end
               | _ => false
               end
  | [] => match th_work th with
          | WGet _ _ :: _ => true
          | WCall (FGen _) _ :: _ => true
          | WCall FErr _ :: _ => true
          | WCall (FPh p) _ :: _ => match nth_error (st_phs s) p with
                                    | Some c => (ph_cnt c =? 0) && ph_pub c
                                    | None => false
                                    end
          | WRead _ _ :: _ => true
          | [] => true
          end
  end.

(* move every thread through its local steps *)
Fixpoint settle_thread (tt : ttable) (fuel : nat) (s : state) (i : nat) : state :=
  match fuel with
  | O => s
  | S k => match nth_error (st_threads s) i with
           | Some th => if local_step s th
                        then match step tt s i with Some s' => settle_thread tt k s' i | None => s end
                        else s
           | None => s
           end
  end.
Definition settle (tt : ttable) (s : state) : state :=
  fold_left (fun s i => settle_thread tt 1000 s i) (seq 0 (length (st_threads s))) s.

Definition drop_log (s : state) : state := mkState (st_map s) (st_phs s) (st_heap s) (st_threads s) [].

(* can the observations still be met: the jobs finished so far fit the first observations of their thread *)
Fixpoint prefix_fits (os : list aobs) (done : list (job * result)) : bool :=
  match done, os with
  | [], _ => true
  | jr :: done', o :: os' => obs_fits o (snd jr) && prefix_fits os' done'
  | _ :: _, [] => false
  end.
Definition may_fit (s : state) (oss : list (list aobs)) : bool :=
  forallb (fun i =>
    match nth_error (st_threads s) i, nth_error oss i with
    | Some th, Some os => prefix_fits os (th_done th)
    | _, _ => false
    end) (seq 0 (length (st_threads s))).

(* (found, visited) *)
Fixpoint explore (tt : ttable) (fuel : nat) (oss : list (list aobs)) (s : state) (visited : list state)
  : bool * list state :=
  match fuel with
  | O => (false, visited)
  | S k =>
      if existsb (state_eqb s) visited then (false, visited)
      else
        let visited := s :: visited in
        if negb (may_fit s oss) then (false, visited)
        else if stuck tt s then (state_fits tt s oss, visited)
        else
          fold_left (fun (acc : bool * list state) i =>
                       if fst acc then acc
                       else match step tt s i with
                            | Some s' => explore tt k oss (drop_log (settle tt (settle tt s'))) (snd acc)
                            | None => acc
                            end)
                    (seq 0 (length (st_threads s))) (false, visited)
  end.

Definition reachable_outcome (tt : ttable) (threads : list (list job)) (oss : list (list obs)) : bool :=
  fst (explore tt 5000 (map (fun jo => annotate tt (fst jo) (snd jo)) (combine threads oss))
               (drop_log (settle tt (init threads))) []).

(* ------------------------------------------------------------------------- *)
(* Correspondence cases *)

Inductive cache_case :=
| SeqCase (tt : ttable) (jobs : list job) (observed : list obs)
    (* the calls were made one after the other on one new session, each in its
       own goroutine; a call that did not return was left behind *)
| ConcCase (tt : ttable) (threads : list (list job)) (observed : list (list obs)).
    (* one goroutine per list, all started together on one new session *)

Definition cache_case_ok (c : cache_case) : bool :=
  match c with
  | SeqCase tb jobs observed =>
      (length observed =? length jobs)%nat &&
      state_fits tb (run_seq tb jobs) (map (fun o => [o]) (annotate tb jobs observed))
  | ConcCase tb threads observed =>
      (length observed =? length threads)%nat && reachable_outcome tb threads observed
  end.
