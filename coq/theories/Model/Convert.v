(* C03 — CBE and CTE are 1:1 convertible: the two conversion pipelines of package ce

       cbe.Decoder -> rules -> cte.Encoder     then  cte.Decoder -> rules -> receiver
       cte.Decoder -> rules -> cbe.Encoder     then  cbe.Decoder -> rules -> receiver

   composed from the existing executable models
     Model/Cbe.v      cbe_decode / cbe_encode          (cbe/decoder.go, cbe/encoder.go)
     Model/Rules.v    the validator, forwarded events  (rules/)
     Model/CteEnc.v   cte_encode                       (cte/encoder*.go)
     Model/CteRead.v  cte_read                         (cte/parser.go + the generated lexer/parser)
     Model/Denote.v   den: "the same data"
   plus what is new here: the three classes of strings that the binary side admits and the
   text side has to spell —

     identifiers   rules/context_array.go ValidateIdentifier (chars.IsIdentifierSafe)
                   vs CTELexer.g4 IDENTIFIER = CHAR_IDENTIFIER+          ([ident_valid], [ident_lexable])
     media types   rules ValidateContentsStringlike + ValidateMediaType (valid UTF-8 of the shape
                   letter NEXT* '/' NEXT+, [Rules.media_type_valid]; cbe/decoder.go decodeMedia reads
                   any bytes and leaves the verdict to the validator), written verbatim by
                   cte/encoder_array.go EncodeMedia / BeginMedia ("@%v[")
                   vs CTELexer.g4 MEDIA_TYPE = [a-zA-Z] NEXT* '/' NEXT+   ([media_lexable])
     area/location time-zone names
                   go-compact-time decoder.go decodeTimezone (any 1..127 bytes), then
                   cbe/decoder_reader.go validateTime: Time.Validate() and, for area/location
                   zones, the long name must be [A-Z][a-zA-Z0-9_.\-/+]*; written verbatim by
                   cte/encoder_writer.go WriteTime (LongAreaLocation)
                   vs CTELexer.g4 TZ_AREALOC = '/' [A-Z] AREA_NEXT*       ([area_lexable])

   and the time values themselves: the bit fields of a CBE time can hold hour 0..31, minute and
   second 0..63, month 0..15, day 0..31, year 0, nanoseconds up to 2^30-1, any 15/16-bit
   latitude/longitude, any 12-bit UTC offset; cbe/decoder_reader.go validateTime (ReadDate /
   ReadTime / ReadTimestamp) lets the zero value through and otherwise demands what the CTE
   listener (cte/parser.go parseTime / parseDate / parseDateTime) demands: Time.Validate().
   [ctime] is the value compact_time's decoder builds from the fields, [time_string] is
   compact_time's Time.String() of it (the payload of the ETime event, see Model/Events.v),
   [time_valid] is Time.Validate(), [zone_lexable] the lexer's demand on the zone,
   [cbe_time_ok] is validateTime.

   Not modelled: the bit-level layout of times in CBE (go-compact-time is bit-packed;
   Model/Cbe.v stops at the three time type codes; [cbe_time_ok] is tied to the real decoder by
   the CvTime cases), zero time values (IsZeroValue: the CTE encoder writes "null" for them —
   open finding C03/cbe-cte/zero-time-as-null), nanosecond fields of 10^9 and more (String()
   and WriteTime disagree on them; validateTime and the reader both refuse them).

   Executable definitions only; proofs are in Proofs/ConvertProofs.v. *)
From CE Require Export Base.Prelude Base.Utf8 Model.Events.
From CE Require Model.Cbe Model.CteEnc Model.CteRead Model.CteLit Model.Denote Model.Rules Gen.RulesConsts.
Require Coq.Strings.String.
Import String.StringSyntax.
Delimit Scope string_scope with string.
Open Scope N_scope.

(* ------------------------------------------------------------------ *)
(** * 1. The string classes *)

(* identifiers: what the validator admits, what the lexer can match *)
Definition ident_valid (id : bytes) : bool := Rules.validate_identifier Rules.default_rcfg id.
Definition ident_lexable (id : bytes) : bool :=
  match runes id with [] => false | rs => forallb CteRead.ch_ident rs end.

(* media types: the validator's test (ValidateContentsStringlike and ValidateMediaType), the lexer's
   MEDIA_TYPE fragment on code points *)
Definition media_valid (mt : bytes) : bool := utf8_valid mt && Rules.media_type_valid mt.
Definition nonemptyb {A} (l : list A) : bool := match l with [] => false | _ => true end.
Definition media_lexable_runes (s : list N) : bool :=
  match s with
  | c :: r =>
      CteRead.is_alpha c &&
      (let '(_, r1) := CteRead.span CteRead.ch_media_next r in
       match r1 with
       | x :: r2 => (x =? 47) &&
                    (let '(run2, r3) := CteRead.span CteRead.ch_media_next r2 in
                     nonemptyb run2 && negb (nonemptyb r3))
       | [] => false
       end)
  | [] => false
  end.
Definition media_lexable (mt : bytes) : bool := media_lexable_runes (runes mt).

(* area/location names: TZ_AREALOC without its leading slash *)
Definition area_lexable_runes (s : list N) : bool :=
  match s with
  | c :: r => CteRead.is_upper c && forallb CteRead.ch_area_next r
  | [] => false
  end.
Definition area_lexable (name : bytes) : bool := area_lexable_runes (runes name).

(* ------------------------------------------------------------------ *)
(** * 2. Times as the CBE reader builds them *)

Inductive tzone :=
| TzUTC                              (* no time-zone field *)
| TzArea (name : bytes)              (* the string of the area/location field, as read (1..127 bytes) *)
| TzLatLong (lat lon : Z)            (* hundredths of degrees, as read *)
| TzOffset (minutes : Z).            (* minutes from UTC, as read *)
Inductive ttype := TDate | TTime | TTimestamp.
Record ctime := {
  t_type : ttype; t_year : Z; t_month : N; t_day : N;
  t_hour : N; t_minute : N; t_second : N; t_nano : N; t_zone : tzone }.

Definition str := CteEnc.s2b.
Definition dec := CteEnc.dec.
Definition pad2 (n : N) : bytes := if n <? 10 then [48; 48 + n] else dec n.   (* %02d *)

(* Timezone.InitWithAreaLocation / decodeTimezone: the long name and whether the zone is
   an area/location zone (the other outcomes are UTC and Local) *)
Inductive azone := AzUTC | AzLocal | AzArea (long : bytes).
Definition expand_short (name : bytes) : bytes :=          (* splitAreaLocation, long part *)
  match name with
  | a :: 47 :: loc => match CteRead.assoc a CteRead.short_areas with Some area => area ++ 47 :: loc | None => name end
  | _ => name
  end.
Definition init_area (name : bytes) : azone :=
  if CteRead.mem_bytes name CteRead.area_utc || CteRead.mem_bytes name CteRead.area_utc_preserve
     || match name with [] => true | _ => false end then AzUTC
  else if CteRead.mem_bytes name CteRead.area_local then AzLocal
  else AzArea (expand_short name).

Definition coord_text (z : Z) : bytes :=                     (* "%.2f" of hundredths / 100 *)
  (if (z <? 0)%Z then [45] else []) ++ dec (Z.abs_N z / 100) ++ [46] ++ pad2 (Z.abs_N z mod 100).

(* Timezone.String() *)
Definition zone_string (z : tzone) : bytes :=
  match z with
  | TzUTC => []
  | TzArea name => match init_area name with
                   | AzUTC => [] | AzLocal => 47 :: str "Local"%string | AzArea long => 47 :: long
                   end
  | TzLatLong la lo => 47 :: coord_text la ++ 47 :: coord_text lo
  | TzOffset m => if (m =? 0)%Z then []
                  else (if (m <? 0)%Z then [45] else [43]) ++ pad2 (Z.abs_N m / 60) ++ pad2 (Z.abs_N m mod 60)
  end.

Fixpoint strip0 (fuel : nat) (rev_digits : bytes) : bytes :=
  match fuel with
  | O => rev_digits
  | S f => match rev_digits with 48 :: r => strip0 f r | _ => rev_digits end
  end.
Definition nano_text (ns : N) : bytes :=                     (* "%09d" without trailing zeros *)
  if ns =? 0 then [] else 46 :: rev (strip0 9 (rev (CteEnc.pad_left 48 9 (dec ns)))).

Definition date_string (t : ctime) : bytes :=                (* "%d-%02d-%02d" *)
  (if (t_year t <? 0)%Z then [45] else []) ++ dec (Z.abs_N (t_year t)) ++ [45] ++ pad2 (t_month t) ++ [45] ++ pad2 (t_day t).
Definition clock_string (t : ctime) : bytes :=
  pad2 (t_hour t) ++ [58] ++ pad2 (t_minute t) ++ [58] ++ pad2 (t_second t) ++ nano_text (t_nano t) ++ zone_string (t_zone t).
(* Time.String() *)
Definition time_string (t : ctime) : bytes :=
  match t_type t with
  | TDate => date_string t
  | TTime => clock_string t
  | TTimestamp => date_string t ++ 47 :: clock_string t
  end.

(* Time.Validate() / Timezone.Validate() *)
Definition zone_valid (z : tzone) : bool :=
  match z with
  | TzUTC => true
  | TzArea name => match init_area name with
                   | AzArea long => (1 <=? length long)%nat && (length long <=? 127)%nat
                   | _ => true
                   end
  | TzLatLong la lo => ((-9000 <=? la) && (la <=? 9000) && (-18000 <=? lo) && (lo <=? 18000))%Z
  | TzOffset m => ((-1439 <=? m) && (m <=? 1439))%Z
  end.
Definition date_valid (t : ctime) : bool :=
  negb (t_year t =? 0)%Z && (1 <=? t_month t) && (t_month t <=? 12) && (1 <=? t_day t) && (t_day t <=? CteRead.day_max (t_month t)).
Definition clock_valid (t : ctime) : bool :=
  (t_hour t <=? 23) && (t_minute t <=? 59) && (t_second t <=? 60) && (t_nano t <=? 999999999) && zone_valid (t_zone t).
Definition time_valid (t : ctime) : bool :=
  match t_type t with
  | TDate => date_valid t
  | TTime => clock_valid t
  | TTimestamp => date_valid t && clock_valid t
  end.

(* the lexer's demand on the zone spelling (TZ_AREALOC; the other two zone forms are
   spelled by the encoder itself) *)
Definition zone_lexable (z : tzone) : bool :=
  match z with
  | TzArea name => match init_area name with AzArea long => area_lexable long | _ => true end
  | _ => true
  end.
Definition time_lexable (t : ctime) : bool :=
  match t_type t with TDate => true | _ => zone_lexable (t_zone t) end.

(* cbe/decoder_reader.go validateTime on a non-zero value: Validate() and the zone spelling *)
Definition cbe_time_ok (t : ctime) : bool := time_valid t && time_lexable t.

(* the zone as the text side names it after re-reading: a long name that is one of the
   UTC / Local aliases loses its spelling ("C/UTC" is read as "Etc/UTC", written "/Etc/UTC",
   and read back as plain UTC) *)
Definition zone_canon (z : tzone) : tzone :=
  match z with
  | TzArea name => match init_area name with
                   | AzArea long => TzArea long
                   | AzUTC => TzUTC
                   | AzLocal => TzArea (str "Local"%string)
                   end
  | TzOffset m => if (m =? 0)%Z then TzUTC else z
  | _ => z
  end.
Definition time_canon (t : ctime) : ctime :=
  {| t_type := t_type t; t_year := t_year t; t_month := t_month t; t_day := t_day t; t_hour := t_hour t;
     t_minute := t_minute t; t_second := t_second t; t_nano := t_nano t; t_zone := zone_canon (zone_canon (t_zone t)) |}.

(* what the text side is predicted to make of the time: the canonical string, or a rejection *)
Definition time_expected (t : ctime) : option bytes :=
  if cbe_time_ok t then Some (time_string (time_canon t)) else None.

(* ------------------------------------------------------------------ *)
(** * 3. The pipelines *)

Definition rules_forward (es : list event) : option (list event) :=
  if Rules.accepts_document Rules.default_rcfg es then Some (Rules.forwarded Rules.default_rcfg es) else None.

(* cbe.Decoder -> rules: the events the next receiver gets for an accepted document *)
Definition cbe_side (doc : bytes) : option (list event) :=
  match Cbe.cbe_decode Cbe.default_dcfg doc with
  | (es, Cbe.DOk) => rules_forward es
  | _ => None
  end.
(* cte.Decoder -> rules *)
Definition cte_side (text : bytes) : option (list event) :=
  match CteRead.cte_read text with
  | Some es => rules_forward es
  | None => None
  end.
Definition to_cte (es : list event) : option bytes := CteEnc.cte_encode CteEnc.default_ccfg es.
Definition to_cbe (es : list event) : option bytes := Cbe.cbe_encode es.

Definition same_den (a b : list Denote.dev) : bool := list_eqb Denote.dev_eqb a b.
Definition events_eqb : list event -> list event -> bool := list_eqb event_eqb.

Definition has_custom_text (es : list event) : bool :=
  existsb (fun e => match e with
                    | ECustomText _ _ => true
                    | ECustomBegin t _ => t =? RulesConsts.AT_CustomText
                    | _ => false
                    end) es.

(* the value of a one-value document: what the reader makes of the text [v] standing alone *)
Definition read_value (v : bytes) : option (list event) :=
  match CteRead.cte_read (99 :: 48 :: 10 :: v) with
  | Some (EBeginDoc :: EVersion _ :: body) => Some (removelast body)
  | _ => None
  end.
(* ... when that is a single time *)
Definition time_reread (s : bytes) : option bytes :=
  match read_value s with Some [ETime s'] => Some s' | _ => None end.

(* The property on one CBE document, evaluated on the models ([None]: not accepted by the
   binary side, outside the property): the text, what the text side reads, whether it is
   the same data, the way back. *)
Record cbe_report := {
  r_text : option bytes;                 (* cte.Encoder output; None: a call panicked *)
  r_reread : option (list event);        (* cte.Decoder -> rules on the text; None: rejected *)
  r_same : bool;                         (* den reread = den input without padding *)
  r_back : option bytes;                 (* cbe.Encoder on the reread events *)
  r_same_back : bool }.                  (* that document is accepted and denotes the reread events without comments *)

Definition cbe_report_of (es : list event) : cbe_report :=
  let text := to_cte es in
  let reread := match text with Some t => cte_side t | None => None end in
  let same := match reread with
              | Some es2 => same_den (Denote.den es2) (Denote.no_padding (Denote.den es))
              | None => false
              end in
  let back := match reread with Some es2 => to_cbe es2 | None => None end in
  let same_back := match reread, back with
                   | Some es2, Some d2 =>
                       match cbe_side d2 with
                       | Some es3 => same_den (Denote.den es3) (Denote.no_comments (Denote.den es2))
                       | None => false
                       end
                   | _, _ => false
                   end in
  {| r_text := text; r_reread := reread; r_same := same; r_back := back; r_same_back := same_back |}.

Definition report_ok (r : cbe_report) : bool := r_same r && r_same_back r.

(* C03, first half, on one document *)
Definition cbe_converts (doc : bytes) : bool :=
  match cbe_side doc with
  | Some es => report_ok (cbe_report_of es)
  | None => true
  end.

(* second half: an accepted CTE document without custom text converts to an accepted CBE
   document with the same data apart from comments *)
Definition cte_converts (text : bytes) : bool :=
  match cte_side text with
  | Some es =>
      if has_custom_text es then true
      else match to_cbe es with
           | Some d => match cbe_side d with
                       | Some es2 => same_den (Denote.den es2) (Denote.no_comments (Denote.den es))
                       | None => false
                       end
           | None => false
           end
  | None => true
  end.

(* ------------------------------------------------------------------ *)
(** * 4. Correspondence cases *)

Inductive convert_case :=
(* a CBE document (no time in it): did cbe.Decoder -> rules accept it, and then every stage *)
| CvCbe (doc : bytes) (accepted : bool) (text : option bytes) (reread : option (list event)) (same : bool)
        (back : option bytes) (same_back : bool)
(* an accepted event stream (what the validator forwarded; times allowed): the text side only *)
| CvEvents (es : list event) (text : option bytes) (reread : option (list event)) (same : bool)
(* a CTE document: accepted by cte.Decoder -> rules, has custom text, the CBE document, same data *)
| CvCte (text : bytes) (accepted : bool) (custom_text : bool) (doc : option bytes) (same : bool)
(* a time as compact_time builds it from the CBE fields: Time.String(), whether cbe.Decoder accepts the
   document holding it (validateTime), and what the text side reads from the CTE encoder's spelling of
   that value (the re-read time's String(); None: rejected) *)
| CvTime (t : ctime) (string : bytes) (cbe_accepts : bool) (reread : option bytes)
(* a byte string as identifier: the validator's verdict, and whether the lexer reads "&id:" back *)
| CvIdent (id : bytes) (rules_ok lexed : bool)
(* a byte string as media type: the validator's verdict, and whether "@mt[01]" reads back as that media *)
| CvMedia (mt : bytes) (rules_ok lexed : bool).

Definition opt_is_some {A} (o : option A) : bool := match o with Some _ => true | None => false end.

Definition convert_case_ok (c : convert_case) : bool :=
  match c with
  | CvCbe doc accepted text reread same back same_back =>
      match cbe_side doc with
      | None => negb accepted
      | Some es =>
          let r := cbe_report_of es in
          accepted && option_eqb bytes_eqb (r_text r) text && option_eqb events_eqb (r_reread r) reread &&
          Bool.eqb (r_same r) same && option_eqb bytes_eqb (r_back r) back && Bool.eqb (r_same_back r) same_back
      end
  | CvEvents es text reread same =>
      let r := cbe_report_of es in
      option_eqb bytes_eqb (r_text r) text && option_eqb events_eqb (r_reread r) reread && Bool.eqb (r_same r) same
  | CvCte text accepted ct doc same =>
      match cte_side text with
      | None => negb accepted
      | Some es =>
          accepted && Bool.eqb (has_custom_text es) ct &&
          (if ct then true
           else option_eqb bytes_eqb (to_cbe es) doc &&
                Bool.eqb (match to_cbe es with
                          | Some d => match cbe_side d with
                                      | Some es2 => same_den (Denote.den es2) (Denote.no_comments (Denote.den es))
                                      | None => false
                                      end
                          | None => false
                          end) same)
      end
  | CvTime t s acc reread =>
      bytes_eqb (time_string t) s && Bool.eqb (cbe_time_ok t) acc &&
      option_eqb bytes_eqb (time_reread (time_string t)) reread &&
      option_eqb bytes_eqb (time_expected t) reread
  | CvIdent id rules_ok lexed =>
      Bool.eqb (ident_valid id) rules_ok && Bool.eqb (ident_lexable id) lexed &&
      Bool.eqb (match read_value (38 :: id ++ str ":null"%string) with
                | Some [EMarker id'; ENull] => bytes_eqb id id'
                | _ => false
                end) lexed
  | CvMedia mt rules_ok lexed =>
      Bool.eqb (media_valid mt) rules_ok && Bool.eqb (media_valid mt && media_lexable mt) lexed &&
      Bool.eqb (match read_value (64 :: mt ++ str "[01]"%string) with
                | Some [EMedia mt' [1]] => bytes_eqb mt mt'
                | _ => false
                end) lexed
  end.
