(* Executable model of the CBE wire format of times:

     /repo/cbe/encoder.go         OnTime                       -> [cbe_encode_time]
     /repo/cbe/decoder.go         cbeTypeDate/Time/Timestamp   -> [cbe_decode_time]
     /repo/cbe/decoder_reader.go  ReadDate / ReadTime / ReadTimestamp / validateTime
     github.com/kstenerud/go-compact-time v1.8.3 (dependency)
        codec.go     field widths, per-magnitude tables
        encoder.go   encodeDate / encodeTime / encodeTimestamp / encodeTimezone*  -> [ct_encode]
        decoder.go   DecodeDate/Time/TimestampWithBuffer, decodeTimezone          -> [ct_decode_*]
        time.go      Time, Timezone, InitWith*, splitAreaLocation, Validate       -> [gtime], [tz_*], [ct_validate]
     go-uleb128 (Base/Uleb.v) for the upper year bits.

   [gtime] mirrors the Go struct compact_time.Time field by field (Year int, Nanosecond uint32,
   the other fields uint8; Timezone{ShortAreaLocation, LongAreaLocation, LatitudeHundredths,
   LongitudeHundredths, MinutesOffsetFromUTC int16, Type}).  Numbers are unbounded N / Z; every
   place where the Go code converts to a narrower type or shifts inside a fixed-width register is
   written as an explicit wrap ([u8] [u16] [u32] [u64] [i16] [i32], [pack16] [pack64]), so the model
   also says what the code does with out-of-range fields (an hour of 37 spills into the next bit
   field, a year beyond 32 bits wraps, ...).

   The wire format (little endian, fields from the least significant bit):
     date       16 bits: day:5 month:4 year_low:7, then ULEB128(year_high)
     time       tz:1 magnitude:2 subsecond:10*magnitude second:6 minute:6 hour:5, reserved bits all 1,
                in 3/4/5/7 bytes for magnitude 0/1/2/3; then the time zone when tz = 1
     timestamp  tz:1 magnitude:2 subsecond:10*magnitude second:6 minute:6 hour:5 day:5 month:4
                year_low:3/1/7/5 in 4/5/7/8 bytes; then ULEB128(year_high); then the time zone
     year       zigzag32(year - 2000), low bits in the fixed part, the rest as ULEB128
     subsecond  magnitude 0: none; 1: milliseconds; 2: microseconds; 3: nanoseconds
     time zone  bit 0 of the first byte set: 4 bytes  1 | latitude:15 << 1 | longitude:16 << 16
                first byte 0: UTC offset, 2 more bytes, minutes as 12-bit two's complement (upper 4 bits ignored)
                otherwise: first byte = length << 1 (1..127), then the area/location string
   Executable definitions only; proofs are in Proofs/CbeTimeProofs.v. *)
From CE Require Export Base.Prelude Base.LE Base.Uleb.
From CE Require Import Gen.CbeConsts.
Require Coq.Strings.String Coq.Strings.Ascii.
Open Scope N_scope.

(* ------------------------------------------------------------------ *)
(** * 1. Go integer conversions *)

Definition u8 (n : N) : N := n mod 256.
Definition u16 (n : N) : N := n mod 65536.
Definition u32 (n : N) : N := n mod 4294967296.
Definition u64 (n : N) : N := n mod 18446744073709551616.
Definition i16 (z : Z) : Z := ((z + 32768) mod 65536 - 32768)%Z.
Definition i32 (z : Z) : Z := ((z + 2147483648) mod 4294967296 - 2147483648)%Z.
(* uint64(x) / int & mask of a signed value: the low [bits] bits of the two's complement *)
Definition twos (bits : N) (z : Z) : N := Z.to_N (z mod 2 ^ Z.of_N bits).

(* acc = (acc << w) | f   in a uint16 / uint64 register *)
Definition pack16 (acc w f : N) : N := u16 (N.lor (N.shiftl acc w) f).
Definition pack64 (acc w f : N) : N := u64 (N.lor (N.shiftl acc w) f).
(* f = acc & mask(w); acc >>= w *)
Definition low_bits (w acc : N) : N := N.land acc (N.ones w).

(* ------------------------------------------------------------------ *)
(** * 2. The value: compact_time.Time *)

Inductive tzkind := ZUnset | ZUTC | ZLocal | ZArea | ZLatLong | ZOffset.   (* TimezoneType, iota order *)
Record gzone := {
  z_kind : tzkind;
  z_short : bytes;          (* ShortAreaLocation *)
  z_long : bytes;           (* LongAreaLocation *)
  z_lat : Z; z_lon : Z;     (* LatitudeHundredths, LongitudeHundredths  int16 *)
  z_min : Z }.              (* MinutesOffsetFromUTC  int16 *)
Inductive tkind := KDate | KTime | KTimestamp.                              (* TimeType *)
Record gtime := {
  g_kind : tkind;
  g_year : Z;               (* int *)
  g_month : N; g_day : N; g_hour : N; g_minute : N; g_second : N;          (* uint8 *)
  g_nano : N;               (* uint32 *)
  g_zone : gzone }.

Definition tzkind_eqb (a b : tzkind) : bool :=
  match a, b with
  | ZUnset, ZUnset | ZUTC, ZUTC | ZLocal, ZLocal | ZArea, ZArea | ZLatLong, ZLatLong | ZOffset, ZOffset => true
  | _, _ => false
  end.
Definition tkind_eqb (a b : tkind) : bool :=
  match a, b with KDate, KDate | KTime, KTime | KTimestamp, KTimestamp => true | _, _ => false end.
Definition gzone_eqb (a b : gzone) : bool :=
  tzkind_eqb (z_kind a) (z_kind b) && bytes_eqb (z_short a) (z_short b) && bytes_eqb (z_long a) (z_long b) &&
  (z_lat a =? z_lat b)%Z && (z_lon a =? z_lon b)%Z && (z_min a =? z_min b)%Z.
Definition gtime_eqb (a b : gtime) : bool :=
  tkind_eqb (g_kind a) (g_kind b) && (g_year a =? g_year b)%Z && (g_month a =? g_month b) && (g_day a =? g_day b) &&
  (g_hour a =? g_hour b) && (g_minute a =? g_minute b) && (g_second a =? g_second b) && (g_nano a =? g_nano b) &&
  gzone_eqb (g_zone a) (g_zone b).

(* the values a Go struct can hold *)
Definition is_i16 (z : Z) : bool := ((-32768 <=? z) && (z <=? 32767))%Z.
Definition is_int (z : Z) : bool := ((-9223372036854775808 <=? z) && (z <=? 9223372036854775807))%Z.
Definition len_ok (b : bytes) : bool := forallb (fun x => x <? 256) b.
Definition gzone_wf (z : gzone) : bool :=
  len_ok (z_short z) && len_ok (z_long z) && is_i16 (z_lat z) && is_i16 (z_lon z) && is_i16 (z_min z).
Definition gtime_wf (t : gtime) : bool :=
  is_int (g_year t) && (g_month t <? 256) && (g_day t <? 256) && (g_hour t <? 256) && (g_minute t <? 256) &&
  (g_second t <? 256) && (g_nano t <? 4294967296) && gzone_wf (g_zone t).

Definition s2b (s : String.string) : bytes := List.map Ascii.N_of_ascii (String.list_ascii_of_string s).
Import String.StringSyntax.
Delimit Scope string_scope with string.

Definition zone0 : gzone := {| z_kind := ZUnset; z_short := []; z_long := []; z_lat := 0; z_lon := 0; z_min := 0 |}.
(* timezoneUTC, timezoneLocal *)
Definition tz_utc : gzone :=
  Eval cbv in {| z_kind := ZUTC; z_short := s2b "Z"%string; z_long := s2b "Etc/UTC"%string; z_lat := 0; z_lon := 0; z_min := 0 |}.
Definition tz_local : gzone :=
  Eval cbv in {| z_kind := ZLocal; z_short := s2b "L"%string; z_long := s2b "Local"%string; z_lat := 0; z_lon := 0; z_min := 0 |}.

(* areaLocationToTimezoneType *)
Definition names_utc : list bytes := Eval cbv in map s2b [""; "Etc/UTC"; "Z"; "Zero"]%string.
Definition names_utc_preserve : list bytes :=
  Eval cbv in map s2b ["Etc/GMT"; "Etc/GMT+0"; "Etc/GMT-0"; "Etc/GMT0"; "Etc/Greenwich"; "Etc/UCT"; "Etc/Universal";
                       "Etc/Zulu"; "Factory"; "GMT"; "GMT+0"; "GMT-0"; "GMT0"; "Greenwich"; "UCT"; "Universal"; "UTC"; "Zulu"]%string.
Definition names_local : list bytes := Eval cbv in map s2b ["L"; "Local"]%string.
(* shortAreaToArea / areaToShortArea (the same thirteen pairs in both directions) *)
Definition area_pairs : list (bytes * bytes) :=
  Eval cbv in map (fun p => (s2b (fst p), s2b (snd p)))
    [("F", "Africa"); ("M", "America"); ("N", "Antarctica"); ("R", "Arctic"); ("S", "Asia"); ("T", "Atlantic");
     ("U", "Australia"); ("C", "Etc"); ("E", "Europe"); ("I", "Indian"); ("P", "Pacific"); ("L", "Local"); ("Z", "Zero")]%string.
Fixpoint lookup_long (short : bytes) (l : list (bytes * bytes)) : option bytes :=
  match l with [] => None | (s, a) :: r => if bytes_eqb s short then Some a else lookup_long short r end.
Fixpoint lookup_short (area : bytes) (l : list (bytes * bytes)) : option bytes :=
  match l with [] => None | (s, a) :: r => if bytes_eqb a area then Some s else lookup_short area r end.
Definition mem_name (x : bytes) (l : list bytes) : bool := existsb (bytes_eqb x) l.

(* strings.SplitN(s, "/", 2) *)
Fixpoint split_slash (s : bytes) : option (bytes * bytes) :=
  match s with
  | [] => None
  | c :: r => if c =? 47 then Some ([], r)
              else match split_slash r with Some (a, l) => Some (c :: a, l) | None => None end
  end.

(* splitAreaLocation: (short, long) *)
Definition split_area_location (name : bytes) : bytes * bytes :=
  match split_slash name with
  | Some (area, loc) =>
      if (length area =? 1)%nat then
        (name, match lookup_long area area_pairs with Some la => la ++ 47 :: loc | None => name end)
      else
        (match lookup_short area area_pairs with Some sa => sa ++ 47 :: loc | None => name end, name)
  | None => (name, name)
  end.

(* Timezone.InitWithAreaLocation on a zero Timezone (TZAtAreaLocation, decodeTimezone) *)
Definition tz_at_area (name : bytes) : gzone :=
  if mem_name name names_utc then tz_utc
  else if mem_name name names_local then tz_local
  else if mem_name name names_utc_preserve then
    {| z_kind := ZUTC; z_short := [90]; z_long := name; z_lat := 0; z_lon := 0; z_min := 0 |}
  else let '(s, l) := split_area_location name in
    {| z_kind := ZArea; z_short := s; z_long := l; z_lat := 0; z_lon := 0; z_min := 0 |}.
(* InitWithLatLong / InitWithMinutesOffsetFromUTC on a zero Timezone: int16(...) *)
Definition tz_at_latlong (lat lon : Z) : gzone :=
  {| z_kind := ZLatLong; z_short := []; z_long := []; z_lat := i16 lat; z_lon := i16 lon; z_min := 0 |}.
Definition tz_with_minutes (m : Z) : gzone :=
  if (i16 m =? 0)%Z then tz_utc
  else {| z_kind := ZOffset; z_short := []; z_long := []; z_lat := 0; z_lon := 0; z_min := i16 m |}.

(* NewDate / NewTime / NewTimestamp: uint8(...) / uint32(...) of int arguments (here non-negative) *)
Definition date_zone : gzone := {| z_kind := ZLocal; z_short := []; z_long := []; z_lat := 0; z_lon := 0; z_min := 0 |}.
Definition new_date (y : Z) (m d : N) : gtime :=
  {| g_kind := KDate; g_year := y; g_month := u8 m; g_day := u8 d; g_hour := 0; g_minute := 0; g_second := 0;
     g_nano := 0; g_zone := date_zone |}.
Definition new_time (h mi s ns : N) (z : gzone) : gtime :=
  {| g_kind := KTime; g_year := 0; g_month := 0; g_day := 0; g_hour := u8 h; g_minute := u8 mi; g_second := u8 s;
     g_nano := u32 ns; g_zone := z |}.
Definition new_timestamp (y : Z) (m d h mi s ns : N) (z : gzone) : gtime :=
  {| g_kind := KTimestamp; g_year := y; g_month := u8 m; g_day := u8 d; g_hour := u8 h; g_minute := u8 mi;
     g_second := u8 s; g_nano := u32 ns; g_zone := z |}.
(* ZeroDate / ZeroTime / ZeroTimestamp: Time{Type: ...} *)
Definition zero_time (k : tkind) : gtime :=
  {| g_kind := k; g_year := 0; g_month := 0; g_day := 0; g_hour := 0; g_minute := 0; g_second := 0; g_nano := 0; g_zone := zone0 |}.
(* IsZeroValue *)
Definition is_zero (t : gtime) : bool := tzkind_eqb (z_kind (g_zone t)) ZUnset.

(* ------------------------------------------------------------------ *)
(** * 3. Validate (time.go) and validateTime (cbe/decoder_reader.go) *)

Definition day_max (m : N) : N :=          (* dayMax[month], month 1..12 *)
  if m =? 2 then 29 else if (m =? 4) || (m =? 6) || (m =? 9) || (m =? 11) then 30 else 31.
Definition zone_validate (z : gzone) : bool :=
  match z_kind z with
  | ZArea => (1 <=? length (z_long z))%nat && (length (z_long z) <=? 127)%nat
  | ZLatLong => ((-18000 <=? z_lon z) && (z_lon z <=? 18000) && (-9000 <=? z_lat z) && (z_lat z <=? 9000))%Z
  | ZOffset => ((-1439 <=? z_min z) && (z_min z <=? 1439))%Z
  | _ => true
  end.
Definition date_validate (t : gtime) : bool :=
  negb (g_year t =? 0)%Z && (1 <=? g_month t) && (g_month t <=? 12) && (1 <=? g_day t) && (g_day t <=? day_max (g_month t)).
Definition clock_validate (t : gtime) : bool :=
  (g_hour t <=? 23) && (g_minute t <=? 59) && (g_second t <=? 60) && (g_nano t <=? 999999999) && zone_validate (g_zone t).
Definition ct_validate (t : gtime) : bool :=
  match g_kind t with
  | KDate => date_validate t
  | KTime => clock_validate t
  | KTimestamp => date_validate t && clock_validate t
  end.

(* the character class of validateTime: [A-Z] first, then [A-Za-z0-9_\-./+] *)
Definition is_upper (c : N) : bool := (65 <=? c) && (c <=? 90).
Definition is_area_next (c : N) : bool :=
  is_upper c || ((97 <=? c) && (c <=? 122)) || ((48 <=? c) && (c <=? 57)) ||
  (c =? 95) || (c =? 45) || (c =? 46) || (c =? 47) || (c =? 43).
Definition area_chars_ok (name : bytes) : bool :=
  match name with
  | [] => true
  | c :: r => is_upper c && forallb is_area_next r
  end.
Definition cbe_validate_time (t : gtime) : bool :=
  if is_zero t then true
  else ct_validate t &&
       match z_kind (g_zone t) with ZArea => area_chars_ok (z_long (g_zone t)) | _ => true end.

(* ------------------------------------------------------------------ *)
(** * 4. Encoder (go-compact-time encoder.go, cbe/encoder.go OnTime) *)

(* encodeZigzag32(value int32) = uint32((value >> 31) ^ (value << 1)), the shift left wrapping in int32 *)
Definition zigzag32 (v : Z) : N := twos 32 (Z.lxor (Z.shiftr v 31) (i32 (Z.shiftl v 1))).
(* encodeYear(year int) = encodeZigzag32(int32(year) - yearBias), the subtraction in int32 *)
Definition encoded_year (year : Z) : N := zigzag32 (i32 (i32 year - 2000)).

(* getSubsecondMagnitude *)
Definition magnitude (ns : N) : N :=
  if ns =? 0 then 0 else if negb (ns mod 1000 =? 0) then 3 else if negb (ns mod 1000000 =? 0) then 2 else 1.
(* subsecMultipliers, baseByteCountsTime, baseByteCountsTimestamp, yearLowBitCountsTimestamp, reservedBitsTime *)
Definition sub_mult (mag : N) : N := match mag with 0 => 1 | 1 => 1000000 | 2 => 1000 | _ => 1 end.
Definition base_bytes_time (mag : N) : nat := match mag with 0 => 3%nat | 1 => 4%nat | 2 => 5%nat | _ => 7%nat end.
Definition base_bytes_ts (mag : N) : nat := match mag with 0 => 4%nat | 1 => 5%nat | 2 => 7%nat | _ => 8%nat end.
Definition year_low_bits_ts (mag : N) : N := match mag with 0 => 3 | 1 => 1 | 2 => 7 | _ => 5 end.
Definition reserved_time (mag : N) : N := match mag with 0 => 15 | 1 => 3 | 2 => 0 | _ => 63 end.
Definition ones64 : N := 18446744073709551615.

(* encodeDate(year, month, day) *)
Definition encode_date (year : Z) (month day : N) : bytes :=
  let ey := encoded_year year in
  let acc := u16 (N.land ey 127) in
  let acc := pack16 acc 4 (u16 month) in
  let acc := pack16 acc 5 (u16 day) in
  le_encode 2 acc ++ uleb_encode (N.shiftr ey 7).

(* the common tail of encodeTime / encodeTimestamp: second, subsecond, magnitude, time-zone bit *)
Definition pack_clock (acc hour minute second ns : N) (utc : bool) : N :=
  let mag := magnitude ns in
  let sub := ns / sub_mult mag in
  let acc := pack64 acc 5 hour in
  let acc := pack64 acc 6 minute in
  let acc := pack64 acc 6 second in
  let acc := pack64 acc (10 * mag) sub in
  let acc := pack64 acc 2 mag in
  let acc := u64 (N.shiftl acc 1) in
  if utc then acc else N.lor acc 1.

(* encodeTime(hour, minute, second, nanosecond, isZeroTS) *)
Definition encode_time_fields (hour minute second ns : N) (utc : bool) : bytes :=
  le_encode (base_bytes_time (magnitude ns)) (pack_clock ones64 hour minute second ns utc).

(* encodeTimestamp(year, month, day, hour, minute, second, nanosecond, isZeroTS) *)
Definition encode_timestamp_fields (year : Z) (month day hour minute second ns : N) (utc : bool) : bytes :=
  let mag := magnitude ns in
  let ey := encoded_year year in
  let acc := ey in
  let acc := pack64 acc 4 month in
  let acc := pack64 acc 5 day in
  le_encode (base_bytes_ts mag) (pack_clock acc hour minute second ns utc)
  ++ uleb_encode (N.shiftr ey (year_low_bits_ts mag)).

(* encodeTimezoneAreaLoc: byte(len << 1), then the string *)
Definition encode_zone_area (short : bytes) : bytes := u8 (N.shiftl (N.of_nat (length short)) 1) :: short.
(* encodeTimezoneLatLong: uint32(((lon & 0xffff) << 16) | ((lat & 0x7fff) << 1) | 1) *)
Definition encode_zone_latlong (lat lon : Z) : bytes :=
  le_encode 4 (u32 (N.lor (N.lor (N.shiftl (twos 16 lon) 16) (N.shiftl (twos 15 lat) 1)) 1)).
(* encodeTimezoneUTCOffset: encodeLE(uint64(minutes) << 8, 3) *)
Definition encode_zone_offset (minutes : Z) : bytes := le_encode 3 (u64 (N.shiftl (twos 64 minutes) 8)).

(* Time.encodeTimezone *)
Definition encode_zone (z : gzone) : bytes :=
  match z_kind z with
  | ZUTC => []
  | ZArea | ZLocal => encode_zone_area (z_short z)
  | ZLatLong => encode_zone_latlong (z_lat z) (z_lon z)
  | ZOffset => encode_zone_offset (z_min z)
  | ZUnset => []            (* unreachable: the zero value is handled before (Go would panic) *)
  end.

(* Time.EncodeToBytes on a value that is not the zero value *)
Definition ct_encode (t : gtime) : bytes :=
  let utc := tzkind_eqb (z_kind (g_zone t)) ZUTC in
  match g_kind t with
  | KDate => encode_date (g_year t) (g_month t) (g_day t)
  | KTime => encode_time_fields (g_hour t) (g_minute t) (g_second t) (g_nano t) utc
             ++ (if utc then [] else encode_zone (g_zone t))
  | KTimestamp => encode_timestamp_fields (g_year t) (g_month t) (g_day t) (g_hour t) (g_minute t) (g_second t) (g_nano t) utc
                  ++ (if utc then [] else encode_zone (g_zone t))
  end.

Definition time_code (k : tkind) : N :=
  match k with KDate => cbeTypeDate | KTime => cbeTypeTime | KTimestamp => cbeTypeTimestamp end.

(* Encoder.OnTime: the zero value is written as null *)
Definition cbe_encode_time (t : gtime) : bytes :=
  if is_zero t then [cbeTypeNull] else time_code (g_kind t) :: ct_encode t.

(* ------------------------------------------------------------------ *)
(** * 5. Decoder (go-compact-time decoder.go, cbe/decoder_reader.go) *)

(* reader.Read / fillSlice of exactly n bytes; None: the input ends first *)
Definition take (n : nat) (b : bytes) : option (bytes * bytes) :=
  if (n <=? length b)%nat then Some (firstn n b, skipn n b) else None.

(* decodeZigzag32(value uint32) = int32((value >> 1) ^ -(value & 1)) *)
Definition unzigzag32 (v : N) : Z :=
  i32 (Z.of_N (N.lxor (N.shiftr v 1) (if N.odd v then 4294967295 else 0))).
(* decodeYear *)
Definition decode_year (ey : N) : Z := (unzigzag32 (u32 ey) + 2000)%Z.

(* the year: ULEB128 upper bits, joined with the low bits left in the accumulator;
   "Year is too big" when the ULEB128 value is a big.Int, the year has more than 32 bits or the
   group count is too high *)
Definition decode_year_tail (low_bits acc : N) (b : bytes) : option (Z * bytes) :=
  match uleb_decode_u64 b with
  | None => None
  | Some (v, rest) =>
      let ey := u64 (N.lor (u64 (N.shiftl v low_bits)) acc) in
      if (4294967295 <? ey) || (64 <? N.of_nat (uleb_span b) * 7 + low_bits) then None
      else Some (decode_year ey, rest)
  end.

(* DecodeDateWithBuffer *)
Definition ct_decode_date (b : bytes) : option (gtime * bytes) :=
  match take 2 b with
  | None => None
  | Some (fixed, r) =>
      let acc := le_decode fixed in
      let day := low_bits 5 acc in
      let acc := N.shiftr acc 5 in
      let month := low_bits 4 acc in
      let acc := N.shiftr acc 4 in
      match decode_year_tail 7 acc r with
      | None => None
      | Some (year, rest) =>
          if (year =? 2000)%Z && (month =? 0) && (day =? 0) then Some (zero_time KDate, rest)
          else Some (new_date year month day, rest)
      end
  end.

(* decodeTimezone *)
Definition ct_decode_zone (b : bytes) : option (gzone * bytes) :=
  match b with
  | [] => None
  | hd :: r =>
      if N.odd hd then
        match take 4 b with
        | None => None
        | Some (f, rest) =>
            let v := le_decode f in
            let lon := (i32 (Z.of_N v) / 65536)%Z in                       (* int32(latLong) >> 16 *)
            let lat := (i32 (Z.of_N (u32 (N.shiftl v 16))) / 131072)%Z in  (* int32(latLong << 16) >> 17 *)
            Some (tz_at_latlong lat lon, rest)
        end
      else
        let slen := N.shiftr hd 1 in
        if slen =? 0 then
          match take 2 r with
          | None => None
          | Some (f, rest) =>
              let raw := le_decode f in
              let m := if negb (N.land raw 2048 =? 0) then i16 (Z.of_N (N.lor raw 61440))
                       else i16 (Z.of_N (N.land raw 4095)) in
              Some (tz_with_minutes m, rest)
          end
        else
          match take (N.to_nat slen) r with
          | None => None
          | Some (s, rest) =>
              if bytes_eqb s [76] then Some (tz_local, rest)
              else if bytes_eqb s [90] then Some (tz_utc, rest)
              else Some (tz_at_area s, rest)
          end
  end.

(* what DecodeTime / DecodeTimestamp peel off the fixed part: (has time zone, nanosecond, second, minute, hour, rest of the accumulator) *)
Definition unpack_clock (mag acc : N) : bool * N * N * N * N * N :=
  let tz := N.odd acc in
  let acc := N.shiftr acc 1 in
  let acc := N.shiftr acc 2 in
  let ns := low_bits (10 * mag) acc * sub_mult mag in
  let acc := N.shiftr acc (10 * mag) in
  let second := low_bits 6 acc in
  let acc := N.shiftr acc 6 in
  let minute := low_bits 6 acc in
  let acc := N.shiftr acc 6 in
  let hour := low_bits 5 acc in
  let acc := N.shiftr acc 5 in
  (tz, ns, second, minute, hour, acc).

(* DecodeTimeWithBuffer *)
Definition ct_decode_time (b : bytes) : option (gtime * bytes) :=
  match b with
  | [] => None
  | hd :: _ =>
      let mag := low_bits 2 (N.shiftr hd 1) in
      match take (base_bytes_time mag) b with
      | None => None
      | Some (fixed, r) =>
          let '(tz, ns, second, minute, hour, acc) := unpack_clock mag (le_decode fixed) in
          if negb (acc =? reserved_time mag) then
            (if acc =? 0 then Some (zero_time KTime, r) else None)
          else if negb tz then Some (new_time hour minute second ns tz_utc, r)
          else match ct_decode_zone r with
               | None => None
               | Some (z, rest) => Some (new_time hour minute second ns z, rest)
               end
      end
  end.

(* DecodeTimestampWithBuffer *)
Definition ct_decode_timestamp (b : bytes) : option (gtime * bytes) :=
  match b with
  | [] => None
  | hd :: _ =>
      let mag := low_bits 2 (N.shiftr hd 1) in
      match take (base_bytes_ts mag) b with
      | None => None
      | Some (fixed, r) =>
          let '(tz, ns, second, minute, hour, acc) := unpack_clock mag (le_decode fixed) in
          let day := low_bits 5 acc in
          let acc := N.shiftr acc 5 in
          let month := low_bits 4 acc in
          let acc := N.shiftr acc 4 in
          match decode_year_tail (year_low_bits_ts mag) acc r with
          | None => None
          | Some (year, r2) =>
              if negb tz then
                if (year =? 2000)%Z && (month =? 0) && (day =? 0) then Some (zero_time KTimestamp, r2)
                else Some (new_timestamp year month day hour minute second ns tz_utc, r2)
              else match ct_decode_zone r2 with
                   | None => None
                   | Some (z, rest) => Some (new_timestamp year month day hour minute second ns z, rest)
                   end
          end
      end
  end.

Definition ct_decode (k : tkind) (b : bytes) : option (gtime * bytes) :=
  match k with KDate => ct_decode_date b | KTime => ct_decode_time b | KTimestamp => ct_decode_timestamp b end.

(* Reader.ReadDate / ReadTime / ReadTimestamp: decode, then validateTime *)
Definition cbe_read_time (k : tkind) (b : bytes) : option (gtime * bytes) :=
  match ct_decode k b with
  | Some (t, rest) => if cbe_validate_time t then Some (t, rest) else None
  | None => None
  end.

Definition kind_of_code (c : N) : option tkind :=
  if c =? cbeTypeDate then Some KDate else if c =? cbeTypeTime then Some KTime
  else if c =? cbeTypeTimestamp then Some KTimestamp else None.

(* the decoder on a type byte followed by its payload: the time delivered to OnTime and the bytes
   left; None: an error (or not one of the three time type codes) *)
Definition cbe_decode_time (b : bytes) : option (gtime * bytes) :=
  match b with
  | c :: r => match kind_of_code c with Some k => cbe_read_time k r | None => None end
  | [] => None
  end.

(* ------------------------------------------------------------------ *)
(** * 6. What the round trip preserves *)

(* The decoder rebuilds the value with the library's constructors: fields the type does not use
   are zero, a date carries the bare Local zone of InitDate, a UTC zone is the library's UTC value
   whatever long name it carried (TZAtAreaLocation("Etc/GMT") keeps the name; it is not written),
   zone fields the kind does not use are zero / empty, an offset of 0 minutes is UTC. *)
Definition canon_zone (z : gzone) : gzone :=
  match z_kind z with
  | ZUnset => z
  | ZUTC => tz_utc
  | ZLocal => tz_local
  | ZArea => {| z_kind := ZArea; z_short := z_short z; z_long := z_long z; z_lat := 0; z_lon := 0; z_min := 0 |}
  | ZLatLong => {| z_kind := ZLatLong; z_short := []; z_long := []; z_lat := z_lat z; z_lon := z_lon z; z_min := 0 |}
  | ZOffset => if (z_min z =? 0)%Z then tz_utc
               else {| z_kind := ZOffset; z_short := []; z_long := []; z_lat := 0; z_lon := 0; z_min := z_min z |}
  end.
Definition canon (t : gtime) : gtime :=
  match g_kind t with
  | KDate => {| g_kind := KDate; g_year := g_year t; g_month := g_month t; g_day := g_day t; g_hour := 0; g_minute := 0;
                g_second := 0; g_nano := 0; g_zone := date_zone |}
  | KTime => {| g_kind := KTime; g_year := 0; g_month := 0; g_day := 0; g_hour := g_hour t; g_minute := g_minute t;
                g_second := g_second t; g_nano := g_nano t; g_zone := canon_zone (g_zone t) |}
  | KTimestamp => {| g_kind := KTimestamp; g_year := g_year t; g_month := g_month t; g_day := g_day t; g_hour := g_hour t;
                     g_minute := g_minute t; g_second := g_second t; g_nano := g_nano t; g_zone := canon_zone (g_zone t) |}
  end.

(* the zone is one the library's constructors build (the strings of an area zone belong together,
   a Local zone is the library's) and the area string fits the length byte *)
Definition zone_consistent (z : gzone) : bool :=
  match z_kind z with
  | ZLocal => bytes_eqb (z_short z) [76]
  | ZArea => gzone_eqb (tz_at_area (z_short z))
               {| z_kind := ZArea; z_short := z_short z; z_long := z_long z; z_lat := 0; z_lon := 0; z_min := 0 |}
             && (length (z_short z) <=? 127)%nat && len_ok (z_short z)
  | _ => true
  end.
(* the year survives int32(year) - 2000 *)
Definition year_ok (y : Z) : bool := ((-2147481648 <=? y) && (y <=? 2147485647))%Z.

(* the times the round trip is proved for: not the zero value, accepted by validateTime, and (for
   the kinds that carry them) a consistent zone and a year inside the 32-bit window *)
Definition time_ok (t : gtime) : bool :=
  negb (is_zero t) && cbe_validate_time t &&
  match g_kind t with
  | KDate => year_ok (g_year t)
  | KTime => zone_consistent (g_zone t)
  | KTimestamp => year_ok (g_year t) && zone_consistent (g_zone t)
  end.

(* ------------------------------------------------------------------ *)
(** * 7. Correspondence cases (written by `vh run C01`, c01_time.go) *)

Inductive cbetime_case :=
(* a Time value handed to the CBE encoder: the bytes it wrote for the value (None: it panicked),
   and what the CBE decoder made of those bytes (None: rejected) with the number of bytes it took *)
| CtEnc (t : gtime) (wrote : option bytes) (decoded : option (gtime * N))
(* bytes (type code + payload + whatever follows) given to the decoder: the time delivered and
   the number of bytes consumed up to then; None: rejected before a time was delivered *)
| CtDec (b : bytes) (decoded : option (gtime * N)).

Definition decoded_eqb (a b : option (gtime * N)) : bool :=
  match a, b with
  | Some (x, n), Some (y, m) => gtime_eqb x y && (n =? m)
  | None, None => true
  | _, _ => false
  end.
Definition decode_obs (b : bytes) : option (gtime * N) :=
  match cbe_decode_time b with
  | Some (t, rest) => Some (t, N.of_nat (length b - length rest))
  | None => None
  end.

Definition cbetime_case_ok (c : cbetime_case) : bool :=
  match c with
  | CtEnc t wrote decoded =>
      match wrote with
      | Some w => bytes_eqb (cbe_encode_time t) w &&
                  (if is_zero t then true else decoded_eqb (decode_obs w) decoded)
      | None => false         (* the model has no panicking encoder path for the three time kinds *)
      end
  | CtDec b decoded => decoded_eqb (decode_obs b) decoded
  end.
