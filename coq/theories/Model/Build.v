(* The untyped builder: what ce.UnmarshalFrom*Document(doc, nil, cfg) builds
   from the events that reach builder.BuilderEventReceiver, and what the
   iterator makes of the result when it is marshaled again.

   Read from builder/builder_event_rcv.go (receiver, chunk reassembly via
   context.go BeginArray/BeginArrayChunk/AddArrayData), builder_top_level.go,
   builder_interface.go (value conversion), builder_slice.go / builder_map.go
   instantiated at []interface{} / map[interface{}]interface{}, builder_node.go,
   builder_edge.go, builder_marker.go, reference_filler.go, builder_record.go,
   builder_record_type.go, context.go (stack, record types, ArtificiallyTerminate)
   and iterator/iterators.go + iterator_root.go (default configuration: no
   recursion support, no record types).  Executable definitions only.

   The model is a stack machine with one frame per builder on
   Context.builderStack.  Go values that are shared by reference are modelled
   as follows:
   - a slice under construction is only handed out at its end, so a finished
     []interface{} is an immutable list, except for the placeholders left by
     forward references: [UHole h], filled everywhere at once when the marker
     arrives (the copies of a slice header share the backing array);
   - a map is shared by reference: every map carries an identity [id] and a
     late write (forward reference in value position) is applied to every copy;
   - pointer values (*big.Int, *big.Float, *apd.Decimal, *url.URL) carry an
     identity [ptr] because Go compares map keys of pointer type by address;
   - types.Node is a struct copied by value: whoever stores a node takes a
     snapshot ([snap]); the marker table, the receiver's result slot and the
     pending components of an edge keep a reference to the builder's own node.

   External libraries are parameters of the model (Section variables):
   [url_conv] = net/url Parse followed by String, [time_conv] = compact_time
   AsGoTime followed by AsCompactTime.  The case checker instantiates them with
   the finite tables observed on the implementation. *)
From CE Require Export Model.Events Model.Arrays Gen.RulesConsts.
Open Scope N_scope.

(* ------------------------------------------------------------------ *)
(* Values an interface{} destination can receive                        *)
(* ------------------------------------------------------------------ *)

Inductive uval :=
| UNil
| UBool (b : bool)
| UInt (z : Z)                                  (* int64 *)
| UUint (n : N)                                 (* uint64 *)
| UBigInt (ptr : N) (v : option Z)              (* *big.Int; None = nil pointer *)
| UFloat (bits : N)                             (* float64 *)
| UBigFloat (ptr : N) (v : option bigfloat)     (* *big.Float *)
| UDec (d : dfloat)                             (* compact_float.DFloat *)
| UBigDec (ptr : N) (v : option dfloat)         (* *apd.Decimal *)
| UStr (s : bytes)
| UBytes (b : bytes)                            (* []byte *)
| UTyped (t : arrty) (elems : list N)           (* []uint16 ... []float64; t = array type of the Go element type *)
| URid (ptr : N) (out : bytes)                  (* *url.URL, by its String() *)
| UUid (b : bytes)                              (* types.UID *)
| UMedia (mt data : bytes)                      (* types.Media *)
| UTime (ident out : bytes)                     (* time.Time: equality class, and AsCompactTime(..).String() *)
| UCTime (s : bytes)                            (* compact_time.Time (no Go equivalent) *)
| UList (l : list uval)                         (* []interface{} *)
| UMap (id : N) (kvs : list (uval * uval))      (* map[interface{}]interface{}, insertion order *)
| UNode (v : uval) (ch : list uval)             (* types.Node *)
| UEdge (a b c : uval)                          (* types.Edge *)
| UHole (h : N).                                (* element slot awaiting a forward reference (nil until filled) *)

(* replace the placeholder [h] *)
Fixpoint subst (h : N) (x : uval) (v : uval) : uval :=
  match v with
  | UHole k => if k =? h then x else v
  | UList l => UList (map (subst h x) l)
  | UMap id kvs => UMap id (map (fun '(a, b) => (subst h x a, subst h x b)) kvs)
  | UNode a ch => UNode (subst h x a) (map (subst h x) ch)
  | UEdge a b c => UEdge (subst h x a) (subst h x b) (subst h x c)
  | _ => v
  end.

(* remaining placeholders read as nil *)
Fixpoint dehole (v : uval) : uval :=
  match v with
  | UHole _ => UNil
  | UList l => UList (map dehole l)
  | UMap id kvs => UMap id (map (fun '(a, b) => (dehole a, dehole b)) kvs)
  | UNode a ch => UNode (dehole a) (map dehole ch)
  | UEdge a b c => UEdge (dehole a) (dehole b) (dehole c)
  | _ => v
  end.

(* copying a value out of the builder that owns it: the Value field of a node
   that still waits for a forward reference is nil in the copy *)
Definition snap (v : uval) : uval :=
  match v with
  | UNode (UHole _) ch => UNode UNil ch
  | _ => v
  end.

(* ---- Go equality of interface{} map keys ---- *)
Definition f64_is_zero (b : N) : bool := (b =? 0) || (b =? 9223372036854775808).
Definition float_key_eqb (a b : N) : bool :=
  if f64_is_nan a || f64_is_nan b then false
  else if f64_is_zero a && f64_is_zero b then true
  else a =? b.

(* reflect.Value.SetMapIndex panics on keys whose dynamic type is not hashable *)
Fixpoint hashable (v : uval) : bool :=
  match v with
  | UBytes _ | UTyped _ _ | UList _ | UMap _ _ | UNode _ _ | UMedia _ _ => false
  | UEdge a b c => hashable a && hashable b && hashable c
  | _ => true
  end.

Fixpoint key_eqb (a b : uval) : bool :=
  match a, b with
  | UNil, UNil | UNil, UHole _ | UHole _, UNil | UHole _, UHole _ => true
  | UBool x, UBool y => Bool.eqb x y
  | UInt x, UInt y => (x =? y)%Z
  | UUint x, UUint y => x =? y
  | UFloat x, UFloat y => float_key_eqb x y
  | UDec x, UDec y => dfloat_eqb x y
  | UStr x, UStr y | UUid x, UUid y | UCTime x, UCTime y => bytes_eqb x y
  | UTime i1 _, UTime i2 _ => bytes_eqb i1 i2
  | UBigInt p _, UBigInt q _ | UBigFloat p _, UBigFloat q _ | UBigDec p _, UBigDec q _
  | URid p _, URid q _ => p =? q
  | UEdge a1 b1 c1, UEdge a2 b2 c2 => key_eqb a1 a2 && key_eqb b1 b2 && key_eqb c1 c2
  | _, _ => false
  end.

(* m[k] = x *)
Fixpoint assoc_set (k x : uval) (kvs : list (uval * uval)) : list (uval * uval) :=
  match kvs with
  | [] => [(k, x)]
  | (k', x') :: r => if key_eqb k' k then (k', x) :: r else (k', x') :: assoc_set k x r
  end.

(* m[k] = x on every copy of the map with identity [mid] *)
Fixpoint vmapset (mid : N) (k x : uval) (v : uval) : uval :=
  match v with
  | UList l => UList (map (vmapset mid k x) l)
  | UMap id kvs =>
      let kvs' := map (fun '(a, b) => (vmapset mid k x a, vmapset mid k x b)) kvs in
      UMap id (if id =? mid then assoc_set k x kvs' else kvs')
  | UNode a ch => UNode (vmapset mid k x a) (map (vmapset mid k x) ch)
  | UEdge a b c => UEdge (vmapset mid k x a) (vmapset mid k x b) (vmapset mid k x c)
  | _ => v
  end.

(* ------------------------------------------------------------------ *)
(* What a data event delivers                                           *)
(* ------------------------------------------------------------------ *)

Inductive scalar :=
| SNull | SBool (b : bool) | SInt (z : Z) | SUint (n : N) | SBigInt (v : option Z)
| SFloat (bits : N) | SBigFloat (v : option bigfloat) | SDec (d : dfloat) | SBigDec (v : option dfloat)
| SUid (b : bytes) | SArr (t : arrty) (data : bytes) | SStr (t : arrty) (data : bytes)
| SCustomBin (ct : N) (data : bytes) | SCustomText (ct : N) (data : bytes)
| SMedia (mt data : bytes) | STime (s : bytes).

Definition quiet_nan_bits : N := 9222246136947933184.       (* 0x7ffc000000000000 *)
Definition signaling_nan_bits : N := 9219994337134247936.   (* 0x7ff4000000000000 *)
Definition max_int64 : N := 9223372036854775807.
Definition two64 : N := 18446744073709551616.

(* BuilderEventReceiver.OnNegativeInt: "negZero" is the constant expression
   -float64(0), which Go evaluates exactly: it is +0.  Magnitudes beyond int64
   go through big.Int.SetUint64, which is non-negative. *)
Definition negint_scalar (n : N) : scalar :=
  if n =? 0 then SFloat 0
  else if n <=? max_int64 then SInt (- Z.of_N n)
  else SBigInt (Some (Z.of_N n)).

Section Lib.
  (* url.Parse(text): None = error; Some s = (*url.URL).String() of the result *)
  Variable url_conv : bytes -> option bytes.
  (* compact_time.Time.AsGoTime: None = error (the compact time itself is stored);
     Some (ident, out): ident identifies the time.Time value up to Go's ==,
     out = compact_time.AsCompactTime(goTime).String() *)
  Variable time_conv : bytes -> option (bytes * bytes).

  Definition rid_value (p : N) (text : bytes) : option uval :=
    match url_conv text with Some out => Some (URid p out) | None => None end.

  (* interfaceBuilder.BuildFromXxx; [p] is a fresh pointer identity.  None = panic. *)
  Definition conv (p : N) (s : scalar) : option uval :=
    match s with
    | SNull => Some UNil
    | SBool b => Some (UBool b)
    | SInt z => Some (UInt z)
    | SUint n => Some (UUint n)
    | SBigInt v => Some (UBigInt (match v with Some _ => p | None => 0 end) v)
    | SFloat b => Some (UFloat b)
    | SBigFloat v => Some (UBigFloat (match v with Some _ => p | None => 0 end) v)
    | SDec d => Some (UDec d)
    | SBigDec v => Some (UBigDec (match v with Some _ => p | None => 0 end) v)
    | SUid b => if (length b =? 16)%nat then Some (UUid b) else None
    | SArr t data =>
        if t =? AT_Uint8 then Some (UBytes data)
        else if t =? AT_Uint16 then Some (UTyped AT_Uint16 (bytes_to_slice 2 data))
        else if t =? AT_Uint32 then Some (UTyped AT_Uint32 (bytes_to_slice 4 data))
        else if t =? AT_Uint64 then Some (UTyped AT_Uint64 (bytes_to_slice 8 data))
        else if t =? AT_Int8 then Some (UTyped AT_Int8 (bytes_to_slice 1 data))
        else if t =? AT_Int16 then Some (UTyped AT_Int16 (bytes_to_slice 2 data))
        else if t =? AT_Int32 then Some (UTyped AT_Int32 (bytes_to_slice 4 data))
        else if t =? AT_Int64 then Some (UTyped AT_Int64 (bytes_to_slice 8 data))
        else if t =? AT_Float16 then Some (UTyped AT_Float32 (f16_bytes_to_slice data))
        else if t =? AT_Float32 then Some (UTyped AT_Float32 (bytes_to_slice 4 data))
        else if t =? AT_Float64 then Some (UTyped AT_Float64 (bytes_to_slice 8 data))
        else if t =? AT_String then Some (UStr data)
        else if t =? AT_ResourceID then rid_value p data
        else None                                   (* "TODO: Typed array support": bit, UID, remote reference ... *)
    | SStr t data =>
        if t =? AT_String then Some (UStr data)
        else if (t =? AT_ResourceID) || (t =? AT_ReferenceRemote) then rid_value p data
        else None
    | SCustomBin _ _ | SCustomText _ _ => None      (* default configuration: the build functions return an error *)
    | SMedia mt data => Some (UMedia mt data)
    | STime s => match time_conv s with Some (i, o) => Some (UTime i o) | None => Some (UCTime s) end
    end.

  (* ------------------------------------------------------------------ *)
  (* The machine                                                          *)
  (* ------------------------------------------------------------------ *)

  Inductive ckind := KList | KMap | KNode | KEdge.

  Inductive frame :=
  | FTop                                                       (* topLevelBuilder over the interface builder *)
  | FSlice (elems : list uval)                                 (* sliceBuilder for []interface{} *)
  | FMap (id : N) (kvs : list (uval * uval)) (key : option uval) (want_value : bool)
         (rec : option (list scalar * nat))                    (* mapBuilder; Some = wrapped in a recordBuilder *)
  | FNode (children_mode : bool) (value : uval)                (* nodeBuilder *)
  | FEdge (c0 c1 c2 : uval) (index : N)                        (* edgeBuilder *)
  | FMarker (id : bytes) (is_container : bool)                 (* markerObjectBuilder; its child is the frame below *)
  | FRecType.                                                  (* recordTypeBuilder *)

  Inductive topobj := TSlot (v : uval) | TDone (v : uval).
  Inductive setter := SFill (h : N) | SMapSet (mid : N) (key : option uval).
  Inductive cbkind := CBNone | CBArray (t : arrty) | CBMedia (mt : bytes) | CBCustom (t : arrty) (ct : N).

  Record mstate := MS {
    stack : list frame;                       (* head = Context.CurrentBuilder *)
    tobj : topobj;                            (* BuilderEventReceiver.object *)
    marked : list (bytes * uval);             (* ReferenceFiller.markedValues *)
    pending : list (bytes * setter);          (* unresolvedReferences, in registration order *)
    next : N;                                 (* fresh identities *)
    cdata : bytes; crem : N; cmore : bool; ccb : cbkind;     (* chunkedData, chunkRemainingLength, moreChunksFollow, callback *)
    rt_name : bytes;                          (* recordTypeName *)
    rt_back : list scalar; rt_len : nat; rt_cap : nat;       (* Context.recordType: backing array, len, cap *)
    rt_old : list (list scalar);              (* backing arrays abandoned by append *)
    rt_tab : list (bytes * (nat * nat));      (* recordTypes: name -> (backing array, len) *)
  }.

  Definition init_state : mstate :=
    MS [FTop] (TSlot UNil) [] [] 1 [] 0 false CBNone [] [] 0 0 [] [].

  Definition set_stack (st : mstate) (s : list frame) : mstate :=
    MS s (tobj st) (marked st) (pending st) (next st) (cdata st) (crem st) (cmore st) (ccb st)
       (rt_name st) (rt_back st) (rt_len st) (rt_cap st) (rt_old st) (rt_tab st).
  Definition set_tobj (st : mstate) (t : topobj) : mstate :=
    MS (stack st) t (marked st) (pending st) (next st) (cdata st) (crem st) (cmore st) (ccb st)
       (rt_name st) (rt_back st) (rt_len st) (rt_cap st) (rt_old st) (rt_tab st).
  Definition set_refs (st : mstate) (m : list (bytes * uval)) (p : list (bytes * setter)) : mstate :=
    MS (stack st) (tobj st) m p (next st) (cdata st) (crem st) (cmore st) (ccb st)
       (rt_name st) (rt_back st) (rt_len st) (rt_cap st) (rt_old st) (rt_tab st).
  Definition bump (st : mstate) : mstate :=
    MS (stack st) (tobj st) (marked st) (pending st) (next st + 1) (cdata st) (crem st) (cmore st) (ccb st)
       (rt_name st) (rt_back st) (rt_len st) (rt_cap st) (rt_old st) (rt_tab st).
  Definition set_chunk (st : mstate) (d : bytes) (r : N) (m : bool) (cb : cbkind) : mstate :=
    MS (stack st) (tobj st) (marked st) (pending st) (next st) d r m cb
       (rt_name st) (rt_back st) (rt_len st) (rt_cap st) (rt_old st) (rt_tab st).
  Definition set_rt (st : mstate) (name : bytes) (back : list scalar) (len cap : nat)
             (old : list (list scalar)) (tab : list (bytes * (nat * nat))) : mstate :=
    MS (stack st) (tobj st) (marked st) (pending st) (next st) (cdata st) (crem st) (cmore st) (ccb st)
       name back len cap old tab.

  (* a step either succeeds or panics; the state at the panic decides what
     ArtificiallyTerminate does afterwards *)
  Inductive res := ROk (st : mstate) | RPanic (st : mstate).
  Definition rbind (r : res) (f : mstate -> res) : res :=
    match r with ROk st => f st | RPanic st => RPanic st end.

  (* ---- state-wide updates (shared memory) ---- *)
  Definition frame_map (f : uval -> uval) (fr : frame) : frame :=
    match fr with
    | FSlice l => FSlice (map f l)
    | FMap id kvs key w rc => FMap id (map (fun '(a, b) => (f a, f b)) kvs) (option_map f key) w rc
    | FNode cm v => FNode cm (f v)
    | FEdge a b c i => FEdge (f a) (f b) (f c) i
    | _ => fr
    end.
  Definition topobj_map (f : uval -> uval) (t : topobj) : topobj :=
    match t with TSlot v => TSlot (f v) | TDone v => TDone (f v) end.
  Definition setter_map (f : uval -> uval) (s : setter) : setter :=
    match s with SMapSet m k => SMapSet m (option_map f k) | _ => s end.
  Definition state_map (f : uval -> uval) (st : mstate) : mstate :=
    set_refs (set_tobj (set_stack st (map (frame_map f) (stack st))) (topobj_map f (tobj st)))
             (map (fun '(i, v) => (i, f v)) (marked st))
             (map (fun '(i, s) => (i, setter_map f s)) (pending st)).

  (* container.SetMapIndex on the map [mid], which may still be under construction *)
  Definition frame_mapset (mid : N) (k x : uval) (fr : frame) : frame :=
    match frame_map (vmapset mid k x) fr with
    | FMap id kvs key w rc => FMap id (if id =? mid then assoc_set k x kvs else kvs) key w rc
    | fr' => fr'
    end.
  Definition state_mapset (mid : N) (k x : uval) (st : mstate) : mstate :=
    let st1 := state_map (vmapset mid k x) st in
    set_stack st1 (map (fun fr => match fr with
                                  | FMap id kvs key w rc => FMap id (if id =? mid then assoc_set k x kvs else kvs) key w rc
                                  | _ => fr end) (stack st1)).

  (* ---- ReferenceFiller ---- *)
  Fixpoint lookup_marked (id : bytes) (m : list (bytes * uval)) : option uval :=
    match m with
    | [] => None
    | (i, v) :: r => if bytes_eqb i id then Some v else lookup_marked id r
    end.

  Definition run_setter (s : setter) (v : uval) (st : mstate) : res :=
    match s with
    | SFill h => ROk (state_map (subst h (snap v)) st)
    | SMapSet _ None => RPanic st                        (* SetMapIndex with the zero Value as key *)
    | SMapSet mid (Some k) => if hashable k then ROk (state_mapset mid k (snap v) st) else RPanic st
    end.

  Fixpoint run_setters (ss : list setter) (id : bytes) (st : mstate) : res :=
    match ss with
    | [] => ROk st
    | s :: r =>
      match lookup_marked id (marked st) with
      | Some v => rbind (run_setter s v st) (run_setters r id)
      | None => RPanic st
      end
    end.

  (* NotifyMarker: record the value, run the setters waiting for it *)
  Definition notify_marker (id : bytes) (v : uval) (st : mstate) : res :=
    let mine := map snd (filter (fun '(i, _) => bytes_eqb i id) (pending st)) in
    let rest := filter (fun '(i, _) => negb (bytes_eqb i id)) (pending st) in
    run_setters mine id (set_refs st ((id, v) :: filter (fun '(i, _) => negb (bytes_eqb i id)) (marked st)) rest).

  (* ---- storing into a map builder ---- *)
  Definition map_store (x : uval) (id : N) (kvs : list (uval * uval)) (key : option uval) (w : bool)
             (rc : option (list scalar * nat)) : option frame :=
    if w then
      match key with
      | Some k => if hashable k then Some (FMap id (assoc_set k x kvs) key false rc) else None
      | None => None
      end
    else Some (FMap id kvs (Some x) true rc).

  (* recordBuilder.sendKey: replay the next key of the record type into the map builder *)
  Definition send_key (p : N) (fr : frame) : option frame :=
    match fr with
    | FMap id kvs key w (Some (keys, i)) =>
        match nth_error keys i with
        | Some sc =>
            match conv p sc with
            | Some kx => map_store kx id kvs key w (Some (keys, S i))
            | None => None
            end
        | None => None
        end
    | _ => Some fr
    end.

  Definition new_frame (k : ckind) (id : N) : frame :=
    match k with
    | KList => FSlice []
    | KMap => FMap id [] None false None
    | KNode => FNode false UNil
    | KEdge => FEdge UNil UNil UNil 0
    end.

  (* ---- NotifyChildContainerFinished on the current builder ---- *)
  Fixpoint done_to (fuel : nat) (v : uval) (st : mstate) : res :=
    match fuel, stack st with
    | S f, fr :: below =>
      match fr with
      | FTop => ROk (set_tobj st (TDone v))
      | FSlice l => ROk (set_stack st (FSlice (l ++ [snap v]) :: below))
      | FMap id kvs key w rc =>
          match map_store (snap v) id kvs key w rc with
          | Some fr' => ROk (set_stack st (fr' :: below))
          | None => RPanic st
          end
      | FNode true val =>
          match v with
          | UList ch => done_to f (UNode val ch) (set_stack st below)
          | _ => RPanic st
          end
      | FNode false _ => ROk (set_stack st (FSlice [] :: FNode true (snap v) :: below))
      | FEdge a b c i =>
          if i =? 0 then ROk (set_stack st (FEdge v b c 1 :: below))
          else if i =? 1 then ROk (set_stack st (FEdge a v c 2 :: below))
          else if i =? 2 then done_to f (UEdge (snap a) (snap b) (snap v)) (set_stack st below)
          else RPanic st
      | FMarker id isc =>
          if isc then rbind (notify_marker id v st)
                            (fun st1 => done_to f v (set_stack st1 (tl (stack st1))))
          else RPanic st
      | FRecType => RPanic st
      end
    | _, _ => RPanic st
    end.
  Definition notify_done (v : uval) (st : mstate) : res := done_to (length (stack st)) v st.

  (* ---- a value event reaching the frame [fr]; [above] are the markers it came through ---- *)
  Fixpoint recv_scalar (sc : scalar) (above : list frame) (fr : frame) (below : list frame) (st : mstate) : res :=
    let p := next st in
    let st := bump st in
    let here := set_stack st (above ++ fr :: below) in
    match fr with
    | FRecType =>
        match sc with
        | SNull | SCustomBin _ _ | SCustomText _ _ | SMedia _ _ => RPanic here
        | _ =>
          (* Context.AddRecordTypeKey: append to the shared backing array *)
          if (rt_len st <? rt_cap st)%nat then
            let back := firstn (rt_len st) (rt_back st) ++ sc :: skipn (S (rt_len st)) (rt_back st) in
            ROk (set_rt here (rt_name st) back (S (rt_len st)) (rt_cap st) (rt_old st) (rt_tab st))
          else
            let cap := match rt_cap st with O => 1%nat | c => (2 * c)%nat end in
            ROk (set_rt here (rt_name st) (firstn (rt_len st) (rt_back st) ++ [sc]) (S (rt_len st)) cap
                        (rt_old st ++ [rt_back st]) (rt_tab st))
        end
    | FMarker id isc =>
        match below with
        | child :: below' =>
            rbind (recv_scalar sc (above ++ [FMarker id isc]) child below' st)
                  (fun st1 =>
                     if isc then ROk st1
                     else match conv p sc with
                          | Some x => notify_marker id x (set_stack st1 (tl (stack st1)))
                          | None => RPanic st1
                          end)
        | [] => RPanic here
        end
    | _ =>
      match send_key p fr with
      | None => RPanic here
      | Some fr =>
        match conv p sc with
        | None => RPanic (set_stack st (above ++ fr :: below))
        | Some x =>
          match fr with
          | FTop =>
              match tobj st with
              | TSlot _ => ROk (set_tobj here (TSlot x))
              | TDone _ => RPanic here
              end
          | FSlice l => ROk (set_stack st (above ++ FSlice (l ++ [x]) :: below))
          | FMap id kvs key w rc =>
              match map_store x id kvs key w rc with
              | Some fr' => ROk (set_stack st (above ++ fr' :: below))
              | None => RPanic (set_stack st (above ++ fr :: below))
              end
          | FNode _ _ => ROk (set_stack st (FSlice [] :: above ++ FNode true x :: below))
          | FEdge a b c i =>
              if i =? 0 then ROk (set_stack st (above ++ FEdge x b c 1 :: below))
              else if i =? 1 then ROk (set_stack st (above ++ FEdge a x c 2 :: below))
              else if i =? 2 then
                match above with
                | [] => notify_done (UEdge (snap a) (snap b) x) (set_stack st below)
                | _ => RPanic (set_stack st (tl (above ++ FEdge a b x 3 :: below)))
                end
              else RPanic here
          | _ => RPanic here
          end
        end
      end
    end.

  Fixpoint recv_begin (k : ckind) (above : list frame) (fr : frame) (below : list frame) (st : mstate) : res :=
    let p := next st in
    let st := bump st in
    match fr with
    | FRecType => RPanic (set_stack st (above ++ fr :: below))
    | FMarker id _ =>
        match below with
        | child :: below' => recv_begin k (above ++ [FMarker id true]) child below' st
        | [] => RPanic (set_stack st (above ++ fr :: below))
        end
    | _ =>
      match send_key p fr with
      | None => RPanic (set_stack st (above ++ fr :: below))
      | Some fr => ROk (set_stack (bump st) (new_frame k (next st) :: above ++ fr :: below))
      end
    end.

  Fixpoint recv_end (above : list frame) (fr : frame) (below : list frame) (st : mstate) : res :=
    let here := set_stack st (above ++ fr :: below) in
    match fr with
    | FSlice l => notify_done (UList l) (set_stack st (tl (above ++ fr :: below)))
    | FMap id kvs _ _ _ => notify_done (UMap id kvs) (set_stack st (tl (above ++ fr :: below)))
    | FRecType =>
        (* Context.EndRecordType *)
        let gen := length (rt_old st) in
        let tab := (rt_name st, (gen, rt_len st)) :: filter (fun '(n, _) => negb (bytes_eqb n (rt_name st))) (rt_tab st) in
        ROk (set_rt (set_stack st (tl (above ++ fr :: below))) (rt_name st) (rt_back st) (rt_len st) (rt_cap st) (rt_old st) tab)
    | FMarker id isc =>
        match below with
        | child :: below' => recv_end (above ++ [FMarker id isc]) child below' st
        | [] => RPanic here
        end
    | _ => RPanic here
    end.

  (* BuildFromLocalReference (only reached directly: the marker builder panics instead of delegating) *)
  Definition recv_ref (rid : bytes) (fr : frame) (below : list frame) (st : mstate) : res :=
    let p := next st in
    let st := bump st in
    let here := set_stack st (fr :: below) in
    match fr with
    | FTop | FEdge _ _ _ _ | FMarker _ _ | FRecType => RPanic here
    | _ =>
      match send_key p fr with
      | None => RPanic here
      | Some fr =>
        match fr with
        | FSlice l =>
            match lookup_marked rid (marked st) with
            | Some v => ROk (set_stack st (FSlice (l ++ [snap v]) :: below))
            | None =>
                let h := next st in
                let st := bump st in
                ROk (set_refs (set_stack st (FSlice (l ++ [UHole h]) :: below)) (marked st) (pending st ++ [(rid, SFill h)]))
            end
        | FMap id kvs key w rc =>
            (* key := _this.key; swapKeyValue(); the setter stores under that key *)
            let st1 := set_stack st (FMap id kvs key (negb w) rc :: below) in
            match lookup_marked rid (marked st) with
            | Some v => run_setter (SMapSet id key) v st1
            | None => ROk (set_refs st1 (marked st) (pending st ++ [(rid, SMapSet id key)]))
            end
        | FNode _ _ =>
            match lookup_marked rid (marked st) with
            | Some v => ROk (set_stack st (FSlice [] :: FNode true (snap v) :: below))
            | None =>
                let h := next st in
                let st := bump st in
                ROk (set_refs (set_stack st (FSlice [] :: FNode true (UHole h) :: below)) (marked st) (pending st ++ [(rid, SFill h)]))
            end
        | _ => RPanic here
        end
      end
    end.

  (* ---- chunked arrays (Context.BeginArray / BeginArrayChunk / AddArrayData) ---- *)
  Definition elem_bits (t : arrty) : N := nth (N.to_nat t) array_elem_bits 0.

  Definition on_scalar (sc : scalar) (st : mstate) : res :=
    match stack st with
    | fr :: below => recv_scalar sc [] fr below st
    | [] => RPanic st
    end.

  Definition fire (st : mstate) : res :=
    match ccb st with
    | CBNone => RPanic st
    | CBArray t => if elem_bits t =? 0 then RPanic st else on_scalar (SArr t (cdata st)) st
    | CBMedia mt => on_scalar (SMedia mt (cdata st)) st
    | CBCustom t ct =>
        if t =? AT_CustomBinary then on_scalar (SCustomBin ct (cdata st)) st
        else if t =? AT_CustomText then on_scalar (SCustomText ct (cdata st)) st
        else RPanic st
    end.

  Definition on_chunk (n : N) (more : bool) (st : mstate) : res :=
    let st1 := set_chunk st (cdata st) n more (ccb st) in
    if negb more && (n =? 0) then fire st1 else ROk st1.

  (* chunkRemainingLength counts elements but is decremented by bytes, modulo 2^64 *)
  Definition on_data (d : bytes) (st : mstate) : res :=
    let r := (crem st + two64 - (N.of_nat (length d)) mod two64) mod two64 in
    let st1 := set_chunk st (cdata st ++ d) r (cmore st) (ccb st) in
    if negb (cmore st) && (r =? 0) then fire st1 else ROk st1.

  (* ---- one event ---- *)
  Definition step (st : mstate) (e : event) : res :=
    match e with
    | EBeginDoc | EEndDoc | EVersion _ | EPadding | EComment _ _ => ROk st
    | ENull => on_scalar SNull st
    | EBool b => on_scalar (SBool b) st
    | ETrue => on_scalar (SBool true) st
    | EFalse => on_scalar (SBool false) st
    | EPosInt n => on_scalar (SUint n) st
    | ENegInt n => on_scalar (negint_scalar n) st
    | EInt z => on_scalar (SInt z) st
    | EBigInt v => on_scalar (SBigInt v) st
    | EFloat b => on_scalar (SFloat b) st
    | EBigFloat v => on_scalar (SBigFloat v) st
    | EDecimal d => on_scalar (SDec d) st
    | EBigDecimal v => on_scalar (SBigDec v) st
    | ENan s => on_scalar (SFloat (if s then signaling_nan_bits else quiet_nan_bits)) st
    | EUid b => on_scalar (SUid b) st
    | ETime s => on_scalar (STime s) st
    | EArray t _ data => on_scalar (SArr t data) st
    | EStringArray t data => on_scalar (SStr t data) st
    | EMedia mt data => on_scalar (SMedia mt data) st
    | ECustomBin ct data => on_scalar (SCustomBin ct data) st
    | ECustomText ct data => on_scalar (SCustomText ct data) st
    | EArrayBegin t => ROk (set_chunk st [] (crem st) (cmore st) (CBArray t))
    | EMediaBegin mt => ROk (set_chunk st [] (crem st) (cmore st) (CBMedia mt))
    | ECustomBegin t ct => ROk (set_chunk st [] (crem st) (cmore st) (CBCustom t ct))
    | EArrayChunk n more => on_chunk n more st
    | EArrayData d => on_data d st
    | EList | EMap | ENode | EEdge =>
        let k := match e with EList => KList | EMap => KMap | ENode => KNode | _ => KEdge end in
        match stack st with
        | fr :: below => recv_begin k [] fr below st
        | [] => RPanic st
        end
    | EEnd =>
        match stack st with
        | fr :: below => recv_end [] fr below st
        | [] => RPanic st
        end
    | ERecordType id =>
        (* Context.BeginRecordType: recordType = recordType[:0] keeps the backing array *)
        ROk (set_rt (set_stack st (FRecType :: stack st)) id (rt_back st) 0 (rt_cap st) (rt_old st) (rt_tab st))
    | ERecord id =>
        (* Context.BeginRecord: the current builder starts a map; the map builder is wrapped *)
        let keys :=
          match find (fun '(n, _) => bytes_eqb n id) (rt_tab st) with
          | Some (_, (gen, len)) =>
              firstn len (if (gen =? length (rt_old st))%nat then rt_back st else nth gen (rt_old st) [])
          | None => []
          end in
        match stack st with
        | fr :: below =>
            rbind (recv_begin KMap [] fr below st)
                  (fun st1 => match stack st1 with
                              | FMap id kvs key w None :: r => ROk (set_stack st1 (FMap id kvs key w (Some (keys, O)) :: r))
                              | _ => RPanic st1
                              end)
        | [] => RPanic st
        end
    | EMarker id => ROk (set_stack st (FMarker id false :: stack st))
    | ERefLocal id =>
        match stack st with
        | fr :: below => recv_ref id fr below st
        | [] => RPanic st
        end
    end.

  (* ---- a whole event list ---- *)
  Fixpoint run (st : mstate) (es : list event) (i : N) : res * N :=
    match es with
    | [] => (ROk st, i)
    | e :: r =>
      match step st e with
      | ROk st1 => run st1 r (N.succ i)
      | RPanic st1 => (RPanic st1, i)
      end
    end.

  (* BuilderEventReceiver.GetBuiltObject *)
  Definition built (st : mstate) : uval :=
    dehole (match tobj st with TSlot v => v | TDone v => v end).

  (* ---- OnError: Context.ArtificiallyTerminate ----
     for len(builderStack) > 1 { CurrentBuilder.BuildArtificiallyEndContainer(ctx) }.
     Slice, map, record and record-type builders end their container; the
     others do nothing, so the loop never ends.  None = does not terminate. *)
  Fixpoint art_end_target (fr : frame) (below : list frame) : option frame :=
    match fr with
    | FMarker _ _ => match below with child :: r => art_end_target child r | [] => None end
    | FSlice _ | FMap _ _ _ _ _ | FRecType => Some fr
    | _ => None
    end.

  (* Some true = terminated, Some false = a panic escaped from OnError, None = spins forever *)
  Fixpoint terminate (fuel : nat) (st : mstate) : option bool :=
    match fuel with
    | O => None
    | S f =>
      match stack st with
      | [] | [_] => Some true
      | fr :: below =>
        match art_end_target fr below with
        | None => None
        | Some tgt =>
          let r := match tgt with
                   | FSlice l => notify_done (UList l) (set_stack st below)
                   | FMap id kvs _ _ _ => notify_done (UMap id kvs) (set_stack st below)
                   | _ => recv_end [] fr below st
                   end in
          match r with
          | ROk st1 => terminate f st1
          | RPanic _ => Some false
          end
        end
      end
    end.

  (* The observable outcome of feeding the events to a fresh receiver and, on a
     panic, calling OnError as the unmarshalers do. *)
  Definition build_untyped (es : list event) : outcome uval :=
    match run init_state es 0 with
    | (ROk st, _) => Ok (built st)
    | (RPanic st, _) =>
        match terminate (2 * length (stack st) + 4) st with
        | Some _ => Err
        | None => Hang
        end
    end.
  Definition panic_index (es : list event) : option N :=
    match run init_state es 0 with
    | (ROk _, _) => None
    | (RPanic _, i) => Some i
    end.
End Lib.
