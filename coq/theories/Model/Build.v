(* The untyped builder: what ce.UnmarshalFrom*Document(doc, nil, cfg) builds
   from the events that reach builder.BuilderEventReceiver, and what the
   iterator makes of the result when it is marshaled again.

   Read from builder/builder_event_rcv.go (receiver, chunk reassembly via
   context.go BeginArray/BeginArrayChunk/AddArrayData), builder_top_level.go,
   builder_interface.go (value conversion), builder_slice.go / builder_map.go
   instantiated at []interface{} / map[interface{}]interface{}, builder_node.go,
   builder_edge.go, builder_marker.go, reference_filler.go, builder_record.go,
   builder_record_type.go, context.go (stack, record types, ArtificiallyTerminate)
   and iterator/iterators.go + iterator_root.go (default configuration: no
   recursion support, no record types).  Executable definitions only.

   The model is a stack machine with one frame per builder on
   Context.builderStack.  Go values that are shared by reference are modelled
   as follows:
   - a slice under construction is only handed out at its end, so a finished
     []interface{} is an immutable list, except for the placeholders left by
     forward references: [UHole h], filled everywhere at once when the marker
     arrives (the copies of a slice header share the backing array);
   - a map is shared by reference: every map carries an identity [id] and a
     late write (forward reference in value position) is applied to every copy;
   - pointer values ( *big.Int, *big.Float, *apd.Decimal, *url.URL ) carry an
     identity [ptr] because Go compares map keys of pointer type by address;
   - types.Node is a struct copied by value: whoever stores a node takes a
     snapshot ([snap]); the marker table, the receiver's result slot and the
     pending components of an edge keep a reference to the builder's own node.

   External libraries are parameters of the model (Section variables):
   [url_conv] = net/url Parse followed by String, [time_conv] = compact_time
   AsGoTime followed by AsCompactTime.  The case checker instantiates them with
   the finite tables observed on the implementation. *)
From CE Require Export Model.Events Model.Arrays Gen.RulesConsts.
Open Scope N_scope.

(* ------------------------------------------------------------------ *)
(* Values an interface{} destination can receive                        *)
(* ------------------------------------------------------------------ *)

Inductive uval :=
| UNil
| UBool (b : bool)
| UInt (z : Z)                                  (* int64 *)
| UUint (n : N)                                 (* uint64 *)
| UBigInt (ptr : N) (v : option Z)              (* *big.Int; None = nil pointer *)
| UFloat (bits : N)                             (* float64 *)
| UBigFloat (ptr : N) (v : option bigfloat)     (* *big.Float *)
| UDec (d : dfloat)                             (* compact_float.DFloat *)
| UBigDec (ptr : N) (v : option dfloat)         (* *apd.Decimal *)
| UStr (s : bytes)
| UBytes (b : bytes)                            (* []byte *)
| UTyped (t : arrty) (elems : list N)           (* []uint16 ... []float64; t = array type of the Go element type *)
| URid (ptr : N) (out : bytes)                  (* *url.URL, by its String() *)
| UUid (b : bytes)                              (* types.UID *)
| UMedia (mt data : bytes)                      (* types.Media *)
| UTime (ident out : bytes)                     (* time.Time: equality class, and AsCompactTime(..).String() *)
| UCTime (s : bytes)                            (* compact_time.Time (no Go equivalent) *)
| UList (l : list uval)                         (* []interface{} *)
| UMap (id : N) (kvs : list (uval * uval))      (* map[interface{}]interface{}, insertion order *)
| UNode (v : uval) (ch : list uval)             (* types.Node *)
| UEdge (a b c : uval)                          (* types.Edge *)
| UHole (h : N).                                (* element slot awaiting a forward reference (nil until filled) *)

(* replace the placeholder [h] *)
Fixpoint subst (h : N) (x : uval) (v : uval) : uval :=
  match v with
  | UHole k => if k =? h then x else v
  | UList l => UList (map (subst h x) l)
  | UMap id kvs => UMap id (map (fun '(a, b) => (subst h x a, subst h x b)) kvs)
  | UNode a ch => UNode (subst h x a) (map (subst h x) ch)
  | UEdge a b c => UEdge (subst h x a) (subst h x b) (subst h x c)
  | _ => v
  end.

(* remaining placeholders read as nil *)
Fixpoint dehole (v : uval) : uval :=
  match v with
  | UHole _ => UNil
  | UList l => UList (map dehole l)
  | UMap id kvs => UMap id (map (fun '(a, b) => (dehole a, dehole b)) kvs)
  | UNode a ch => UNode (dehole a) (map dehole ch)
  | UEdge a b c => UEdge (dehole a) (dehole b) (dehole c)
  | _ => v
  end.

Fixpoint has_hole (v : uval) : bool :=
  match v with
  | UHole _ => true
  | UList l => existsb has_hole l
  | UMap _ kvs => existsb (fun '(a, b) => has_hole a || has_hole b) kvs
  | UNode a ch => has_hole a || existsb has_hole ch
  | UEdge a b c => has_hole a || has_hole b || has_hole c
  | _ => false
  end.

(* a map that contains itself: the model unrolls it once *)
Fixpoint contains_map (id : N) (v : uval) : bool :=
  match v with
  | UList l => existsb (contains_map id) l
  | UMap i kvs => (i =? id) || existsb (fun '(a, b) => contains_map id a || contains_map id b) kvs
  | UNode a ch => contains_map id a || existsb (contains_map id) ch
  | UEdge a b c => contains_map id a || contains_map id b || contains_map id c
  | _ => false
  end.
Fixpoint self_nested (v : uval) : bool :=
  match v with
  | UList l => existsb self_nested l
  | UMap i kvs => existsb (fun '(a, b) => contains_map i a || contains_map i b || self_nested a || self_nested b) kvs
  | UNode a ch => self_nested a || existsb self_nested ch
  | UEdge a b c => self_nested a || self_nested b || self_nested c
  | _ => false
  end.

(* copying a value out of the builder that owns it: the Value field of a node
   that still waits for a forward reference is nil in the copy *)
Definition snap (v : uval) : uval :=
  match v with
  | UNode (UHole _) ch => UNode UNil ch
  | _ => v
  end.

(* ---- Go equality of interface{} map keys ---- *)
Definition f64_is_zero (b : N) : bool := (b =? 0) || (b =? 9223372036854775808).
Definition float_key_eqb (a b : N) : bool :=
  if f64_is_nan a || f64_is_nan b then false
  else if f64_is_zero a && f64_is_zero b then true
  else a =? b.

(* reflect.Value.SetMapIndex panics on keys whose dynamic type is not hashable *)
Fixpoint hashable (v : uval) : bool :=
  match v with
  | UBytes _ | UTyped _ _ | UList _ | UMap _ _ | UNode _ _ | UMedia _ _ => false
  | UEdge a b c => hashable a && hashable b && hashable c
  | _ => true
  end.

Fixpoint key_eqb (a b : uval) : bool :=
  match a, b with
  | UNil, UNil | UNil, UHole _ | UHole _, UNil | UHole _, UHole _ => true
  | UBool x, UBool y => Bool.eqb x y
  | UInt x, UInt y => (x =? y)%Z
  | UUint x, UUint y => x =? y
  | UFloat x, UFloat y => float_key_eqb x y
  | UDec x, UDec y => dfloat_eqb x y
  | UStr x, UStr y | UUid x, UUid y | UCTime x, UCTime y => bytes_eqb x y
  | UTime i1 _, UTime i2 _ => bytes_eqb i1 i2
  | UBigInt p _, UBigInt q _ | UBigFloat p _, UBigFloat q _ | UBigDec p _, UBigDec q _
  | URid p _, URid q _ => p =? q
  | UEdge a1 b1 c1, UEdge a2 b2 c2 => key_eqb a1 a2 && key_eqb b1 b2 && key_eqb c1 c2
  | _, _ => false
  end.

(* m[k] = x *)
Fixpoint assoc_set (k x : uval) (kvs : list (uval * uval)) : list (uval * uval) :=
  match kvs with
  | [] => [(k, x)]
  | (k', x') :: r => if key_eqb k' k then (k', x) :: r else (k', x') :: assoc_set k x r
  end.

(* m[k] = x on every copy of the map with identity [mid] *)
Fixpoint vmapset (mid : N) (k x : uval) (v : uval) : uval :=
  match v with
  | UList l => UList (map (vmapset mid k x) l)
  | UMap id kvs =>
      let kvs' := map (fun '(a, b) => (vmapset mid k x a, vmapset mid k x b)) kvs in
      UMap id (if id =? mid then assoc_set k x kvs' else kvs')
  | UNode a ch => UNode (vmapset mid k x a) (map (vmapset mid k x) ch)
  | UEdge a b c => UEdge (vmapset mid k x a) (vmapset mid k x b) (vmapset mid k x c)
  | _ => v
  end.

(* ------------------------------------------------------------------ *)
(* What a data event delivers                                           *)
(* ------------------------------------------------------------------ *)

Inductive scalar :=
| SNull | SBool (b : bool) | SInt (z : Z) | SUint (n : N) | SBigInt (v : option Z)
| SFloat (bits : N) | SBigFloat (v : option bigfloat) | SDec (d : dfloat) | SBigDec (v : option dfloat)
| SUid (b : bytes) | SArr (t : arrty) (data : bytes) | SStr (t : arrty) (data : bytes)
| SCustomBin (ct : N) (data : bytes) | SCustomText (ct : N) (data : bytes)
| SMedia (mt data : bytes) | STime (s : bytes).

Definition quiet_nan_bits : N := 9222246136947933184.       (* 0x7ffc000000000000 *)
Definition signaling_nan_bits : N := 9219994337134247936.   (* 0x7ff4000000000000 *)
Definition max_int64 : N := 9223372036854775807.
Definition two64 : N := 18446744073709551616.

(* BuilderEventReceiver.OnNegativeInt: -0 is the float64 negative zero
   (math.Copysign(0, -1)); magnitudes beyond int64 become a negated big.Int. *)
Definition neg_zero_bits : N := 9223372036854775808.        (* 0x8000000000000000 *)
Definition negint_scalar (n : N) : scalar :=
  if n =? 0 then SFloat neg_zero_bits
  else if n <=? max_int64 then SInt (- Z.of_N n)
  else SBigInt (Some (- Z.of_N n)%Z).

Section Lib.
  (* url.Parse(text): None = error; Some s = the String() of the resulting URL *)
  Variable url_conv : bytes -> option bytes.
  (* compact_time.Time.AsGoTime: None = error (the compact time itself is stored);
     Some (ident, out): ident identifies the time.Time value up to Go's ==,
     out = compact_time.AsCompactTime(goTime).String() *)
  Variable time_conv : bytes -> option (bytes * bytes).

  Definition rid_value (p : N) (text : bytes) : option uval :=
    match url_conv text with Some out => Some (URid p out) | None => None end.

  (* interfaceBuilder.BuildFromXxx; [p] is a fresh pointer identity.  None = panic. *)
  Definition conv (p : N) (s : scalar) : option uval :=
    match s with
    | SNull => Some UNil
    | SBool b => Some (UBool b)
    | SInt z => Some (UInt z)
    | SUint n => Some (UUint n)
    | SBigInt v => Some (UBigInt (match v with Some _ => p | None => 0 end) v)
    | SFloat b => Some (UFloat b)
    | SBigFloat v => Some (UBigFloat (match v with Some _ => p | None => 0 end) v)
    | SDec d => Some (UDec d)
    | SBigDec v => Some (UBigDec (match v with Some _ => p | None => 0 end) v)
    | SUid b => if (length b =? 16)%nat then Some (UUid b) else None
    | SArr t data =>
        if t =? AT_Uint8 then Some (UBytes data)
        else if t =? AT_Uint16 then Some (UTyped AT_Uint16 (bytes_to_slice 2 data))
        else if t =? AT_Uint32 then Some (UTyped AT_Uint32 (bytes_to_slice 4 data))
        else if t =? AT_Uint64 then Some (UTyped AT_Uint64 (bytes_to_slice 8 data))
        else if t =? AT_Int8 then Some (UTyped AT_Int8 (bytes_to_slice 1 data))
        else if t =? AT_Int16 then Some (UTyped AT_Int16 (bytes_to_slice 2 data))
        else if t =? AT_Int32 then Some (UTyped AT_Int32 (bytes_to_slice 4 data))
        else if t =? AT_Int64 then Some (UTyped AT_Int64 (bytes_to_slice 8 data))
        else if t =? AT_Float16 then Some (UTyped AT_Float32 (f16_bytes_to_slice data))
        else if t =? AT_Float32 then Some (UTyped AT_Float32 (bytes_to_slice 4 data))
        else if t =? AT_Float64 then Some (UTyped AT_Float64 (bytes_to_slice 8 data))
        else if t =? AT_String then Some (UStr data)
        else if t =? AT_ResourceID then rid_value p data
        else None                                   (* "TODO: Typed array support": bit, UID, remote reference ... *)
    | SStr t data =>
        if t =? AT_String then Some (UStr data)
        else if (t =? AT_ResourceID) || (t =? AT_ReferenceRemote) then rid_value p data
        else None
    | SCustomBin _ _ | SCustomText _ _ => None      (* default configuration: the build functions return an error *)
    | SMedia mt data => Some (UMedia mt data)
    | STime s => match time_conv s with Some (i, o) => Some (UTime i o) | None => Some (UCTime s) end
    end.

  (* ------------------------------------------------------------------ *)
  (* The machine                                                          *)
  (* ------------------------------------------------------------------ *)

  Inductive ckind := KList | KMap | KNode | KEdge.

  Inductive frame :=
  | FTop                                                       (* topLevelBuilder over the interface builder *)
  | FSlice (elems : list uval)                                 (* sliceBuilder for []interface{} *)
  | FMap (id : N) (kvs : list (uval * uval)) (key : option uval) (want_value : bool)
         (rec : option (list scalar * nat))                    (* mapBuilder; Some = wrapped in a recordBuilder *)
  | FNode (children_mode : bool) (value : uval)                (* nodeBuilder *)
  | FEdge (c0 c1 c2 : uval) (index : N)                        (* edgeBuilder *)
  | FMarker (id : bytes) (is_container : bool)                 (* markerObjectBuilder; its child is the frame below *)
  | FRecType.                                                  (* recordTypeBuilder *)

  Inductive topobj := TSlot (v : uval) | TDone (v : uval).
  Inductive setter := SFill (h : N) | SMapSet (mid : N) (key : option uval).
  Inductive cbkind := CBNone | CBArray (t : arrty) | CBMedia (mt : bytes) | CBCustom (t : arrty) (ct : N).

  Record mstate := MS {
    stack : list frame;                       (* head = Context.CurrentBuilder *)
    tobj : topobj;                            (* BuilderEventReceiver.object *)
    marked : list (bytes * uval);             (* ReferenceFiller.markedValues *)
    pending : list (bytes * setter);          (* unresolvedReferences, in registration order *)
    next : N;                                 (* fresh identities *)
    cdata : bytes; crem : N; cmore : bool; ccb : cbkind; cbits : N;
                                              (* chunkedData, chunkRemainingLength, moreChunksFollow, callback,
                                                 arrayElementBitWidth *)
    rt_name : bytes;                          (* recordTypeName *)
    rt_keys : list scalar;                    (* Context.recordType: the keys of the type being declared *)
    rt_tab : list (bytes * list scalar);      (* recordTypes *)
  }.

  Definition init_state : mstate :=
    MS [FTop] (TSlot UNil) [] [] 1 [] 0 false CBNone 0 [] [] [].

  Definition set_stack (st : mstate) (s : list frame) : mstate :=
    MS s (tobj st) (marked st) (pending st) (next st) (cdata st) (crem st) (cmore st) (ccb st) (cbits st)
       (rt_name st) (rt_keys st) (rt_tab st).
  Definition set_tobj (st : mstate) (t : topobj) : mstate :=
    MS (stack st) t (marked st) (pending st) (next st) (cdata st) (crem st) (cmore st) (ccb st) (cbits st)
       (rt_name st) (rt_keys st) (rt_tab st).
  Definition set_refs (st : mstate) (m : list (bytes * uval)) (p : list (bytes * setter)) : mstate :=
    MS (stack st) (tobj st) m p (next st) (cdata st) (crem st) (cmore st) (ccb st) (cbits st)
       (rt_name st) (rt_keys st) (rt_tab st).
  Definition bump (st : mstate) : mstate :=
    MS (stack st) (tobj st) (marked st) (pending st) (next st + 1) (cdata st) (crem st) (cmore st) (ccb st) (cbits st)
       (rt_name st) (rt_keys st) (rt_tab st).
  Definition set_chunk (st : mstate) (d : bytes) (r : N) (m : bool) (cb : cbkind) (bits : N) : mstate :=
    MS (stack st) (tobj st) (marked st) (pending st) (next st) d r m cb bits
       (rt_name st) (rt_keys st) (rt_tab st).
  Definition set_rt (st : mstate) (name : bytes) (keys : list scalar) (tab : list (bytes * list scalar)) : mstate :=
    MS (stack st) (tobj st) (marked st) (pending st) (next st) (cdata st) (crem st) (cmore st) (ccb st) (cbits st)
       name keys tab.

  (* a step either succeeds or panics; the state at the panic decides what
     ArtificiallyTerminate does afterwards *)
  Inductive res := ROk (st : mstate) | RPanic (st : mstate).
  Definition rbind (r : res) (f : mstate -> res) : res :=
    match r with ROk st => f st | RPanic st => RPanic st end.

  (* ---- state-wide updates (shared memory) ---- *)
  Definition frame_map (f : uval -> uval) (fr : frame) : frame :=
    match fr with
    | FSlice l => FSlice (map f l)
    | FMap id kvs key w rc => FMap id (map (fun '(a, b) => (f a, f b)) kvs) (option_map f key) w rc
    | FNode cm v => FNode cm (f v)
    | FEdge a b c i => FEdge (f a) (f b) (f c) i
    | _ => fr
    end.
  Definition topobj_map (f : uval -> uval) (t : topobj) : topobj :=
    match t with TSlot v => TSlot (f v) | TDone v => TDone (f v) end.
  Definition setter_map (f : uval -> uval) (s : setter) : setter :=
    match s with SMapSet m k => SMapSet m (option_map f k) | _ => s end.
  Definition state_map (f : uval -> uval) (st : mstate) : mstate :=
    set_refs (set_tobj (set_stack st (map (frame_map f) (stack st))) (topobj_map f (tobj st)))
             (map (fun '(i, v) => (i, f v)) (marked st))
             (map (fun '(i, s) => (i, setter_map f s)) (pending st)).

  (* container.SetMapIndex on the map [mid], which may still be under construction *)
  Definition frame_mapset (mid : N) (k x : uval) (fr : frame) : frame :=
    match frame_map (vmapset mid k x) fr with
    | FMap id kvs key w rc => FMap id (if id =? mid then assoc_set k x kvs else kvs) key w rc
    | fr' => fr'
    end.
  Definition state_mapset (mid : N) (k x : uval) (st : mstate) : mstate :=
    let st1 := state_map (vmapset mid k x) st in
    set_stack st1 (map (fun fr => match fr with
                                  | FMap id kvs key w rc => FMap id (if id =? mid then assoc_set k x kvs else kvs) key w rc
                                  | _ => fr end) (stack st1)).

  (* ---- ReferenceFiller ---- *)
  Fixpoint lookup_marked (id : bytes) (m : list (bytes * uval)) : option uval :=
    match m with
    | [] => None
    | (i, v) :: r => if bytes_eqb i id then Some v else lookup_marked id r
    end.

  Definition run_setter (s : setter) (v : uval) (st : mstate) : res :=
    match s with
    | SFill h => ROk (state_map (subst h (snap v)) st)
    | SMapSet _ None => RPanic st                        (* SetMapIndex with the zero Value as key *)
    | SMapSet mid (Some k) => if hashable k then ROk (state_mapset mid k (snap v) st) else RPanic st
    end.

  Fixpoint run_setters (ss : list setter) (id : bytes) (st : mstate) : res :=
    match ss with
    | [] => ROk st
    | s :: r =>
      match lookup_marked id (marked st) with
      | Some v => rbind (run_setter s v st) (run_setters r id)
      | None => RPanic st
      end
    end.

  (* NotifyMarker: record the value, run the setters waiting for it *)
  Definition notify_marker (id : bytes) (v : uval) (st : mstate) : res :=
    let mine := map snd (filter (fun '(i, _) => bytes_eqb i id) (pending st)) in
    let rest := filter (fun '(i, _) => negb (bytes_eqb i id)) (pending st) in
    run_setters mine id (set_refs st ((id, v) :: filter (fun '(i, _) => negb (bytes_eqb i id)) (marked st)) rest).

  (* ---- storing into a map builder ---- *)
  Definition map_store (x : uval) (id : N) (kvs : list (uval * uval)) (key : option uval) (w : bool)
             (rc : option (list scalar * nat)) : option frame :=
    if w then
      match key with
      | Some k => if hashable k then Some (FMap id (assoc_set k x kvs) key false rc) else None
      | None => None
      end
    else Some (FMap id kvs (Some x) true rc).

  (* recordBuilder.sendKey: replay the next key of the record type into the map builder *)
  Definition send_key (p : N) (fr : frame) : option frame :=
    match fr with
    | FMap id kvs key w (Some (keys, i)) =>
        match nth_error keys i with
        | Some sc =>
            match conv p sc with
            | Some kx => map_store kx id kvs key w (Some (keys, S i))
            | None => None
            end
        | None => None
        end
    | _ => Some fr
    end.

  Definition new_frame (k : ckind) (id : N) : frame :=
    match k with
    | KList => FSlice []
    | KMap => FMap id [] None false None
    | KNode => FNode false UNil
    | KEdge => FEdge UNil UNil UNil 0
    end.

  (* ---- NotifyChildContainerFinished on the current builder ---- *)
  Fixpoint done_to (fuel : nat) (v : uval) (st : mstate) : res :=
    match fuel, stack st with
    | S f, fr :: below =>
      match fr with
      | FTop => ROk (set_tobj st (TDone v))
      | FSlice l => ROk (set_stack st (FSlice (l ++ [snap v]) :: below))
      | FMap id kvs key w rc =>
          match map_store (snap v) id kvs key w rc with
          | Some fr' => ROk (set_stack st (fr' :: below))
          | None => RPanic st
          end
      | FNode true val =>
          match v with
          | UList ch => done_to f (UNode val ch) (set_stack st below)
          | _ => RPanic st
          end
      | FNode false _ => ROk (set_stack st (FSlice [] :: FNode true (snap v) :: below))
      | FEdge a b c i =>
          if i =? 0 then ROk (set_stack st (FEdge v b c 1 :: below))
          else if i =? 1 then ROk (set_stack st (FEdge a v c 2 :: below))
          else if i =? 2 then done_to f (UEdge (snap a) (snap b) (snap v)) (set_stack st below)
          else RPanic st
      | FMarker id isc =>
          (* the value registered is the one handed on; a setter that just ran may have
             written into it (a container referring to itself) *)
          if isc then rbind (notify_marker id v st)
                            (fun st1 => done_to f (match lookup_marked id (marked st1) with Some v' => v' | None => v end)
                                                (set_stack st1 (tl (stack st1))))
          else RPanic st
      | FRecType => RPanic st
      end
    | _, _ => RPanic st
    end.
  Definition notify_done (v : uval) (st : mstate) : res := done_to (length (stack st)) v st.

  (* ---- a value event reaching the frame [fr]; [above] are the markers it came through ---- *)
  Fixpoint recv_scalar (sc : scalar) (above : list frame) (fr : frame) (below : list frame) (st0 : mstate) : res :=
    let p := next st0 in
    let st := bump st0 in
    let here := set_stack st (above ++ fr :: below) in
    match fr with
    | FRecType =>
        match sc with
        | SNull | SCustomBin _ _ | SCustomText _ _ | SMedia _ _ => RPanic here
        | _ =>
          (* Context.AddRecordTypeKey (the key is copied; every record type has its own slice) *)
          ROk (set_rt here (rt_name st) (rt_keys st ++ [sc]) (rt_tab st))
        end
    | FMarker id isc =>
        (* object := child.BuildFromXxx(...); onObjectFinished: unless a container was begun
           under this marker, pop the current builder and register the object *)
        match below with
        | child :: below' =>
            rbind (recv_scalar sc (above ++ [FMarker id isc]) child below' st0)
                  (fun st1 =>
                     if isc then ROk st1
                     else match conv p sc with
                          | Some x => notify_marker id x (set_stack st1 (tl (stack st1)))
                          | None => RPanic st1
                          end)
        | [] => RPanic here
        end
    | _ =>
      match send_key p fr with
      | None => RPanic here
      | Some fr =>
        match conv p sc with
        | None => RPanic (set_stack st (above ++ fr :: below))
        | Some x =>
          match fr with
          | FTop =>
              match tobj st with
              | TSlot _ => ROk (set_tobj here (TSlot x))
              | TDone _ => RPanic here
              end
          | FSlice l => ROk (set_stack st (above ++ FSlice (l ++ [x]) :: below))
          | FMap id kvs key w rc =>
              match map_store x id kvs key w rc with
              | Some fr' => ROk (set_stack st (above ++ fr' :: below))
              | None => RPanic (set_stack st (above ++ fr :: below))
              end
          | FNode _ _ => ROk (set_stack st (FSlice [] :: above ++ FNode true x :: below))
          | FEdge a b c i =>
              if i =? 0 then ROk (set_stack st (above ++ FEdge x b c 1 :: below))
              else if i =? 1 then ROk (set_stack st (above ++ FEdge a x c 2 :: below))
              else if i =? 2 then
                match above with
                | [] => notify_done (UEdge (snap a) (snap b) x) (set_stack st below)
                | _ => RPanic (set_stack st (tl (above ++ FEdge a b x 3 :: below)))
                end
              else RPanic here
          | _ => RPanic here
          end
        end
      end
    end.

  Fixpoint recv_begin (k : ckind) (above : list frame) (fr : frame) (below : list frame) (st0 : mstate) : res :=
    let p := next st0 in
    let st := bump st0 in
    match fr with
    | FRecType => RPanic (set_stack st (above ++ fr :: below))
    | FMarker id _ =>
        match below with
        | child :: below' => recv_begin k (above ++ [FMarker id true]) child below' st0
        | [] => RPanic (set_stack st (above ++ fr :: below))
        end
    | _ =>
      match send_key p fr with
      | None => RPanic (set_stack st (above ++ fr :: below))
      | Some fr => ROk (set_stack (bump st) (new_frame k (next st) :: above ++ fr :: below))
      end
    end.

  Fixpoint recv_end (above : list frame) (fr : frame) (below : list frame) (st : mstate) : res :=
    let here := set_stack st (above ++ fr :: below) in
    match fr with
    | FSlice l => notify_done (UList l) (set_stack st (tl (above ++ fr :: below)))
    | FMap id kvs _ _ _ => notify_done (UMap id kvs) (set_stack st (tl (above ++ fr :: below)))
    | FRecType =>
        (* Context.EndRecordType *)
        let tab := (rt_name st, rt_keys st) :: filter (fun '(n, _) => negb (bytes_eqb n (rt_name st))) (rt_tab st) in
        ROk (set_rt (set_stack st (tl (above ++ fr :: below))) (rt_name st) (rt_keys st) tab)
    | FMarker id isc =>
        match below with
        | child :: below' => recv_end (above ++ [FMarker id isc]) child below' st
        | [] => RPanic here
        end
    | _ => RPanic here
    end.

  (* BuildFromLocalReference (only reached directly: the marker builder panics instead of delegating) *)
  Definition recv_ref (rid : bytes) (fr : frame) (below : list frame) (st : mstate) : res :=
    let p := next st in
    let st := bump st in
    let here := set_stack st (fr :: below) in
    match fr with
    | FTop | FEdge _ _ _ _ | FMarker _ _ | FRecType => RPanic here
    | _ =>
      match send_key p fr with
      | None => RPanic here
      | Some fr =>
        match fr with
        | FSlice l =>
            match lookup_marked rid (marked st) with
            | Some v => ROk (set_stack st (FSlice (l ++ [snap v]) :: below))
            | None =>
                let h := next st in
                let st := bump st in
                ROk (set_refs (set_stack st (FSlice (l ++ [UHole h]) :: below)) (marked st) (pending st ++ [(rid, SFill h)]))
            end
        | FMap id kvs key w rc =>
            (* key := _this.key; swapKeyValue(); the setter stores under that key *)
            let st1 := set_stack st (FMap id kvs key (negb w) rc :: below) in
            match lookup_marked rid (marked st) with
            | Some v =>
                (* the setter runs at once, on this builder's own map (nobody else holds it yet) *)
                match key with
                | Some k => if hashable k
                            then ROk (set_stack st (FMap id (assoc_set k (snap v) kvs) key (negb w) rc :: below))
                            else RPanic st1
                | None => RPanic st1
                end
            | None => ROk (set_refs st1 (marked st) (pending st ++ [(rid, SMapSet id key)]))
            end
        | FNode _ _ =>
            match lookup_marked rid (marked st) with
            | Some v => ROk (set_stack st (FSlice [] :: FNode true (snap v) :: below))
            | None =>
                let h := next st in
                let st := bump st in
                ROk (set_refs (set_stack st (FSlice [] :: FNode true (UHole h) :: below)) (marked st) (pending st ++ [(rid, SFill h)]))
            end
        | _ => RPanic here
        end
      end
    end.

  (* ---- chunked arrays (Context.BeginArray / BeginArrayChunk / AddArrayData) ---- *)
  Definition elem_bits (t : arrty) : N := nth (N.to_nat t) array_elem_bits 0.

  Definition on_scalar (sc : scalar) (st : mstate) : res :=
    match stack st with
    | fr :: below => recv_scalar sc [] fr below st
    | [] => RPanic st
    end.

  Definition fire (st : mstate) : res :=
    match ccb st with
    | CBNone => RPanic st
    | CBArray t => if elem_bits t =? 0 then RPanic st else on_scalar (SArr t (cdata st)) st
    | CBMedia mt => on_scalar (SMedia mt (cdata st)) st
    | CBCustom t ct =>
        if t =? AT_CustomBinary then on_scalar (SCustomBin ct (cdata st)) st
        else if t =? AT_CustomText then on_scalar (SCustomText ct (cdata st)) st
        else RPanic st
    end.

  (* common.ElementCountToByteCount, uint64 arithmetic *)
  Definition elem_byte_count (bits count : N) : N :=
    let bc := ((count * bits) mod two64) / 8 in
    if (bits =? 1) && negb (N.land count 7 =? 0) then (bc + 1) mod two64 else bc.

  Definition on_chunk (n : N) (more : bool) (st : mstate) : res :=
    let st1 := set_chunk st (cdata st) (elem_byte_count (cbits st) n) more (ccb st) (cbits st) in
    if negb more && (elem_byte_count (cbits st) n =? 0) then fire st1 else ROk st1.

  (* chunkRemainingLength is in bytes (uint64 arithmetic) *)
  Definition on_data (d : bytes) (st : mstate) : res :=
    let r := (crem st + two64 - (N.of_nat (length d)) mod two64) mod two64 in
    let st1 := set_chunk st (cdata st ++ d) r (cmore st) (ccb st) (cbits st) in
    if negb (cmore st) && (r =? 0) then fire st1 else ROk st1.

  (* ---- one event ---- *)
  Definition step (st : mstate) (e : event) : res :=
    match e with
    | EBeginDoc | EEndDoc | EVersion _ | EPadding | EComment _ _ => ROk st
    | ENull => on_scalar SNull st
    | EBool b => on_scalar (SBool b) st
    | ETrue => on_scalar (SBool true) st
    | EFalse => on_scalar (SBool false) st
    | EPosInt n => on_scalar (SUint n) st
    | ENegInt n => on_scalar (negint_scalar n) st
    | EInt z => on_scalar (SInt z) st
    | EBigInt v => on_scalar (SBigInt v) st
    | EFloat b => on_scalar (SFloat b) st
    | EBigFloat v => on_scalar (SBigFloat v) st
    | EDecimal d => on_scalar (SDec d) st
    | EBigDecimal v => on_scalar (SBigDec v) st
    | ENan s => on_scalar (SFloat (if s then signaling_nan_bits else quiet_nan_bits)) st
    | EUid b => on_scalar (SUid b) st
    | ETime s => on_scalar (STime s) st
    | EArray t _ data => on_scalar (SArr t data) st
    | EStringArray t data => on_scalar (SStr t data) st
    | EMedia mt data => on_scalar (SMedia mt data) st
    | ECustomBin ct data => on_scalar (SCustomBin ct data) st
    | ECustomText ct data => on_scalar (SCustomText ct data) st
    | EArrayBegin t =>
        (* arrayType.ElementSize() indexes a table of AT_Count entries *)
        if t <? AT_Count then ROk (set_chunk st [] (crem st) (cmore st) (CBArray t) (elem_bits t)) else RPanic st
    | EMediaBegin mt => ROk (set_chunk st [] (crem st) (cmore st) (CBMedia mt) 8)
    | ECustomBegin t ct => ROk (set_chunk st [] (crem st) (cmore st) (CBCustom t ct) 8)
    | EArrayChunk n more => on_chunk n more st
    | EArrayData d => on_data d st
    | EList | EMap | ENode | EEdge =>
        let k := match e with EList => KList | EMap => KMap | ENode => KNode | _ => KEdge end in
        match stack st with
        | fr :: below => recv_begin k [] fr below st
        | [] => RPanic st
        end
    | EEnd =>
        match stack st with
        | fr :: below => recv_end [] fr below st
        | [] => RPanic st
        end
    | ERecordType id =>
        (* Context.BeginRecordType *)
        ROk (set_rt (set_stack st (FRecType :: stack st)) id [] (rt_tab st))
    | ERecord id =>
        (* Context.BeginRecord: the current builder starts a map; the map builder is wrapped *)
        let keys := match find (fun '(n, _) => bytes_eqb n id) (rt_tab st) with Some (_, ks) => ks | None => [] end in
        match stack st with
        | fr :: below =>
            rbind (recv_begin KMap [] fr below st)
                  (fun st1 => match stack st1 with
                              | FMap id kvs key w None :: r => ROk (set_stack st1 (FMap id kvs key w (Some (keys, O)) :: r))
                              | _ => RPanic st1
                              end)
        | [] => RPanic st
        end
    | EMarker id => ROk (set_stack st (FMarker id false :: stack st))
    | ERefLocal id =>
        match stack st with
        | fr :: below => recv_ref id fr below st
        | [] => RPanic st
        end
    end.

  (* ---- a whole event list ---- *)
  Fixpoint run (st : mstate) (es : list event) (i : N) : res * N :=
    match es with
    | [] => (ROk st, i)
    | e :: r =>
      match step st e with
      | ROk st1 => run st1 r (N.succ i)
      | RPanic st1 => (RPanic st1, i)
      end
    end.

  (* BuilderEventReceiver.GetBuiltObject *)
  Definition built_raw (st : mstate) : uval := match tobj st with TSlot v => v | TDone v => v end.
  Definition built (st : mstate) : uval := dehole (built_raw st).

  (* ---- OnError: Context.ArtificiallyTerminate ----
     for len(builderStack) > 1 {
       depth := len(builderStack)
       CurrentBuilder.BuildArtificiallyEndContainer(ctx)
       if len(builderStack) >= depth { UnstackBuilder() }
     }
     Slice, map, record and record-type builders end their container (a marker
     passes the call on to its child); the others do nothing and are dropped. *)
  Fixpoint art_end_target (fr : frame) (below : list frame) : option frame :=
    match fr with
    | FMarker _ _ => match below with child :: r => art_end_target child r | [] => None end
    | FSlice _ | FMap _ _ _ _ _ | FRecType => Some fr
    | _ => None
    end.

  (* Some true = terminated, Some false = a panic escaped from OnError, None = out of fuel *)
  Fixpoint terminate (fuel : nat) (st : mstate) : option bool :=
    match fuel with
    | O => None
    | S f =>
      match stack st with
      | [] | [_] => Some true
      | fr :: below =>
        let r := match art_end_target fr below with
                 | Some _ => recv_end [] fr below st
                 | None => ROk st
                 end in
        match r with
        | ROk st1 =>
            terminate f (if (length (fr :: below) <=? length (stack st1))%nat
                         then set_stack st1 (tl (stack st1)) else st1)
        | RPanic _ => Some false
        end
      end
    end.

  (* The observable outcome of feeding the events to a fresh receiver and, on a
     panic, calling OnError as the unmarshalers do. *)
  Definition build_untyped (es : list event) : outcome uval :=
    match run init_state es 0 with
    | (ROk st, _) => Ok (built st)
    | (RPanic st, _) =>
        match terminate (2 * length (stack st) + 4) st with
        | Some _ => Err
        | None => Hang
        end
    end.
  (* a placeholder left in the result, or a map inside itself: the value refers to itself
     (a marked container holding a reference to its own marker); the finite model cuts it off *)
  Definition built_cyclic (es : list event) : bool :=
    match run init_state es 0 with
    | (ROk st, _) => has_hole (built_raw st) || self_nested (built_raw st)
    | _ => false
    end.
  Definition panic_index (es : list event) : option N :=
    match run init_state es 0 with
    | (ROk _, _) => None
    | (RPanic _, i) => Some i
    end.
End Lib.

(* ------------------------------------------------------------------ *)
(* Library tables (the observations that instantiate url_conv / time_conv) *)
(* ------------------------------------------------------------------ *)

Fixpoint tab_lookup {A} (k : bytes) (t : list (bytes * A)) : option A :=
  match t with
  | [] => None
  | (k', v) :: r => if bytes_eqb k k' then Some v else tab_lookup k r
  end.
Definition url_of_table (t : list (bytes * option bytes)) (x : bytes) : option bytes :=
  match tab_lookup x t with Some r => r | None => None end.
Definition time_of_table (t : list (bytes * option (bytes * bytes))) (x : bytes) : option (bytes * bytes) :=
  match tab_lookup x t with Some r => r | None => None end.

(* ------------------------------------------------------------------ *)
(* Marshaling the built value again (iterator, default configuration)   *)
(* ------------------------------------------------------------------ *)

Definition typed_width (t : arrty) : N :=
  if (t =? AT_Int8) then 1
  else if (t =? AT_Uint16) || (t =? AT_Int16) then 2
  else if (t =? AT_Uint32) || (t =? AT_Int32) || (t =? AT_Float32) then 4
  else 8.
Definition typed_bytes (t : arrty) (elems : list N) : bytes :=
  iter_to_bytes (typed_width t) (t =? AT_Float32) elems.

Definition oconcat {A} (l : list (option (list A))) : option (list A) :=
  fold_right (fun o acc => match o, acc with Some x, Some y => Some (x ++ y) | _, _ => None end) (Some []) l.

(* events between OnVersion and OnEndDocument; None = the iterator panics *)
Fixpoint iterate_val (v : uval) : option (list event) :=
  match v with
  | UNil | UHole _ => Some [ENull]
  | UBool b => Some [EBool b]
  | UInt z => Some [EInt z]
  | UUint n => Some [EPosInt n]
  | UBigInt _ (Some z) => Some [EBigInt (Some z)]
  | UBigInt _ None | UBigFloat _ None | UBigDec _ None => Some [ENull]      (* nil pointer *)
  | UFloat b => Some [EFloat b]
  | UBigFloat _ (Some f) => Some [EBigFloat (Some f)]
  | UDec d => Some [EDecimal d]
  | UBigDec _ (Some d) => Some [EBigDecimal (Some d)]
  | UStr s => Some [EStringArray AT_String s]
  | UBytes b => Some [EArray AT_Uint8 (N.of_nat (length b)) b]
  | UTyped t elems => Some [EArray t (N.of_nat (length elems)) (typed_bytes t elems)]
  | URid _ out => Some [EStringArray AT_ResourceID out]
  | UUid b => Some [EUid b]
  | UMedia mt data => match mt with [] => None | _ => Some [EMedia mt data] end
  | UTime _ out => Some [ETime out]
  | UCTime s => Some [ETime s]
  | UList l => match oconcat (map iterate_val l) with Some es => Some (EList :: es ++ [EEnd]) | None => None end
  | UMap _ kvs =>
      match oconcat (map (fun '(k, x) => match iterate_val k, iterate_val x with
                                         | Some a, Some b => Some (a ++ b) | _, _ => None end) kvs) with
      | Some es => Some (EMap :: es ++ [EEnd])
      | None => None
      end
  | UNode a ch =>
      match iterate_val a, oconcat (map iterate_val ch) with
      | Some ea, Some es => Some (ENode :: ea ++ es ++ [EEnd])
      | _, _ => None
      end
  | UEdge a b c =>
      (* iterateEdge emits no end-container event *)
      match iterate_val a, iterate_val b, iterate_val c with
      | Some ea, Some eb, Some ec => Some (EEdge :: ea ++ eb ++ ec)
      | _, _, _ => None
      end
  end.

Definition iterate_doc (v : uval) : option (list event) :=
  match iterate_val v with
  | Some es => Some (EBeginDoc :: EVersion 0 :: es ++ [EEndDoc])
  | None => None
  end.

(* ------------------------------------------------------------------ *)
(* Document data                                                        *)
(* ------------------------------------------------------------------ *)

Inductive dv :=
| DNull | DBool (b : bool) | DInt (z : Z) | DNegZero
| DFloat (bits : N) | DNan (signaling : bool) | DBigFloat (f : bigfloat) | DDec (d : dfloat) | DBigDec (d : dfloat)
| DUid (b : bytes) | DTime (s : bytes) | DStr (s : bytes) | DRid (s : bytes) | DRemote (s : bytes)
| DArr (t : arrty) (data : bytes) | DMedia (mt data : bytes)
| DCustomBin (ct : N) (data : bytes) | DCustomText (ct : N) (data : bytes)
| DList (l : list dv) | DMap (kvs : list (dv * dv)) | DNode (v : dv) (ch : list dv) | DEdge (a b c : dv)
| DRecord (name : bytes) (vals : list dv) | DMark (id : bytes) (v : dv) | DRef (id : bytes).

(* negative zero is one datum, whether spelled as the integer -0 or as the float -0.0
   (the encoders write both as "-0") *)
Definition float_dv (b : N) : dv :=
  if f64_is_nan b then DNan (negb (f64_quiet_bit b))
  else if b =? neg_zero_bits then DNegZero
  else DFloat b.
Definition dec_dv (d : dfloat) : dv := match d with DQNan => DNan false | DSNan => DNan true | _ => DDec d end.
Definition bigdec_dv (d : dfloat) : dv := match d with DQNan => DNan false | DSNan => DNan true | _ => DBigDec d end.
Definition array_dv (t : arrty) (data : bytes) : dv :=
  if t =? AT_String then DStr data
  else if t =? AT_ResourceID then DRid data
  else if t =? AT_ReferenceRemote then DRemote data
  else DArr t data.

(* the data a single value event stands for (before the builder sees it) *)
Definition event_dv (e : event) : option dv :=
  match e with
  | ENull | EBigInt None | EBigFloat None | EBigDecimal None => Some DNull
  | EBool b => Some (DBool b)
  | ETrue => Some (DBool true)
  | EFalse => Some (DBool false)
  | EPosInt n => Some (DInt (Z.of_N n))
  | ENegInt n => Some (if n =? 0 then DNegZero else DInt (- Z.of_N n))
  | EInt z => Some (DInt z)
  | EBigInt (Some z) => Some (DInt z)
  | EFloat b => Some (float_dv b)
  | EBigFloat (Some f) => Some (DBigFloat f)
  | EDecimal d => Some (dec_dv d)
  | EBigDecimal (Some d) => Some (bigdec_dv d)
  | ENan s => Some (DNan s)
  | EUid b => Some (DUid b)
  | ETime s => Some (DTime s)
  | EArray t _ data => Some (array_dv t data)
  | EStringArray t data => Some (array_dv t data)
  | EMedia mt data => Some (DMedia mt data)
  | ECustomBin ct data => Some (DCustomBin ct data)
  | ECustomText ct data => Some (DCustomText ct data)
  | _ => None
  end.

(* the scalar a single value event hands to the current builder *)
Definition event_scalar (e : event) : option scalar :=
  match e with
  | ENull => Some SNull
  | EBool b => Some (SBool b)
  | ETrue => Some (SBool true)
  | EFalse => Some (SBool false)
  | EPosInt n => Some (SUint n)
  | ENegInt n => Some (negint_scalar n)
  | EInt z => Some (SInt z)
  | EBigInt v => Some (SBigInt v)
  | EFloat b => Some (SFloat b)
  | EBigFloat v => Some (SBigFloat v)
  | EDecimal d => Some (SDec d)
  | EBigDecimal v => Some (SBigDec v)
  | ENan s => Some (SFloat (if s then signaling_nan_bits else quiet_nan_bits))
  | EUid b => Some (SUid b)
  | ETime s => Some (STime s)
  | EArray t _ data => Some (SArr t data)
  | EStringArray t data => Some (SStr t data)
  | EMedia mt data => Some (SMedia mt data)
  | ECustomBin ct data => Some (SCustomBin ct data)
  | ECustomText ct data => Some (SCustomText ct data)
  | _ => None
  end.

(* ---- arrays delivered in chunks: begin, then chunk headers each followed by data events ---- *)
Inductive abegin := ABArray (t : arrty) | ABMedia (mt : bytes) | ABCustom (t : arrty) (ct : N).
Definition abegin_of (e : event) : option abegin :=
  match e with
  | EArrayBegin t => Some (ABArray t)
  | EMediaBegin mt => Some (ABMedia mt)
  | ECustomBegin t ct => Some (ABCustom t ct)
  | _ => None
  end.
Definition abegin_dv (b : abegin) (data : bytes) : dv :=
  match b with
  | ABArray t => array_dv t data
  | ABMedia mt => DMedia mt data
  | ABCustom t ct => if t =? AT_CustomText then DCustomText ct data else DCustomBin ct data
  end.
Definition abegin_scalar (b : abegin) (data : bytes) : scalar :=
  match b with
  | ABArray t => SArr t data
  | ABMedia mt => SMedia mt data
  | ABCustom t ct => if t =? AT_CustomText then SCustomText ct data else SCustomBin ct data
  end.
Definition abegin_cb (b : abegin) : cbkind :=
  match b with ABArray t => CBArray t | ABMedia mt => CBMedia mt | ABCustom t ct => CBCustom t ct end.
(* element size in bytes when whole bytes, else 0 *)
Definition abegin_elem_bytes (b : abegin) : N :=
  match b with
  | ABArray t => let bits := nth (N.to_nat t) array_elem_bits 0 in if bits mod 8 =? 0 then bits / 8 else 0
  | _ => 1
  end.

(* all the data of a chunked array, provided the chunk structure is the one the
   validator accepts: every chunk header [n, more] is followed by data events
   totalling n elements, the last header has more = false, nothing follows *)
Fixpoint chunk_data (w : N) (es : list event) (need : N) (last : bool) (acc : bytes) : option bytes :=
  match es with
  | [] => if last && (need =? 0) then Some acc else None
  | EArrayData d :: r =>
      let n := N.of_nat (length d) in
      if n <=? need then chunk_data w r (need - n) last (acc ++ d) else None
  | EArrayChunk n more :: r =>
      if negb last && (need =? 0) then chunk_data w r (n * w) (negb more) acc else None
  | _ => None
  end.

(* ------------------------------------------------------------------ *)
(* Documents as trees                                                   *)
(* ------------------------------------------------------------------ *)

Inductive dt :=
| TLeaf (e : event)                               (* a value given by one event *)
| TChunked (b : abegin) (body : list event)       (* a value given by begin / chunk / data events *)
| TList (l : list dt)
| TMap (kvs : list (dt * dt))
| TNode (v : dt) (ch : list dt)
| TEdge (a b c : dt)
| TRecord (name : bytes) (vals : list dt)
| TMark (id : bytes) (t : dt)
| TRef (id : bytes).

Definition begin_event (b : abegin) : event :=
  match b with ABArray t => EArrayBegin t | ABMedia mt => EMediaBegin mt | ABCustom t ct => ECustomBegin t ct end.

Fixpoint flat (t : dt) : list event :=
  match t with
  | TLeaf e => [e]
  | TChunked b body => begin_event b :: body
  | TList l => EList :: flat_map flat l ++ [EEnd]
  | TMap kvs => EMap :: flat_map (fun '(k, v) => flat k ++ flat v) kvs ++ [EEnd]
  | TNode v ch => ENode :: flat v ++ flat_map flat ch ++ [EEnd]
  | TEdge a b c => EEdge :: flat a ++ flat b ++ flat c ++ [EEnd]
  | TRecord name vals => ERecord name :: flat_map flat vals ++ [EEnd]
  | TMark id t => EMarker id :: flat t
  | TRef id => [ERefLocal id]
  end.

(* record type declarations: name and key leaves *)
Definition rtdecl := (bytes * list dt)%type.
Definition flat_rt (d : rtdecl) : list event := ERecordType (fst d) :: flat_map flat (snd d) ++ [EEnd].
Definition doc_events (rts : list rtdecl) (t : dt) : list event :=
  EBeginDoc :: EVersion 0 :: flat_map flat_rt rts ++ flat t ++ [EEndDoc].

Definition is_trivia (e : event) : bool :=
  match e with EPadding | EComment _ _ => true | _ => false end.
Definition strip (es : list event) : list event := filter (fun e => negb (is_trivia e)) es.

(* the data of a tree; None where an event is not a value event or the chunk structure is broken *)
Definition omap2 {A B} (f : A -> option B) : list A -> option (list B) :=
  fix go l := match l with
              | [] => Some []
              | x :: r => match f x, go r with Some y, Some ys => Some (y :: ys) | _, _ => None end
              end.

Fixpoint sem (t : dt) : option dv :=
  match t with
  | TLeaf e => event_dv e
  | TChunked b body =>
      match chunk_data (abegin_elem_bytes b) body 0 false [] with
      | Some data => Some (abegin_dv b data)
      | None => None
      end
  | TList l => match omap2 sem l with Some ds => Some (DList ds) | None => None end
  | TMap kvs =>
      match omap2 (fun '(k, v) => match sem k, sem v with Some a, Some b => Some (a, b) | _, _ => None end) kvs with
      | Some ds => Some (DMap ds)
      | None => None
      end
  | TNode v ch => match sem v, omap2 sem ch with Some a, Some ds => Some (DNode a ds) | _, _ => None end
  | TEdge a b c => match sem a, sem b, sem c with Some x, Some y, Some z => Some (DEdge x y z) | _, _, _ => None end
  | TRecord name vals => match omap2 sem vals with Some ds => Some (DRecord name ds) | None => None end
  | TMark id t => match sem t with Some d => Some (DMark id d) | None => None end
  | TRef id => Some (DRef id)
  end.

(* ---- erasure: records -> maps, references -> targets, markers dropped ---- *)
Fixpoint zip_kv (ks vs : list dv) : list (dv * dv) :=
  match ks, vs with
  | k :: ks', v :: vs' => (k, v) :: zip_kv ks' vs'
  | _, _ => []
  end.

(* environment: markers completed so far (document order), already erased *)
Definition denv := list (bytes * dv).
Fixpoint env_lookup (id : bytes) (env : denv) : option dv :=
  match env with
  | [] => None
  | (i, d) :: r => if bytes_eqb i id then Some d else env_lookup id r
  end.

(* erase d in document order; forward references are not resolved here (None) *)
Section Erase.
  Variable rts : list (bytes * list dv).        (* record types: key data *)

  Definition erase_list (erase : denv -> dv -> option (dv * denv)) :=
    fix go (env : denv) (l : list dv) : option (list dv * denv) :=
      match l with
      | [] => Some ([], env)
      | x :: r =>
        match erase env x with
        | Some (y, env1) =>
            match go env1 r with Some (ys, env2) => Some (y :: ys, env2) | None => None end
        | None => None
        end
      end.

  Fixpoint erase (env : denv) (d : dv) : option (dv * denv) :=
    match d with
    | DList l => match erase_list erase env l with Some (l', e) => Some (DList l', e) | None => None end
    | DMap kvs =>
        let go := fix go (env : denv) (l : list (dv * dv)) : option (list (dv * dv) * denv) :=
          match l with
          | [] => Some ([], env)
          | (k, v) :: r =>
            match erase env k with
            | Some (k', e1) =>
              match erase e1 v with
              | Some (v', e2) => match go e2 r with Some (r', e3) => Some ((k', v') :: r', e3) | None => None end
              | None => None
              end
            | None => None
            end
          end in
        match go env kvs with Some (l', e) => Some (DMap l', e) | None => None end
    | DNode v ch =>
        match erase env v with
        | Some (v', e1) => match erase_list erase e1 ch with Some (ch', e2) => Some (DNode v' ch', e2) | None => None end
        | None => None
        end
    | DEdge a b c =>
        match erase env a with
        | Some (a', e1) =>
          match erase e1 b with
          | Some (b', e2) => match erase e2 c with Some (c', e3) => Some (DEdge a' b' c', e3) | None => None end
          | None => None
          end
        | None => None
        end
    | DRecord name vals =>
        match tab_lookup name rts, erase_list erase env vals with
        | Some keys, Some (vals', e) => Some (DMap (zip_kv keys vals'), e)
        | _, _ => None
        end
    | DMark id v => match erase env v with Some (v', e) => Some (v', (id, v') :: e) | None => None end
    | DRef id => match env_lookup id env with Some d' => Some (d', env) | None => None end
    | _ => Some (d, env)
    end.
End Erase.

Definition erase_doc (rts : list (bytes * list dv)) (d : dv) : option dv :=
  match erase rts [] d with Some (d', _) => Some d' | None => None end.

(* ---- the data of a built value (what marshaling it again produces) ---- *)
Fixpoint to_dv (v : uval) : dv :=
  match v with
  | UNil | UHole _ => DNull
  | UBool b => DBool b
  | UInt z => DInt z
  | UUint n => DInt (Z.of_N n)
  | UBigInt _ (Some z) => DInt z
  | UBigInt _ None | UBigFloat _ None | UBigDec _ None => DNull
  | UFloat b => float_dv b
  | UBigFloat _ (Some f) => DBigFloat f
  | UDec d => dec_dv d
  | UBigDec _ (Some d) => bigdec_dv d
  | UStr s => DStr s
  | UBytes b => DArr AT_Uint8 b
  | UTyped t elems => DArr t (typed_bytes t elems)
  | URid _ out => DRid out
  | UUid b => DUid b
  | UMedia mt data => DMedia mt data
  | UTime _ out => DTime out
  | UCTime s => DTime s
  | UList l => DList (map to_dv l)
  | UMap _ kvs => DMap (map (fun '(k, x) => (to_dv k, to_dv x)) kvs)
  | UNode a ch => DNode (to_dv a) (map to_dv ch)
  | UEdge a b c => DEdge (to_dv a) (to_dv b) (to_dv c)
  end.

(* ---- equality of document data; maps are unordered ---- *)
Definition remove_first {A} (p : A -> bool) : list A -> option (list A) :=
  fix go l := match l with
              | [] => None
              | x :: r => if p x then Some r else match go r with Some r' => Some (x :: r') | None => None end
              end.

Fixpoint dv_eqb (a b : dv) : bool :=
  let list_eq := fix go (l m : list dv) : bool :=
    match l, m with
    | [], [] => true
    | x :: l', y :: m' => dv_eqb x y && go l' m'
    | _, _ => false
    end in
  match a, b with
  | DNull, DNull | DNegZero, DNegZero => true
  | DBool x, DBool y | DNan x, DNan y => Bool.eqb x y
  | DInt x, DInt y => (x =? y)%Z
  | DFloat x, DFloat y => x =? y
  | DBigFloat x, DBigFloat y => bigfloat_eqb x y
  | DDec x, DDec y | DBigDec x, DBigDec y => dfloat_eqb x y
  | DUid x, DUid y | DTime x, DTime y | DStr x, DStr y | DRid x, DRid y | DRemote x, DRemote y
  | DRef x, DRef y => bytes_eqb x y
  | DArr t1 d1, DArr t2 d2 => (t1 =? t2) && bytes_eqb d1 d2
  | DMedia m1 d1, DMedia m2 d2 => bytes_eqb m1 m2 && bytes_eqb d1 d2
  | DCustomBin c1 d1, DCustomBin c2 d2 | DCustomText c1 d1, DCustomText c2 d2 => (c1 =? c2) && bytes_eqb d1 d2
  | DList l, DList m => list_eq l m
  | DMap l, DMap m =>
      (fix go (l : list (dv * dv)) (m : list (dv * dv)) : bool :=
         match l with
         | [] => match m with [] => true | _ => false end
         | (k, v) :: l' =>
           match remove_first (fun '(k2, v2) => dv_eqb k k2 && dv_eqb v v2) m with
           | Some m' => go l' m'
           | None => false
           end
         end) l m
  | DNode v1 c1, DNode v2 c2 => dv_eqb v1 v2 && list_eq c1 c2
  | DEdge a1 b1 c1, DEdge a2 b2 c2 => dv_eqb a1 a2 && dv_eqb b1 b2 && dv_eqb c1 c2
  | DRecord n1 v1, DRecord n2 v2 => bytes_eqb n1 n2 && list_eq v1 v2
  | DMark i1 v1, DMark i2 v2 => bytes_eqb i1 i2 && dv_eqb v1 v2
  | _, _ => false
  end.

(* ---- comparing a built value with what the implementation built ----
   identities are not observable; Go ranges over maps in random order *)
Fixpoint uval_eqb (a b : uval) : bool :=
  let list_eq := fix go (l m : list uval) : bool :=
    match l, m with
    | [], [] => true
    | x :: l', y :: m' => uval_eqb x y && go l' m'
    | _, _ => false
    end in
  match a, b with
  | UNil, UNil => true
  | UBool x, UBool y => Bool.eqb x y
  | UInt x, UInt y => (x =? y)%Z
  | UUint x, UUint y | UFloat x, UFloat y => x =? y
  | UBigInt _ x, UBigInt _ y => option_eqb Z.eqb x y
  | UBigFloat _ x, UBigFloat _ y => option_eqb bigfloat_eqb x y
  | UDec x, UDec y => dfloat_eqb x y
  | UBigDec _ x, UBigDec _ y => option_eqb dfloat_eqb x y
  | UStr x, UStr y | UBytes x, UBytes y | URid _ x, URid _ y | UUid x, UUid y | UCTime x, UCTime y => bytes_eqb x y
  | UTyped t1 e1, UTyped t2 e2 => (t1 =? t2) && list_eqb N.eqb e1 e2
  | UMedia m1 d1, UMedia m2 d2 => bytes_eqb m1 m2 && bytes_eqb d1 d2
  | UTime _ o1, UTime _ o2 => bytes_eqb o1 o2
  | UList l, UList m => list_eq l m
  | UMap _ l, UMap _ m =>
      (fix go (l : list (uval * uval)) (m : list (uval * uval)) : bool :=
         match l with
         | [] => match m with [] => true | _ => false end
         | (k, v) :: l' =>
           match remove_first (fun '(k2, v2) => uval_eqb k k2 && uval_eqb v v2) m with
           | Some m' => go l' m'
           | None => false
           end
         end) l m
  | UNode v1 c1, UNode v2 c2 => uval_eqb v1 v2 && list_eq c1 c2
  | UEdge a1 b1 c1, UEdge a2 b2 c2 => uval_eqb a1 a2 && uval_eqb b1 b2 && uval_eqb c1 c2
  | _, _ => false
  end.

(* ---- reading back what the iterator emits: value events, lists, maps, nodes, and edges
   without an end-container event (iterateEdge) ---- *)
Fixpoint pair_up (l : list dv) : option (list (dv * dv)) :=
  match l with
  | [] => Some []
  | k :: v :: r => match pair_up r with Some kvs => Some ((k, v) :: kvs) | None => None end
  | _ => None
  end.

Fixpoint parse_val (fuel : nat) (es : list event) : option (dv * list event) :=
  match fuel with
  | O => None
  | S f =>
    let parse_seq := fix go (n : nat) (es : list event) : option (list dv * list event) :=
      match n with
      | O => None
      | S m =>
        match es with
        | EEnd :: r => Some ([], r)
        | _ => match parse_val f es with
               | Some (d, r) => match go m r with Some (ds, r') => Some (d :: ds, r') | None => None end
               | None => None
               end
        end
      end in
    match es with
    | EList :: r => match parse_seq (S (length r)) r with Some (ds, r') => Some (DList ds, r') | None => None end
    | EMap :: r =>
        match parse_seq (S (length r)) r with
        | Some (ds, r') => match pair_up ds with Some kvs => Some (DMap kvs, r') | None => None end
        | None => None
        end
    | ENode :: r =>
        match parse_seq (S (length r)) r with
        | Some (d :: ds, r') => Some (DNode d ds, r')
        | _ => None
        end
    | EEdge :: r =>
        match parse_val f r with
        | Some (a, r1) =>
          match parse_val f r1 with
          | Some (b, r2) => match parse_val f r2 with Some (c, r3) => Some (DEdge a b c, r3) | None => None end
          | None => None
          end
        | None => None
        end
    | e :: r => match event_dv e with Some d => Some (d, r) | None => None end
    | [] => None
    end
  end.

Definition parse_iter (es : list event) : option dv :=
  match es with
  | EBeginDoc :: EVersion _ :: r =>
      match parse_val (S (length r)) r with
      | Some (d, [EEndDoc]) => Some d
      | _ => None
      end
  | _ => None
  end.

(* ------------------------------------------------------------------ *)
(* Correspondence cases                                                 *)
(* ------------------------------------------------------------------ *)

(* what the implementation did with the events: built a value; or panicked at
   event [i] and OnError returned (or panicked); or panicked and OnError never returned;
   ICyclic: the value built refers to itself *)
Inductive impl_outcome := IOk (v : uval) | ICyclic | IErr (i : N) | IHang (i : N).

Inductive build_case :=
(* events fed to a fresh BuilderEventReceiver; observed url / time conversions; outcome;
   and, when a value was built and could be iterated, the iterator's events for it *)
| BuildCase (es : list event)
            (urls : list (bytes * option bytes)) (times : list (bytes * option (bytes * bytes)))
            (impl : impl_outcome) (iter : option (list event)).

Fixpoint has_big_map (v : uval) : bool :=
  match v with
  | UList l => existsb has_big_map l
  | UMap _ kvs => (1 <? length kvs)%nat || existsb (fun '(k, x) => has_big_map k || has_big_map x) kvs
  | UNode a ch => has_big_map a || existsb has_big_map ch
  | UEdge a b c => has_big_map a || has_big_map b || has_big_map c
  | _ => false
  end.

Definition build_case_ok (c : build_case) : bool :=
  match c with
  | BuildCase es urls times impl iter =>
    let uc := url_of_table urls in
    let tc := time_of_table times in
    match build_untyped uc tc es, impl with
    | Ok v, IOk w =>
        uval_eqb v w &&
        match iter with
        | None => true
        | Some ies =>
          (* with at most one entry per map the event order is determined and the events must be
             the model's; in every case the data read back from the iterator's events must be to_dv *)
          match iterate_doc v with
          | None => match ies with [] => true | _ => false end      (* [] = the iterator panicked *)
          | Some mes =>
              (if has_big_map v then true else list_eqb event_eqb mes ies) &&
              match parse_iter ies with Some d => dv_eqb (to_dv v) d | None => false end
          end
        end
    | Ok _, ICyclic => built_cyclic uc tc es
    | Err, IErr i | Hang, IHang i => option_eqb N.eqb (panic_index uc tc es) (Some i)
    | _, _ => false
    end
  end.

(* ------------------------------------------------------------------ *)
(* The fragment the untyped builder handles (C06, partial)              *)
(* ------------------------------------------------------------------ *)

(* Where a value stands: map key, node value, anywhere else. *)
Inductive pos := PGen | PKey | PNodeVal.
Definition is_key (p : pos) : bool := match p with PKey => true | _ => false end.

(* chunk events through which Context.AddArrayData completes exactly once, at the last
   event, for elements of [bits] bits: the data delivered *)
Fixpoint chunks_ok (bits : N) (es : list event) (rem : N) (more : bool) (acc : bytes) : option bytes :=
  match es with
  | EArrayChunk n m :: r =>
      if negb m && (elem_byte_count bits n =? 0) then match r with [] => Some acc | _ => None end
      else chunks_ok bits r (elem_byte_count bits n) m acc
  | EArrayData d :: r =>
      let k := N.of_nat (length d) in
      if rem <? k then None
      else if negb more && (rem - k =? 0) then match r with [] => Some (acc ++ d) | _ => None end
      else chunks_ok bits r (rem - k) more (acc ++ d)
  | _ => None
  end.
Definition chunked_data (bits : N) (body : list event) : option bytes :=
  match body with
  | EArrayChunk _ _ :: _ => chunks_ok bits body 0 true []
  | _ => None
  end.
Definition abegin_bits (b : abegin) : N :=
  match b with ABArray t => nth (N.to_nat t) array_elem_bits 0 | _ => 8 end.

Fixpoint mem_id (id : bytes) (ids : list bytes) : bool :=
  match ids with [] => false | i :: r => bytes_eqb i id || mem_id id r end.

(* equality of the data of two map keys of the kinds the fragment allows; other kinds count as equal *)
Definition dkey_eqb (a b : dv) : bool :=
  match a, b with
  | DBool x, DBool y => Bool.eqb x y
  | DInt x, DInt y => (x =? y)%Z
  | DUid x, DUid y | DTime x, DTime y | DStr x, DStr y => bytes_eqb x y
  | DBool _, (DInt _ | DUid _ | DTime _ | DStr _) | DInt _, (DBool _ | DUid _ | DTime _ | DStr _)
  | DUid _, (DBool _ | DInt _ | DTime _ | DStr _) | DTime _, (DBool _ | DInt _ | DUid _ | DStr _)
  | DStr _, (DBool _ | DInt _ | DUid _ | DTime _) => false
  | _, _ => true
  end.
Fixpoint dkeys_distinct (l : list dv) : bool :=
  match l with
  | [] => true
  | x :: r => negb (existsb (dkey_eqb x) r) && dkeys_distinct r
  end.

(* the key data of the record types declared in front of a document *)
Definition rts_data (rts : list rtdecl) : option (list (bytes * list dv)) :=
  omap2 (fun d : rtdecl => match omap2 sem (snd d) with Some ks => Some (fst d, ks) | None => None end) rts.

(* the map key a record type key turns into, for the kinds whose conversion needs no library:
   booleans, 64-bit integers, UIDs and strings *)
Definition rkey (sc : scalar) : option uval :=
  match sc with
  | SBool b => Some (UBool b)
  | SInt z => Some (UInt z)
  | SUint n => Some (UUint n)
  | SUid b => if (length b =? 16)%nat then Some (UUid b) else None
  | SArr t data | SStr t data => if t =? AT_String then Some (UStr data) else None
  | _ => None
  end.

Section Fragment.
  Variable url_conv : bytes -> option bytes.
  Variable time_conv : bytes -> option (bytes * bytes).
  (* the key data of the record types of the document *)
  Variable rd : list (bytes * list dv).

  (* the conversion through the Go library gives the same text back *)
  Definition url_ok (s : bytes) : bool :=
    match url_conv s with Some o => bytes_eqb o s | None => false end.
  Definition time_ok (key : bool) (s : bytes) : bool :=
    match time_conv s with
    | None => true
    | Some (i, o) => bytes_eqb o s && (negb key || bytes_eqb i s)
    end.

  Definition wide_width (t : arrty) : N :=
    if (t =? AT_Uint16) || (t =? AT_Int16) then 2
    else if (t =? AT_Uint32) || (t =? AT_Int32) then 4
    else if (t =? AT_Uint64) || (t =? AT_Int64) || (t =? AT_Float64) then 8
    else if t =? AT_Int8 then 1
    else 0.
  Definition array_ok (t : arrty) (data : bytes) : bool :=
    (t =? AT_Uint8) || (t =? AT_String) || ((t =? AT_ResourceID) && url_ok data)
    || (negb (wide_width t =? 0) && bytes_wfb data && (N.of_nat (length data) mod wide_width t =? 0))
    || ((t =? AT_Float32) && bytes_wfb data && (N.of_nat (length data) mod 4 =? 0)
        && forallb (fun f => negb (is_snan32 f)) (bytes_to_slice 4 data)).
  Definition stringlike_ok (t : arrty) (data : bytes) : bool :=
    (t =? AT_String) || ((t =? AT_ResourceID) && url_ok data).

  Definition leaf_ok (p : pos) (e : event) : bool :=
    match e with
    | EBool _ | ETrue | EFalse | EPosInt _ | EInt _ => true
    | ENegInt n => negb (is_key p) || (negb (n =? 0) && (n <=? max_int64))
    | EUid b => (length b =? 16)%nat
    | ETime s => time_ok (is_key p) s
    | EArray t _ data => if is_key p then t =? AT_String else array_ok t data
    | EStringArray t data => if is_key p then t =? AT_String else stringlike_ok t data
    | ENull | EBigInt _ | EFloat _ | EBigFloat _ | EDecimal _ | EBigDecimal _ | ENan _ => negb (is_key p)
    | EMedia mt _ => negb (is_key p) && match mt with [] => false | _ => true end
    | _ => false
    end.

  (* arrays in chunks *)
  Definition chunked_ok (p : pos) (b : abegin) (body : list event) : bool :=
    match chunked_data (abegin_bits b) body, chunk_data (abegin_elem_bytes b) body 0 false [] with
    | Some data, Some data' =>
        bytes_eqb data data' &&
        match b with
        | ABArray t => if is_key p then t =? AT_String else array_ok t data
        | ABMedia mt => negb (is_key p) && match mt with [] => false | _ => true end
        | ABCustom _ _ => false
        end
    | _, _ => false
    end.

  Definition is_container (t : dt) : bool :=
    match t with TList _ | TMap _ | TNode _ _ | TRecord _ _ => true | _ => false end.

  (* the data of a map key, its marker removed *)
  Definition key_data (k : dt) : option dv :=
    match k with TMark _ k' => sem k' | _ => sem k end.

  (* supp ids p t: t is in the fragment at position p when the markers [ids] are complete;
     returns the markers complete after t *)
  Fixpoint supp (ids : list bytes) (p : pos) (t : dt) : option (list bytes) :=
    let supp_list := fix go (ids : list bytes) (l : list dt) : option (list bytes) :=
      match l with
      | [] => Some ids
      | x :: r => match supp ids PGen x with Some ids1 => go ids1 r | None => None end
      end in
    match t with
    | TLeaf e => if leaf_ok p e then Some ids else None
    | TChunked b body => if chunked_ok p b body then Some ids else None
    | TList l => if is_key p then None else supp_list ids l
    | TMap kvs =>
        if is_key p then None
        else if negb (match omap2 key_data (map fst kvs) with Some ds => dkeys_distinct ds | None => false end) then None
        else (fix go (ids : list bytes) (l : list (dt * dt)) : option (list bytes) :=
                match l with
                | [] => Some ids
                | (k, v) :: r =>
                  match supp ids PKey k with
                  | Some ids1 => match supp ids1 PGen v with Some ids2 => go ids2 r | None => None end
                  | None => None
                  end
                end) ids kvs
    | TNode v ch =>
        if is_key p then None
        else match supp ids PNodeVal v with Some ids1 => supp_list ids1 ch | None => None end
    | TMark id t' =>
        if mem_id id ids then None
        else match t' with
             | TMark _ _ | TRef _ => None
             | _ =>
               match p, is_container t' with
               | PNodeVal, false => None        (* a marked scalar as node value derails the builder stack *)
               | _, _ =>
                 match supp ids (if is_key p then PKey else PGen) t' with
                 | Some ids1 => if mem_id id ids1 then None else Some (id :: ids1)
                 | None => None
                 end
               end
             end
    | TRef id => if is_key p then None else if mem_id id ids then Some ids else None
    | TRecord name vals =>
        if is_key p then None
        else match tab_lookup name rd with
             | Some kds => if (length vals =? length kds)%nat then supp_list ids vals else None
             | None => None
             end
    | TEdge _ _ _ => None
    end.

  (* a key of a record type: one value event (or a string in chunks) of a kind [rkey] knows *)
  Definition rt_key_ok (k : dt) : bool :=
    match k with
    | TLeaf e => match event_scalar e with
                 | Some sc => match rkey sc with Some _ => true | None => false end
                 | None => false
                 end
    | TChunked b body => chunked_ok PKey b body
    | _ => false
    end.
  Fixpoint names_distinct (l : list bytes) : bool :=
    match l with [] => true | x :: r => negb (mem_id x r) && names_distinct r end.
  Definition rts_ok (rts : list rtdecl) : bool :=
    names_distinct (map fst rts) &&
    forallb (fun d : rtdecl =>
               forallb rt_key_ok (snd d) &&
               match omap2 sem (snd d) with Some ks => dkeys_distinct ks | None => false end) rts.
End Fragment.

(* a whole document of the fragment: record types with distinct names and distinct keys of the
   kinds above, the top-level value in the fragment *)
Definition supported6 (url_conv : bytes -> option bytes) (time_conv : bytes -> option (bytes * bytes))
           (rts : list rtdecl) (t : dt) : bool :=
  match rts_data rts with
  | Some rd => rts_ok url_conv rts && match supp url_conv time_conv rd [] PGen t with Some _ => true | None => false end
  | None => false
  end.

(* data that the iterator can emit as a valid document: no edge (iterateEdge omits the
   end-container event), no empty media type (the iterator refuses it); arrays of numbers *)
Fixpoint dv_plain (d : dv) : bool :=
  match d with
  | DEdge _ _ _ | DRecord _ _ | DMark _ _ | DRef _ => false
  | DMedia mt _ => match mt with [] => false | _ => true end
  | DArr t _ => negb ((t =? AT_String) || (t =? AT_ResourceID) || (t =? AT_ReferenceRemote))
  | DList l => forallb dv_plain l
  | DMap kvs => forallb (fun '(a, b) => dv_plain a && dv_plain b) kvs
  | DNode a ch => dv_plain a && forallb dv_plain ch
  | _ => true
  end.

(* ------------------------------------------------------------------ *)
(* Correspondence of the fragment with the validator                    *)
(* ------------------------------------------------------------------ *)

Require CE.Model.Rules.

(* A generated document of the fragment: its events, the same document as record types and tree, the observed
   library conversions, and whether the validator of the implementation accepted the events.
   Checked: the tree flattens to the events (comments and padding aside), it lies in [supported6],
   it has data whose erasure the iterator can emit ([dv_plain]), and the model of the validator agrees with the implementation about it
   (the generator keeps to what the validator accepts; [supported6] itself is more liberal,
   e.g. it admits a marker inside a marked container). *)
Inductive frag_case :=
| FragCase (es : list event) (rts : list rtdecl) (t : dt)
           (urls : list (bytes * option bytes)) (times : list (bytes * option (bytes * bytes)))
           (impl_accepts : bool).

Definition frag_case_ok (c : frag_case) : bool :=
  match c with
  | FragCase es rts t urls times acc =>
      list_eqb event_eqb (strip es) (doc_events rts t)
      && supported6 (url_of_table urls) (time_of_table times) rts t
      && match sem t, rts_data rts with
         | Some d, Some rd => match erase_doc rd d with Some d' => dv_plain d' | None => false end
         | _, _ => false
         end
      && Bool.eqb (Rules.accepts_document Rules.default_rcfg es) acc
  end.
