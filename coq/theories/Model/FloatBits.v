(* Bit-level model of the binary float width selection of the CBE encoder
   (/repo/cbe/encoder.go OnFloat, /repo/cbe/decoder.go cbeTypeFloat16/32/64,
   /repo/internal/common/common.go Float64FromFloat32Bits & co).

   Bit patterns are N.  float64: sign 1 / exponent 11 / mantissa 52.
   float32: 1 / 8 / 23.  CBE "float16" is bfloat16 = top 16 bits of a float32.

   Executable definitions only; the proofs are in Proofs/FloatBitsProofs.v. *)
From CE Require Export Base.Prelude.
From Coq Require Import QArith.

Local Open Scope N_scope.

(* ---- constants (written out so that [lia] sees literals) ---- *)
Definition p2_16 : N := 65536.
Definition p2_22 : N := 4194304.
Definition p2_23 : N := 8388608.
Definition p2_29 : N := 536870912.
Definition p2_31 : N := 2147483648.
Definition p2_32 : N := 4294967296.
Definition p2_52 : N := 4503599627370496.
Definition p2_63 : N := 9223372036854775808.
Definition p2_64 : N := 18446744073709551616.

(* /repo/internal/common/consts.go *)
Definition f64_quiet_nan_bits     : N := 0x7ffc000000000000. (* Float64QuietNanBits *)
Definition f64_signaling_nan_bits : N := 0x7ff4000000000000. (* Float64SignalingNanBits *)
Definition f32_quiet_nan_bits     : N := 0x7fe00000.         (* Float32QuietNanBits *)
Definition f32_signaling_nan_bits : N := 0x7fa00000.         (* Float32SignalingNanBits *)

(* ---- field extraction ---- *)
Definition f64_sign (b : N) : N := (b / p2_63) mod 2.
Definition f64_expo (b : N) : N := (b / p2_52) mod 2048.
Definition f64_mant (b : N) : N := b mod p2_52.

Definition f32_sign (w : N) : N := (w / p2_31) mod 2.
Definition f32_expo (w : N) : N := (w / p2_23) mod 256.
Definition f32_mant (w : N) : N := w mod p2_23.

(* ---- field assembly ---- *)
Definition f64_make (s e m : N) : N := s * p2_63 + e * p2_52 + m.
Definition f32_make (s e m : N) : N := s * p2_31 + e * p2_23 + m.

(* ---- classification ---- *)
Definition f64_is_nan  (b : N) : bool := (f64_expo b =? 2047) && negb (f64_mant b =? 0).
Definition f64_is_inf  (b : N) : bool := (f64_expo b =? 2047) && (f64_mant b =? 0).
Definition f64_is_zero (b : N) : bool := (f64_expo b =? 0) && (f64_mant b =? 0).
Definition f32_is_nan  (w : N) : bool := (f32_expo w =? 255) && negb (f32_mant w =? 0).
Definition f32_is_inf  (w : N) : bool := (f32_expo w =? 255) && (f32_mant w =? 0).
Definition f32_is_zero (w : N) : bool := (f32_expo w =? 0) && (f32_mant w =? 0).

(* common.HasQuietNanBitSet64 / HasQuietNanBitSet32: mantissa top bit *)
Definition f64_quiet_bit (b : N) : bool := N.testbit b 51.
Definition f32_quiet_bit (w : N) : bool := N.testbit w 22.

(* ---- widening float32 -> float64 (exact) ----
   normal    (0 < e < 255): value 1.m * 2^(e-127)      -> exponent e-127+1023 = e+896, mantissa m<<29
   subnormal (e = 0, m<>0): value m * 2^-149, l := floor(log2 m) in 0..22,
                            = 1.(m - 2^l) * 2^(l-149)  -> exponent l-149+1023 = l+874,
                                                          mantissa (m - 2^l) << (52-l)
   NaN: the canonical constants returned by common.Float64FromFloat32Bits. *)
Definition f32_widen (w : N) : N :=
  let s := f32_sign w in
  let e := f32_expo w in
  let m := f32_mant w in
  if e =? 255 then
    if m =? 0 then f64_make s 2047 0
    else if f32_quiet_bit w then f64_quiet_nan_bits else f64_signaling_nan_bits
  else if e =? 0 then
    if m =? 0 then f64_make s 0 0
    else let l := N.log2 m in
         f64_make s (l + 874) ((m - 2 ^ l) * 2 ^ (52 - l))
  else f64_make s (e + 896) (m * p2_29).

Definition bf16_widen (h : N) : N := f32_widen (h * 65536).
Definition bf16_is_nan (h : N) : bool := f32_is_nan (h * 65536).

(* ---- narrowing float64 -> float32, when exact ---- *)
Definition f64_narrow32 (b : N) : option N :=
  let s := f64_sign b in
  let e := f64_expo b in
  let m := f64_mant b in
  if e =? 2047 then
    if m =? 0 then Some (f32_make s 255 0) else None
  else if e =? 0 then
    if m =? 0 then Some (f32_make s 0 0) else None
  else if (897 <=? e) && (e <=? 1150) then
    if m mod p2_29 =? 0 then Some (f32_make s (e - 896) (m / p2_29)) else None
  else if (874 <=? e) && (e <=? 896) then
    let l := e - 874 in
    let q := 2 ^ (52 - l) in
    if m mod q =? 0 then Some (f32_make s 0 (2 ^ l + m / q)) else None
  else None.

Definition f64_narrow16 (b : N) : option N :=
  match f64_narrow32 b with
  | Some w => if w mod 65536 =? 0 then Some (w / 65536) else None
  | None => None
  end.

Inductive fwidth := W16 | W32 | W64.

Definition fwidth_eqb (a b : fwidth) : bool :=
  match a, b with W16, W16 | W32, W32 | W64, W64 => true | _, _ => false end.

(* Narrowest width holding [b] exactly (encoder.go OnFloat, after the
   inf / NaN / zero special cases which are written as dedicated type codes). *)
Definition float_width (b : N) : fwidth :=
  match f64_narrow16 b with
  | Some _ => W16
  | None => match f64_narrow32 b with Some _ => W32 | None => W64 end
  end.

(* Bit pattern the decoder reports for each stored width
   (decoder.go: float64(f32) with the signalling NaN patched up). *)
Definition float_decode (wd : fwidth) (payload : N) : N :=
  match wd with
  | W16 => bf16_widen payload
  | W32 => f32_widen payload
  | W64 => payload
  end.

(* Payload the encoder writes for a finite non-zero [b]. *)
Definition float_encode (b : N) : fwidth * N :=
  match f64_narrow16 b with
  | Some h => (W16, h)
  | None => match f64_narrow32 b with Some w => (W32, w) | None => (W64, b) end
  end.

(* ---- real-value semantics ----
   Magnitude scaled by a fixed power of two so that it is an integer:
     |value(b)| = f64_mag b / 2^1074     |value(w)| = f32_mag w / 2^149
   None for NaN and infinities. *)
Definition f64_mag (b : N) : option N :=
  let e := f64_expo b in
  let m := f64_mant b in
  if e =? 2047 then None
  else if e =? 0 then Some m
  else Some ((p2_52 + m) * 2 ^ (e - 1)).

Definition f32_mag (w : N) : option N :=
  let e := f32_expo w in
  let m := f32_mant w in
  if e =? 255 then None
  else if e =? 0 then Some m
  else Some ((p2_23 + m) * 2 ^ (e - 1)).

Definition signed (s : N) (x : N) : Z := if s =? 0 then Z.of_N x else (- Z.of_N x)%Z.

Definition f64_value (b : N) : option Q :=
  match f64_mag b with
  | Some x => Some (Qmake (signed (f64_sign b) x) (2 ^ 1074)%positive)
  | None => None
  end.

Definition f32_value (w : N) : option Q :=
  match f32_mag w with
  | Some x => Some (Qmake (signed (f32_sign w) x) (2 ^ 149)%positive)
  | None => None
  end.
