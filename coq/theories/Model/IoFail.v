(* C29 — I/O failures are always reported.

   Executable model of the error plumbing between a destination io.Writer /
   source io.Reader and the public entry points of package ce:

   write side   cbe/encoder_writer.go, cte/encoder_writer.go (writeBytes,
                WriteString*, StringWriterAdapter, SetWriter), the recover()
                scope of cbe/marshal.go and cte/marshal.go (Marshal);
   read side    cbe/decoder_reader.go (Reader.Read — the normalising layer every read goes
                through —, ReadUint8, ReadTypeOrEOF, readIntoBuffer, readSmallULEB128 ...), go-uleb128 DecodeWithByteBuffer,
                go-compact-time fillSlice / header reads, cbe/decoder.go
                (Decode + main loop: runs until EOF), cte/decoder.go (io.Copy),
                ce/api.go UnmarshalCE and ce/decoder.go UniversalDecoder.Decode
                (bufio.Reader: Peek, Read, WriteTo), the recover() scopes of
                Decode / Unmarshal.

   What is NOT modelled: what the encoders write and what the decoders do with
   the bytes.  An encoder is the list of write calls it issues per event; the
   CBE decoder above the reader primitives is an arbitrary deterministic
   program (Section variables D, dnext, dfeed, dfinal) that chooses the next
   reader primitive from what was read so far; the CTE parser is an arbitrary
   predicate on the text read.  The destination writer and the source reader are
   arbitrary state machines (Section variables).  Executable definitions only. *)
From CE Require Export Base.Prelude.
Open Scope N_scope.

(* ------------------------------------------------------------------------- *)
(* Call sites whose error handling the harness extracts from the source with a
   go/ast walk ("shape").  W* = calls on the destination writer, R* = calls on
   the source reader (or calls that hand back a reader error), G* = functions
   holding a recover() scope that turns a panic into the returned error. *)
Inductive site :=
| WCbeBytes         (* cbe/encoder_writer.go writeBytes:      writer.Write *)
| WCbeString        (* cbe/encoder_writer.go WriteString:     stringWriter.WriteString *)
| WCteBytes         (* cte/encoder_writer.go writeBytes *)
| WCteStringNotLF   (* cte/encoder_writer.go WriteStringNotLF *)
| WCteStringLF      (* cte/encoder_writer.go WriteStringPossibleLF *)
| RCbeUint8         (* cbe/decoder_reader.go ReadUint8 *)
| RCbeTypeOrEOF     (* cbe/decoder_reader.go ReadTypeOrEOF *)
| RCbeIntoBuffer    (* cbe/decoder_reader.go readIntoBuffer *)
| RCbeRead          (* cbe/decoder_reader.go Reader.Read: the only Read on the source; an error is remembered (pendingErr), never dropped *)
| RCbePropagate     (* cbe/decoder_reader.go: err results of uleb128 / compact_float / compact_time decoders *)
| RUlebFirst        (* go-uleb128 DecodeWithByteBuffer, first byte *)
| RUlebCont         (* go-uleb128 DecodeWithByteBuffer, continuation bytes *)
| RCtByte           (* go-compact-time: single header-byte reads (time, timestamp, timezone) *)
| RCtFill           (* go-compact-time fillSlice *)
| RCteCopy          (* cte/decoder.go Decode: result of io.Copy *)
| RCePeekUnmarshal  (* ce/api.go UnmarshalCE: result of Peek(1) *)
| RCePeekDecode     (* ce/decoder.go UniversalDecoder.Decode: result of Peek(1) *)
| GCbeMarshal | GCteMarshal | GCbeUnmarshal | GCteUnmarshal | GCbeDecode | GCteDecode
(* standard-library read sites (not in the shape, only labels in traces) *)
| RIoCopy | RBufioFill | RBufioRead | RBufioDirect
| SUnknown.

(* Checked:   every non-nil error aborts the operation (panic / return err);
   Weak:      the error is kept in a variable that a later call may overwrite
              (only meaningful for RUlebCont, which is what the code does);
   Unchecked: the error is dropped. *)
Inductive sclass := Checked | Weak | Unchecked.

Definition site_idx (s : site) : N :=
  match s with
  | WCbeBytes => 0 | WCbeString => 1 | WCteBytes => 2 | WCteStringNotLF => 3 | WCteStringLF => 4
  | RCbeUint8 => 5 | RCbeTypeOrEOF => 6 | RCbeIntoBuffer => 7 | RCbePropagate => 8
  | RUlebFirst => 9 | RUlebCont => 10 | RCtByte => 11 | RCtFill => 12
  | RCteCopy => 13 | RCePeekUnmarshal => 14 | RCePeekDecode => 15
  | GCbeMarshal => 16 | GCteMarshal => 17 | GCbeUnmarshal => 18 | GCteUnmarshal => 19
  | GCbeDecode => 20 | GCteDecode => 21
  | RIoCopy => 22 | RBufioFill => 23 | RBufioRead => 24 | RBufioDirect => 25
  | SUnknown => 26 | RCbeRead => 27
  end.
Definition site_eqb (a b : site) : bool := site_idx a =? site_idx b.
Definition sclass_eqb (a b : sclass) : bool :=
  match a, b with Checked, Checked | Weak, Weak | Unchecked, Unchecked => true | _, _ => false end.

Definition shape := site -> sclass.

Fixpoint shape_of_list (l : list (site * sclass)) (s : site) : sclass :=
  match l with
  | [] => Unchecked
  | (s', c) :: r => if site_eqb s s' then c else shape_of_list r s
  end.

(* The shape of the current code, as extracted by the harness (compared with the
   extraction on every run by a ShapeCase). *)
Definition current_shape_list : list (site * sclass) :=
  [ (WCbeBytes, Checked); (WCbeString, Checked); (WCteBytes, Checked);
    (WCteStringNotLF, Checked); (WCteStringLF, Checked);
    (RCbeUint8, Checked); (RCbeTypeOrEOF, Checked); (RCbeIntoBuffer, Checked); (RCbeRead, Checked); (RCbePropagate, Checked);
    (RUlebFirst, Checked); (RUlebCont, Weak); (RCtByte, Checked); (RCtFill, Checked);
    (RCteCopy, Checked); (RCePeekUnmarshal, Checked); (RCePeekDecode, Checked);
    (GCbeMarshal, Checked); (GCteMarshal, Checked); (GCbeUnmarshal, Checked); (GCteUnmarshal, Checked);
    (GCbeDecode, Checked); (GCteDecode, Checked) ].
Definition current_shape : shape := shape_of_list current_shape_list.

(* The sites the extraction must cover. *)
Definition shape_sites : list site := map fst current_shape_list.

Definition chk (sh : shape) (s : site) : bool :=
  match sh s with Checked => true | _ => false end.

(* Hypothesis of the full theorems: every site aborts on every error. *)
Definition all_checked (sh : shape) : bool := forallb (chk sh) shape_sites.
(* Hypothesis of the partial theorems: everything Checked except that the ULEB
   continuation read may be Weak (the current code). *)
Definition all_checked_but_uleb (sh : shape) : bool :=
  forallb (fun s => if site_eqb s RUlebCont then negb (sclass_eqb (sh s) Unchecked) else chk sh s) shape_sites.

(* A recover() scope: a panic becomes the returned error, unless the scope is
   missing or configuration.Debug.PassThroughPanics is set. *)
Definition guard {A} (sh : shape) (scope : site) (pass : bool) (o : outcome A) : outcome A :=
  match o with
  | Panic => if chk sh scope && negb pass then Err else Panic
  | o' => o'
  end.

(* Result of a piece of code that signals errors by panicking. *)
Inductive pres (A : Type) := POk (a : A) | PPanic | PHang.
Arguments POk {A} a.
Arguments PPanic {A}.
Arguments PHang {A}.

(* ========================================================================= *)
(* WRITE SIDE                                                                 *)

Inductive wkind := KWrite | KWriteString.
Definition wkind_eqb (a b : wkind) : bool :=
  match a, b with KWrite, KWrite | KWriteString, KWriteString => true | _, _ => false end.
(* One call on the destination. *)
Record wcall := { wc_kind : wkind; wc_len : N }.

Inductive wfmt := WFcbe | WFcte.
(* The Writer method an encoder calls: writeBytes (directly or through the
   Flush* / Write*Byte* helpers), WriteString / WriteStringNotLF, WriteStringPossibleLF. *)
Inductive lsite := LBytes | LStringNotLF | LStringLF.
Record lwrite := { lw_site : lsite; lw_len : N }.

Definition bytes_site (f : wfmt) : site := match f with WFcbe => WCbeBytes | WFcte => WCteBytes end.
Definition string_site (f : wfmt) (lf : bool) : site :=
  match f with WFcbe => WCbeString | WFcte => if lf then WCteStringLF else WCteStringNotLF end.

(* SetWriter: if the destination implements io.StringWriter its WriteString is
   called at the WriteString* site; otherwise the StringWriterAdapter copies the
   string into the buffer and flushes it through writeBytes (and itself returns
   a nil error). *)
Definition phys (f : wfmt) (dest_sw : bool) (l : lsite) : site * wkind :=
  match l with
  | LBytes => (bytes_site f, KWrite)
  | LStringNotLF => if dest_sw then (string_site f false, KWriteString) else (bytes_site f, KWrite)
  | LStringLF => if dest_sw then (string_site f true, KWriteString) else (bytes_site f, KWrite)
  end.

Record wev := { we_call : wcall; we_site : site; we_failed : bool }.

Inductive enc_out := EncDone | EncPanicAt (i : N).

Section Writer.
  (* The destination: any state machine; [true] = the call returned a non-nil error.
     (The byte count it returns is ignored by the code.) *)
  Variable W : Type.
  Variable wstep : W -> wcall -> W * bool.

  Record wst := { ws_w : W; ws_tr : list wev (* most recent first *) }.

  (* `if _, err := w.Write(b); err != nil { panic(err) }` *)
  Definition do_lwrite (sh : shape) (f : wfmt) (sw : bool) (st : wst) (l : lwrite) : wst * bool :=
    let '(s, k) := phys f sw (lw_site l) in
    let c := {| wc_kind := k; wc_len := lw_len l |} in
    let '(w', failed) := wstep (ws_w st) c in
    ({| ws_w := w'; ws_tr := {| we_call := c; we_site := s; we_failed := failed |} :: ws_tr st |},
     failed && chk sh s).

  (* The writes of one event, in order; a panic unwinds out of the event. *)
  Fixpoint do_lwrites (sh : shape) (f : wfmt) (sw : bool) (st : wst) (ls : list lwrite) : wst * bool :=
    match ls with
    | [] => (st, false)
    | l :: r => let '(st', p) := do_lwrite sh f sw st l in
                if p then (st', true) else do_lwrites sh f sw st' r
    end.

  (* Encoder API (NewCBEEncoder / NewCTEEncoder + PrepareToEncode + events): no
     recover() — the panic raised by the failed write escapes from the event
     call (the documented error channel of DataEventReceiver). *)
  Fixpoint feed_events (sh : shape) (f : wfmt) (sw : bool) (st : wst) (evs : list (list lwrite)) (i : N)
    : wst * enc_out :=
    match evs with
    | [] => (st, EncDone)
    | e :: r => let '(st', p) := do_lwrites sh f sw st e in
                if p then (st', EncPanicAt i) else feed_events sh f sw st' r (N.succ i)
    end.

  Definition marshal_scope (f : wfmt) : site := match f with WFcbe => GCbeMarshal | WFcte => GCteMarshal end.

  (* Marshaler.Marshal / ce.MarshalCBE / ce.MarshalCTE: PrepareToEncode, iterate
     the object (= the events), inside a recover() scope. *)
  Definition marshal (sh : shape) (f : wfmt) (sw pass : bool) (st : wst) (evs : list (list lwrite))
    : wst * outcome unit :=
    let '(st', o) := feed_events sh f sw st evs 0 in
    (st', guard sh (marshal_scope f) pass
            match o with EncDone => Ok tt | EncPanicAt _ => Panic end).
End Writer.
Arguments ws_w {W}.
Arguments ws_tr {W}.

(* A concrete destination with an injected failure schedule. *)
Record wsched := {
  wsc_calls : list N;        (* indices (from 0) of calls that fail *)
  wsc_limit : option N;      (* the destination accepts this many bytes, then fails *)
  wsc_sticky : bool          (* once failed, every later call fails too *)
}.
Record wdest := { wd_calls : N; wd_bytes : N; wd_failed : bool }.
Definition wdest0 : wdest := {| wd_calls := 0; wd_bytes := 0; wd_failed := false |}.
Definition mem_N (x : N) (l : list N) : bool := existsb (N.eqb x) l.
Definition sched_wstep (sc : wsched) (d : wdest) (c : wcall) : wdest * bool :=
  let over := match wsc_limit sc with Some l => l <? wd_bytes d + wc_len c | None => false end in
  let fails := (wsc_sticky sc && wd_failed d) || mem_N (wd_calls d) (wsc_calls sc) || over in
  ({| wd_calls := N.succ (wd_calls d);
      wd_bytes := if fails then wd_bytes d else wd_bytes d + wc_len c;
      wd_failed := wd_failed d || fails |}, fails).

(* ========================================================================= *)
(* READ SIDE                                                                  *)

(* EFail stands for any non-nil error other than io.EOF. *)
Inductive rerr := ENone | EEOF | EFail.
Definition rerr_eqb (a b : rerr) : bool :=
  match a, b with ENone, ENone | EEOF, EEOF | EFail, EFail => true | _, _ => false end.
Definition is_fail (e : rerr) : bool := match e with EFail => true | _ => false end.
Definition is_none (e : rerr) : bool := match e with ENone => true | _ => false end.
(* Result of one Read(p): the bytes stored (at most len p) and the error. *)
Record rres := { rr_data : bytes; rr_err : rerr }.
Record revent := { re_site : site; re_len : N; re_res : rres }.

Definition blen (b : bytes) : N := N.of_nat (length b).

(* The error as the code at a site sees it. *)
Definition err_at (sh : shape) (s : site) (e : rerr) : rerr := if chk sh s then e else ENone.

Inductive prim :=
| PUint8            (* Reader.ReadUint8 *)
| PTypeOrEOF        (* Reader.ReadTypeOrEOF *)
| PBytes (n : N)    (* Reader.readIntoBuffer n  (ReadBytes, ReadUint16/32/64) *)
| PUleb             (* uleb128.DecodeWithByteBuffer, called from readSmallULEB128 / compact_float / compact_time *)
| PCtByte           (* compact_time: one header byte *)
| PCtFill (n : N).  (* compact_time.fillSlice *)

(* What the decoder does next: run a reader primitive, or fail for a reason that
   is not an I/O failure (malformed document, rule violation, limits). *)
Inductive action := ADo (p : prim) | AFail.

(* What uleb128.DecodeWithByteBuffer hands back: its err result and the bytes consumed. *)
Inductive ures := URet (e : rerr) (bs : bytes) | UHang.

Section Source.
  (* The source: any state machine; [step s n] is Read(p) with len p = n. *)
  Variable S : Type.
  Variable step : S -> N -> S * rres.
  (* [spin s]: the source has stopped returning (only the normalising layer below sets it, when the
     reader underneath keeps answering (0, nil)) *)
  Variable spin : S -> bool.

  Record rst := { rs_src : S; rs_tr : list revent (* most recent first *) }.

  Definition rd (st : rst) (s : site) (n : N) : rst * rres :=
    let '(src', r) := step (rs_src st) n in
    ({| rs_src := src'; rs_tr := {| re_site := s; re_len := n; re_res := r |} :: rs_tr st |}, r).

  Variable sh : shape.

  (* ReadUint8: `if _, err := _this.Read(buf[:1]); err != nil { unexpectedError(err) }` *)
  Definition read_uint8 (st : rst) : rst * pres bytes :=
    let '(st', r) := rd st RCbeUint8 1 in
    match err_at sh RCbeUint8 (rr_err r) with
    | ENone => (st', POk (rr_data r))
    | _ => (st', PPanic)
    end.

  (* ReadTypeOrEOF: io.EOF ends the document, any other error panics. *)
  Definition read_type_or_eof (st : rst) : rst * pres (option bytes) :=
    let '(st', r) := rd st RCbeTypeOrEOF 1 in
    match err_at sh RCbeTypeOrEOF (rr_err r) with
    | ENone => (st', POk (Some (rr_data r)))
    | EEOF => (st', POk None)
    | EFail => (st', PPanic)
    end.

  (* readIntoBuffer: `for len(dst) > 0 { if n, err := reader.Read(dst); err != nil { unexpectedError(err) } else { dst = dst[n:] } }` *)
  Fixpoint read_into (fuel : nat) (st : rst) (n : N) (acc : bytes) : rst * pres bytes :=
    match fuel with
    | O => (st, PHang)
    | Datatypes.S f =>
      if n =? 0 then (st, POk acc)
      else let '(st', r) := rd st RCbeIntoBuffer n in
           match err_at sh RCbeIntoBuffer (rr_err r) with
           | ENone => read_into f st' (n - blen (rr_data r)) (acc ++ rr_data r)
           | _ => (st', PPanic)
           end
    end.

  (* uleb128.DecodeWithByteBuffer.  First byte: `if _, err = reader.Read(buffer); err != nil { return }`.
     Continuation bytes: `bytesRead, err = reader.Read(buffer); if bytesRead == 0 { return }` ... and the
     function returns whatever [err] holds when the last byte (no continuation bit) has been read: an error
     that came together with a byte is overwritten by the next Read.  (A Checked continuation site — the
     repaired variant — returns as soon as err is non-nil.) *)
  Fixpoint uleb_loop (fuel : nat) (st : rst) (acc : bytes) : rst * ures :=
    match fuel with
    | O => (st, UHang)
    | Datatypes.S f =>
      let '(st', r) := rd st RUlebCont 1 in
      let e := match sh RUlebCont with Unchecked => ENone | _ => rr_err r end in
      if chk sh RUlebCont && negb (is_none e) then (st', URet e acc)
      else match rr_data r with
           | [] => (st', URet e acc)
           | b :: _ => if b <? 128 then (st', URet e (acc ++ [b])) else uleb_loop f st' (acc ++ [b])
           end
    end.

  Definition uleb (fuel : nat) (st : rst) : rst * ures :=
    let '(st', r) := rd st RUlebFirst 1 in
    match err_at sh RUlebFirst (rr_err r) with
    | ENone => match rr_data r with
               | [] => (st', URet ENone [])          (* (0, nil): the stale buffer byte is used; not this property *)
               | b :: _ => if b <? 128 then (st', URet ENone [b]) else uleb_loop fuel st' [b]
               end
    | e => (st', URet e [])
    end.

  (* compact_time.fillSlice: `for len(dst) > 0 { if n, err = reader.Read(dst); err != nil { return } ... }` *)
  Fixpoint ct_fill (fuel : nat) (st : rst) (n : N) (acc : bytes) : rst * ures :=
    match fuel with
    | O => (st, UHang)
    | Datatypes.S f =>
      if n =? 0 then (st, URet ENone acc)
      else let '(st', r) := rd st RCtFill n in
           match err_at sh RCtFill (rr_err r) with
           | ENone => ct_fill f st' (n - blen (rr_data r)) (acc ++ rr_data r)
           | e => (st', URet e acc)
           end
    end.

  Definition ct_byte (st : rst) : rst * ures :=
    let '(st', r) := rd st RCtByte 1 in
    (st', URet (err_at sh RCtByte (rr_err r)) (rr_data r)).

  (* `value, ..., err := <library decoder>(reader, buffer); if err != nil { unexpectedError(err) }` *)
  Definition propagate (x : rst * ures) : rst * pres bytes :=
    let '(st, u) := x in
    match u with
    | UHang => (st, PHang)
    | URet e bs => match err_at sh RCbePropagate e with ENone => (st, POk bs) | _ => (st, PPanic) end
    end.

  Definition run_prim (fuel : nat) (p : prim) (st : rst) : rst * pres (option bytes) :=
    let some (x : rst * pres bytes) : rst * pres (option bytes) :=
      let '(st', r) := x in
      (st', match r with POk b => POk (Some b) | PPanic => PPanic | PHang => PHang end) in
    match p with
    | PUint8 => some (read_uint8 st)
    | PTypeOrEOF => read_type_or_eof st
    | PBytes n => some (read_into fuel st n [])
    | PUleb => some (propagate (uleb fuel st))
    | PCtByte => some (propagate (ct_byte st))
    | PCtFill n => some (propagate (ct_fill fuel st n []))
    end.

  (* The CBE decoder above the reader: an arbitrary deterministic program. *)
  Section Decoder.
    Variable D : Type.
    Variable dnext : D -> action.
    Variable dfeed : D -> bytes -> D.
    Variable dfinal : D -> bool.     (* OnEndDocument (and whatever follows) succeeds *)

    (* Decoder.Decode body: header, version, runMainDecodeLoop.  The loop ends
       only when ReadTypeOrEOF sees io.EOF, or by a panic. *)
    Fixpoint cbe_loop (fuel : nat) (st : rst) (d : D) : rst * outcome unit :=
      match fuel with
      | O => (st, Hang)
      | Datatypes.S f =>
        match dnext d with
        | AFail => (st, Panic)
        | ADo p =>
          let '(st', r) := run_prim f p st in
          if spin (rs_src st') then (st', Hang) else
          match r with
          | PPanic => (st', Panic)
          | PHang => (st', Hang)
          | POk (Some bs) => cbe_loop f st' (dfeed d bs)
          | POk None => (st', if dfinal d then Ok tt else Panic)
          end
        end
      end.

    (* cbe.Decoder.Decode: the body inside `defer func() { if !PassThroughPanics { recover() ... } }` *)
    Definition cbe_decode (pass : bool) (fuel : nat) (st : rst) (d : D) : rst * outcome unit :=
      let '(st', o) := cbe_loop fuel st d in (st', guard sh GCbeDecode pass o).

    (* cbe.Unmarshaler.Unmarshal: Decode inside a second recover() scope; a
       returned error stays the returned error. *)
    Definition cbe_unmarshal (pass : bool) (fuel : nat) (st : rst) (d : D) : rst * outcome unit :=
      let '(st', o) := cbe_decode pass fuel st d in (st', guard sh GCbeUnmarshal pass o).
  End Decoder.

  (* io.Copy(strings.Builder, reader) when the reader has no WriteTo: Read into a
     32 KiB buffer until an error; io.EOF is not an error. *)
  Definition copy_buf_size : N := 32768.
  Fixpoint io_copy (fuel : nat) (st : rst) (acc : bytes) : rst * ures :=
    match fuel with
    | O => (st, UHang)
    | Datatypes.S f =>
      let '(st', r) := rd st RIoCopy copy_buf_size in
      let acc' := acc ++ rr_data r in
      match rr_err r with
      | ENone => io_copy f st' acc'
      | EEOF => (st', URet ENone acc')
      | EFail => (st', URet EFail acc')
      end
    end.

  Variable parse : bytes -> bool.    (* ParseDocument accepts the text and the receiver accepts the events *)

  (* cte.Decoder.Decode after the copy: `if _, err = io.Copy(buf, reader); err != nil { return }`, then the parse. *)
  Definition cte_after_copy (pass : bool) (x : rst * ures) : rst * outcome unit :=
    let '(st, u) := x in
    match u with
    | UHang => (st, Hang)
    | URet e text =>
      match err_at sh RCteCopy e with
      | ENone => (st, guard sh GCteDecode pass (if parse text then Ok tt else Panic))
      | _ => (st, Err)
      end
    end.

  Definition cte_decode (pass : bool) (fuel : nat) (st : rst) : rst * outcome unit :=
    cte_after_copy pass (io_copy fuel st []).
  Definition cte_unmarshal (pass : bool) (fuel : nat) (st : rst) : rst * outcome unit :=
    let '(st', o) := cte_decode pass fuel st in (st', guard sh GCteUnmarshal pass o).
End Source.
Arguments rs_src {S}.
Arguments rs_tr {S}.
Arguments Build_rst {S}.

(* ------------------------------------------------------------------------- *)
(* cbe Reader.Read: the normalising layer between the CBE reader primitives (and the external decoders)
   and the source handed to Decode.  The callers only ever see (n > 0, nil) or (0, err):
     if pendingErr != nil { return 0, pendingErr }
     for { n, err = reader.Read(p)
           if n > 0 { pendingErr = err; return n, nil }
           if err != nil { pendingErr = err; return 0, err } }
   pendingErr is never cleared within a document (SetReader clears it). *)
Section Norm.
  Variable S : Type.
  Variable step : S -> N -> S * rres.
  Variable sh : shape.

  Record nst := { n_pend : rerr; n_spin : bool; n_under : rst S }.
  Definition norm0 (u : rst S) : nst := {| n_pend := ENone; n_spin := false; n_under := u |}.

  (* the retry loop; a source that answers (0, nil) for ever makes it spin: after [i] such answers the
     model gives up, raises n_spin (the decoder loop then reports Hang) and hands back an empty read *)
  Fixpoint n_retry (i : nat) (b : nst) (n : N) : nst * rres :=
    match i with
    | O => ({| n_pend := n_pend b; n_spin := true; n_under := n_under b |}, {| rr_data := []; rr_err := ENone |})
    | Datatypes.S j =>
      let '(u', r) := rd S step (n_under b) RCbeRead n in
      let e := err_at sh RCbeRead (rr_err r) in
      match rr_data r with
      | [] => match e with
              | ENone => n_retry j {| n_pend := n_pend b; n_spin := n_spin b; n_under := u' |} n
              | _ => ({| n_pend := e; n_spin := n_spin b; n_under := u' |}, {| rr_data := []; rr_err := e |})
              end
      | data => ({| n_pend := e; n_spin := n_spin b; n_under := u' |}, {| rr_data := data; rr_err := ENone |})
      end
    end.

  Definition retry_limit : nat := 100.
  Definition n_read (b : nst) (n : N) : nst * rres :=
    if n =? 0 then (b, {| rr_data := []; rr_err := ENone |})
    else match n_pend b with
         | ENone => n_retry retry_limit b n
         | e => (b, {| rr_data := []; rr_err := e |})
         end.
End Norm.
Arguments n_pend {S}.
Arguments n_spin {S}.
Arguments n_under {S}.
Arguments Build_nst {S}.

(* cbe.Decoder.Decode / cbe.Unmarshaler.Unmarshal on a source: SetReader (fresh pendingErr), then the
   decoder over the normalising layer.  Returns the source with the trace of the calls made on it. *)
Section CbeEntry.
  Variable S : Type.
  Variable step : S -> N -> S * rres.
  Variable sh : shape.
  Variable D : Type.
  Variable dnext : D -> action.
  Variable dfeed : D -> bytes -> D.
  Variable dfinal : D -> bool.

  Definition cbe_entry (unm pass : bool) (fuel : nat) (u : rst S) (d : D) : rst S * outcome unit :=
    let st := {| rs_src := norm0 S u; rs_tr := [] |} in
    let '(st', o) := (if unm then cbe_unmarshal (nst S) (n_read S step sh) n_spin sh D dnext dfeed dfinal
                      else cbe_decode (nst S) (n_read S step sh) n_spin sh D dnext dfeed dfinal) pass fuel st d in
    (n_under (rs_src st'), o).
End CbeEntry.

(* The first n elements of a list and the rest. *)
Fixpoint take_n (n : N) (l : bytes) : bytes * bytes :=
  match l with
  | [] => ([], [])
  | x :: r => if n =? 0 then ([], l) else let '(a, b) := take_n (n - 1) r in (x :: a, b)
  end.

(* ------------------------------------------------------------------------- *)
(* bufio.Reader (standard library, size 4096) over a source: what UnmarshalCE
   and UniversalDecoder.Decode put between the caller's reader and the decoders. *)
Section Bufio.
  Variable S : Type.
  Variable step : S -> N -> S * rres.

  Definition bufio_size : N := 4096.
  (* b_buf = buf[r:w]; b_err = the pending error; b_under = the caller's reader and the trace of calls on it *)
  Record bst := { b_buf : bytes; b_err : rerr; b_under : rst S }.

  (* fill: slide, then Read(buf[w:]) up to 100 times until data or an error; the
     error is stored, NOT returned; 100 empty reads store io.ErrNoProgress. *)
  Fixpoint b_fill_loop (i : nat) (b : bst) : bst :=
    match i with
    | O => {| b_buf := b_buf b; b_err := EFail; b_under := b_under b |}
    | Datatypes.S j =>
      let '(u', r) := rd S step (b_under b) RBufioFill (bufio_size - blen (b_buf b)) in
      let b' := {| b_buf := b_buf b ++ rr_data r; b_err := b_err b; b_under := u' |} in
      match rr_err r with
      | ENone => match rr_data r with [] => b_fill_loop j b' | _ => b' end
      | e => {| b_buf := b_buf b'; b_err := e; b_under := u' |}
      end
    end.
  Definition b_fill (b : bst) : bst := b_fill_loop 100 b.

  (* Peek(1): `for w-r < 1 && err == nil { fill() }` — one fill suffices, it ends with data or an error. *)
  Definition b_peek1 (b : bst) : bst * option N :=
    let b1 := match b_buf b, b_err b with [], ENone => b_fill b | _, _ => b end in
    match b_buf b1 with
    | x :: _ => (b1, Some x)
    | [] => ({| b_buf := []; b_err := ENone; b_under := b_under b1 |}, None)   (* err = readErr() (or ErrBufferFull) *)
    end.

  (* Read(p), len p = n > 0. *)
  Definition b_read (b : bst) (n : N) : bst * rres :=
    match b_buf b with
    | [] =>
      match b_err b with
      | ENone =>
        if bufio_size <=? n then
          (* large read, empty buffer: read directly into p; `return n, b.readErr()` *)
          let '(u', r) := rd S step (b_under b) RBufioDirect n in
          ({| b_buf := []; b_err := ENone; b_under := u' |}, r)
        else
          (* one read into the whole buffer; the error stays pending *)
          let '(u', r) := rd S step (b_under b) RBufioRead bufio_size in
          match rr_data r with
          | [] => ({| b_buf := []; b_err := ENone; b_under := u' |}, {| rr_data := []; rr_err := rr_err r |})
          | data => let '(out, rest) := take_n n data in
                    ({| b_buf := rest; b_err := rr_err r; b_under := u' |}, {| rr_data := out; rr_err := ENone |})
          end
      | e => ({| b_buf := []; b_err := ENone; b_under := b_under b |}, {| rr_data := []; rr_err := e |})
      end
    | data => let '(out, rest) := take_n n data in
              ({| b_buf := rest; b_err := b_err b; b_under := b_under b |}, {| rr_data := out; rr_err := ENone |})
    end.

  (* WriteTo(strings.Builder), reached through io.Copy because *bufio.Reader
     implements io.WriterTo:
        writeBuf; fill(); for r < w { writeBuf; fill() }; if err == EOF { err = nil }; return n, readErr()
     fill() is called without looking at the pending error, and a later error
     (io.EOF included) overwrites an earlier one. *)
  Fixpoint b_writeto_loop (fuel : nat) (b : bst) (acc : bytes) : bst * ures :=
    match fuel with
    | O => (b, UHang)
    | Datatypes.S f =>
      match b_buf b with
      | [] => ({| b_buf := []; b_err := ENone; b_under := b_under b |},
               URet (match b_err b with EEOF => ENone | e => e end) acc)
      | data => b_writeto_loop f (b_fill {| b_buf := []; b_err := b_err b; b_under := b_under b |}) (acc ++ data)
      end
    end.
  Definition b_writeto (fuel : nat) (b : bst) : bst * ures :=
    b_writeto_loop fuel (b_fill {| b_buf := []; b_err := b_err b; b_under := b_under b |}) (b_buf b).
End Bufio.
Arguments b_buf {S}.
Arguments b_err {S}.
Arguments b_under {S}.
Arguments Build_bst {S}.

(* ------------------------------------------------------------------------- *)
(* Universal entry points: ce.UnmarshalCE / UniversalDecoder.Decode. *)
Inductive ufmt := UCte | UCbe | UNone.
Definition choose (b : N) : ufmt :=
  if (b =? 99) || (b =? 67) then UCte else if b =? 129 then UCbe else UNone.

Section Universal.
  Variable S : Type.
  Variable step : S -> N -> S * rres.
  Variable sh : shape.
  Variable D : Type.
  Variable dnext : D -> action.
  Variable dfeed : D -> bytes -> D.
  Variable dfinal : D -> bool.
  Variable parse : bytes -> bool.

  (* [unm] = UnmarshalCE (unmarshalers), otherwise UniversalDecoder.Decode (decoders).
     Returns the caller's reader (with the trace of the calls made on it) and the outcome. *)
  Definition universal (unm pass : bool) (fuel : nat) (u : rst S) (d : D) : rst S * outcome unit :=
    let '(b1, first) := b_peek1 S step {| b_buf := []; b_err := ENone; b_under := u |} in
    let peek_site := if unm then RCePeekUnmarshal else RCePeekDecode in
    match first with
    | None => (b_under b1, if chk sh peek_site then Err else Panic)   (* unchecked: firstByte[0] index panic, no recover here *)
    | Some x =>
      match choose x with
      | UNone => (b_under b1, Err)
      | UCbe =>
        (* the CBE decoder reads bufio through its normalising layer *)
        let '(m, o) := cbe_entry (bst S) (b_read S step) sh D dnext dfeed dfinal unm pass fuel
                                 {| rs_src := b1; rs_tr := [] |} d in
        (b_under (rs_src m), o)
      | UCte =>
        let '(b2, r) := b_writeto S step fuel b1 in
        let '(st', o) := cte_after_copy (bst S) sh parse pass ({| rs_src := b2; rs_tr := [] |}, r) in
        (b_under (rs_src st'), if unm then guard sh GCteUnmarshal pass o else o)
      end
    end.
End Universal.

(* ------------------------------------------------------------------------- *)
(* A concrete source with an injected failure schedule. *)
Record fault := { f_call : N; f_dirty : bool (* the failing call also delivers data *) }.
Record rsched := {
  rsc_chunk : N;               (* at most this many bytes per call; 0 = no limit *)
  rsc_faults : list fault;
  rsc_sticky : bool            (* once failed, every later call fails (without data) *)
}.
Record rsrc := { r_data : bytes; r_calls : N; r_failed : bool }.
Definition rsrc0 (data : bytes) : rsrc := {| r_data := data; r_calls := 0; r_failed := false |}.

Fixpoint find_fault (k : N) (l : list fault) : option fault :=
  match l with
  | [] => None
  | f :: r => if f_call f =? k then Some f else find_fault k r
  end.

Definition sched_rstep (sc : rsched) (s : rsrc) (n : N) : rsrc * rres :=
  let k := r_calls s in
  let cap := if rsc_chunk sc =? 0 then n else N.min n (rsc_chunk sc) in
  if rsc_sticky sc && r_failed s then
    ({| r_data := r_data s; r_calls := N.succ k; r_failed := true |}, {| rr_data := []; rr_err := EFail |})
  else match find_fault k (rsc_faults sc) with
       | Some f =>
         if f_dirty f then
           let '(out, rest) := take_n cap (r_data s) in
           ({| r_data := rest; r_calls := N.succ k; r_failed := true |}, {| rr_data := out; rr_err := EFail |})
         else ({| r_data := r_data s; r_calls := N.succ k; r_failed := true |}, {| rr_data := []; rr_err := EFail |})
       | None =>
         match r_data s with
         | [] => ({| r_data := []; r_calls := N.succ k; r_failed := r_failed s |}, {| rr_data := []; rr_err := EEOF |})
         | _ => let '(out, rest) := take_n cap (r_data s) in
                ({| r_data := rest; r_calls := N.succ k; r_failed := r_failed s |}, {| rr_data := out; rr_err := ENone |})
         end
       end.

(* A scripted decoder: the primitives the real decoder ran on this document (as
   observed by the harness on a run without failures), then — if the document
   ended for another reason than EOF — a non-I/O failure. *)
Definition script_next (d : list prim) : action := match d with [] => AFail | p :: _ => ADo p end.
Definition script_feed (d : list prim) (_ : bytes) : list prim := tl d.

(* ========================================================================= *)
(* Correspondence cases                                                       *)

Inductive wentry := WMarshal | WEncoder.
Inductive obs_out := OOk | OErr | OPanic | OPanicAt (i : N).
Definition obs_out_eqb (a b : obs_out) : bool :=
  match a, b with
  | OOk, OOk | OErr, OErr | OPanic, OPanic => true
  | OPanicAt i, OPanicAt j => i =? j
  | _, _ => false
  end.
Record obs := { o_out : obs_out; o_calls : N }.

Inductive rentry := RECbeDecode | RECbeUnmarshal | RECteDecode | RECteUnmarshal | REUniDecode | REUniUnmarshal.

Inductive iofail_case :=
(* the extracted shape, in the order of [current_shape_list] *)
| ShapeCase (l : list (site * sclass))
(* an encoder run: entry, format, destination implements io.StringWriter, PassThroughPanics,
   the writes of each event, the calls the destination saw without failures (for each call the
   I/O call site of the library that issued it, as read off the call stack, its kind and its size:
   a call issued from anywhere but the sites of the shape is observed as SUnknown and can never
   agree with the model, whose every call is issued at a site of the shape),
   and for each schedule what the implementation did *)
| WriteCase (e : wentry) (f : wfmt) (sw pass : bool) (evs : list (list lwrite)) (calls : list (site * wcall))
            (runs : list (wsched * obs))
(* a decoder run: entry, PassThroughPanics, the document, the primitives the CBE decoder runs on it
   (ignored for CTE), whether the run without failures succeeds, bytes per Read of the source,
   the lengths requested from the source without failures, and for each schedule what the implementation did *)
| ReadCase (e : rentry) (pass : bool) (data : bytes) (script : list prim) (final_ok : bool) (chunk : N)
           (lens : list N) (runs : list (list fault * bool * obs)).

Definition out_of (o : outcome unit) : obs_out :=
  match o with Ok _ => OOk | Err => OErr | Panic => OPanic | Hang => OPanic end.

Definition wmodel (e : wentry) (f : wfmt) (sw pass : bool) (evs : list (list lwrite)) (sc : wsched)
  : list wev * obs_out :=
  let st0 := {| ws_w := wdest0; ws_tr := [] |} in
  match e with
  | WMarshal => let '(st, o) := marshal wdest (sched_wstep sc) current_shape f sw pass st0 evs in
                (List.rev (ws_tr st), out_of o)
  | WEncoder => let '(st, o) := feed_events wdest (sched_wstep sc) current_shape f sw st0 evs 0 in
                (List.rev (ws_tr st), match o with EncDone => OOk | EncPanicAt i => OPanicAt i end)
  end.

Definition no_wsched : wsched := {| wsc_calls := []; wsc_limit := None; wsc_sticky := false |}.

Definition rfuel (data : bytes) (script : list prim) (faults : list fault) : nat :=
  (4 * (length data + length script + length faults) + 400)%nat.

Definition rmodel (e : rentry) (pass : bool) (data : bytes) (script : list prim) (final_ok : bool) (sc : rsched)
  : list revent * obs_out :=
  let st0 := {| rs_src := rsrc0 data; rs_tr := [] |} in
  let fuel := rfuel data script (rsc_faults sc) in
  let stp := sched_rstep sc in
  let fin := fun _ : list prim => final_ok in
  let prs := fun _ : bytes => final_ok in
  let '(st, o) :=
    match e with
    | RECbeDecode => cbe_entry rsrc stp current_shape (list prim) script_next script_feed fin false pass fuel st0 script
    | RECbeUnmarshal => cbe_entry rsrc stp current_shape (list prim) script_next script_feed fin true pass fuel st0 script
    | RECteDecode => cte_decode rsrc stp current_shape prs pass fuel st0
    | RECteUnmarshal => cte_unmarshal rsrc stp current_shape prs pass fuel st0
    | REUniDecode => universal rsrc stp current_shape (list prim) script_next script_feed fin prs false pass fuel st0 script
    | REUniUnmarshal => universal rsrc stp current_shape (list prim) script_next script_feed fin prs true pass fuel st0 script
    end in
  (List.rev (rs_tr st), out_of o).

Definition scall_eqb (a b : site * wcall) : bool :=
  site_eqb (fst a) (fst b) && wkind_eqb (wc_kind (snd a)) (wc_kind (snd b)) && (wc_len (snd a) =? wc_len (snd b)).

Definition pair_eqb (a b : site * sclass) : bool := site_eqb (fst a) (fst b) && sclass_eqb (snd a) (snd b).

Definition iofail_case_ok (c : iofail_case) : bool :=
  match c with
  | ShapeCase l => list_eqb pair_eqb l current_shape_list
  | WriteCase e f sw pass evs calls runs =>
    let '(tr0, _) := wmodel e f sw pass evs no_wsched in
    list_eqb scall_eqb (map (fun ev => (we_site ev, we_call ev)) tr0) calls &&
    forallb (fun '(sc, ob) =>
               let '(tr, o) := wmodel e f sw pass evs sc in
               obs_out_eqb o (o_out ob) && (N.of_nat (length tr) =? o_calls ob)) runs
  | ReadCase e pass data script final_ok chunk lens runs =>
    let '(tr0, _) := rmodel e pass data script final_ok {| rsc_chunk := chunk; rsc_faults := []; rsc_sticky := false |} in
    list_eqb N.eqb (map re_len tr0) lens &&
    forallb (fun '(fs, sticky, ob) =>
               let '(tr, o) := rmodel e pass data script final_ok {| rsc_chunk := chunk; rsc_faults := fs; rsc_sticky := sticky |} in
               obs_out_eqb o (o_out ob) && (N.of_nat (length tr) =? o_calls ob)) runs
  end.
