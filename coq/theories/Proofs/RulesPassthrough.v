(* C15: what the validator hands to the next receiver. *)
From CE Require Import Model.Rules.
Open Scope N_scope.

(* The only rewriting the receiver layer performs: nil big numbers become null,
   NaN-valued float / decimal / big-decimal events become NaN events of the same kind. *)
Definition nn (e : event) : event :=
  match e with
  | EBigInt None | EBigFloat None | EBigDecimal None => ENull
  | EFloat bits => if f64_is_nan bits then ENan (negb (f64_quiet_bit bits)) else e
  | EDecimal DQNan => ENan false
  | EDecimal DSNan => ENan true
  | EBigDecimal (Some DQNan) => ENan false
  | EBigDecimal (Some DSNan) => ENan true
  | _ => e
  end.

Lemma rstep_out cfg c e c' o : rstep cfg c e = Some (c', o) -> o = [nn e].
Proof.
  unfold rstep. intro H.
  destruct e as [| |v| |m t| |b| | |n|n|z|[z|]|bits|[bf|]|d|[d|]|s|b|s| | |id|id| | | |id|id|t cnt d|t d|mt d|ct d|ct d|t|mt|t ct|n m|d];
    cbn [nn];
    repeat match goal with
    | H : match ?x with Some _ => _ | None => _ end = Some _ |- _ => destruct x eqn:?; [|discriminate]
    | H : (if ?b then _ else _) = Some _ |- _ => destruct b eqn:?; try discriminate
    | H : match ?d with DFin _ _ _ => _ | DInf _ => _ | DQNan => _ | DSNan => _ end = Some _ |- _ => destruct d
    | H : Some _ = Some _ |- _ => inversion H; subst; clear H
    end; try reflexivity; try discriminate.
Qed.

Lemma run_from_out cfg es : forall c i out c' out' r,
  run_from cfg c i es out = (c', out', r) ->
  match r with
  | None => out' = out ++ map nn es
  | Some j => exists k, j = i + N.of_nat k /\ (k < length es)%nat /\ out' = out ++ map nn (firstn k es)
  end.
Proof.
  induction es as [|e es IH]; intros c i out c' out' r H; cbn [run_from] in H.
  - inversion H; subst. cbn. rewrite app_nil_r. reflexivity.
  - destruct (rstep cfg c e) as [[c1 o]|] eqn:E.
    + apply rstep_out in E. subst o. apply IH in H. destruct r as [j|].
      * destruct H as [k [Hj [Hk Ho]]]. exists (S k). split; [lia|]. split; [cbn; lia|].
        cbn [firstn map]. rewrite Ho, <- app_assoc. reflexivity.
      * rewrite H, <- app_assoc. reflexivity.
    + inversion H; subst. exists O. split; [lia|]. split; [cbn; lia|]. cbn. rewrite app_nil_r. reflexivity.
Qed.

(* Every accepted event reaches the next receiver exactly once, in order, unchanged up to [nn];
   nothing else is delivered — also when a later event is rejected. *)
Theorem passthrough_accepted cfg es c out :
  run cfg es = (c, out, None) -> out = map nn es.
Proof. intro H. apply run_from_out in H. exact H. Qed.

Theorem passthrough_rejected cfg es c out i :
  run cfg es = (c, out, Some i) ->
  (N.to_nat i < length es)%nat /\ out = map nn (firstn (N.to_nat i) es).
Proof.
  intro H. apply run_from_out in H. destruct H as [k [Hi [Hk Ho]]].
  assert (N.to_nat i = k) as -> by lia. split; assumption.
Qed.

(* nn only ever replaces an event by one denoting the same data *)
Lemma nn_idempotent e : nn (nn e) = nn e.
Proof.
  destruct e as [| |v| |m t| |b| | |n|n|z|[z|]|bits|[bf|]|d|[d|]|s|b|s| | |id|id| | | |id|id|t cnt d|t d|mt d|ct d|ct d|t|mt|t ct|n m|d];
    cbn [nn]; try reflexivity.
  - destruct (f64_is_nan bits) eqn:E; cbn [nn]; [reflexivity | rewrite E; reflexivity].
  - destruct d; reflexivity.
  - destruct d; reflexivity.
Qed.
