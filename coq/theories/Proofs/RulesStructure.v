(* Structure of the rule stack (C10, and the marker count used by C13 / C14). *)
From CE Require Import Model.Rules Model.RulesSpec Proofs.RulesInvariants.
From Coq Require Import ZifyN ZifyNat ZifyBool.
Open Scope N_scope.

(* ------------------------------------------------------------------------- *)
(* Classes of rules                                                           *)
(* ------------------------------------------------------------------------- *)
Inductive rclass := KTop | KCont | KMarker | KArrS | KArrP.
Definition rclass_of (r : rule) : rclass :=
  match r with
  | RBeginDocument | REndDocument | RTerminal | RVersion | RTopLevel => KTop
  | RList | RMapKey | RMapValue | RRecordType | RRecord
  | REdgeSource | REdgeDescription | REdgeDestination | RNode | RAwaitEnd => KCont
  | RMarkedObjectKeyable | RMarkedObjectAnyType => KMarker
  | RString | RStringChunk | RStringBuilder | RStringBuilderChunk => KArrS
  | RArray | RArrayChunk => KArrP
  end.
Definition rclass_eqb (a b : rclass) : bool :=
  match a, b with
  | KTop, KTop | KCont, KCont | KMarker, KMarker | KArrS, KArrS | KArrP, KArrP => true
  | _, _ => false
  end.
Lemma rclass_eqb_eq a b : rclass_eqb a b = true <-> a = b.
Proof. destruct a, b; cbn; split; congruence. Qed.
Definition is_arr (k : rclass) : bool := match k with KArrS | KArrP => true | _ => false end.

(* what the analysis of a cell knows about the rule in force *)
Inductive kn := KRule (r : rule) | KClass (cl : rclass) | KUnknown.
Definition kn_class (k : kn) : option rclass :=
  match k with KRule r => Some (rclass_of r) | KClass cl => Some cl | KUnknown => None end.

(* markers in flight + markers registered: grows by exactly one per OnMarker call *)
Definition qm (m : meth) : Z := match m with MMarker => 1 | _ => 0 end.
Definition qeff (p : prim) : Z :=
  match p with
  | PBeginMarkerAnyType _ | PBeginMarkerKeyable _ | PMarkObject _ | PMarkContainer => 1
  | PUnstackRule => -1
  | PForwardCurrent m' | PForwardParent m' => qm m'
  | _ => 0
  end.
Definition qsum (cell : list prim) : Z := fold_right (fun p z => (qeff p + z)%Z) 0%Z cell.

(* One statement: what is known about the rule in force afterwards; None = the statement is used
   in a way the structural invariant does not cover. *)
Definition wstep (fo : meth -> bool) (k : kn) (p : prim) : option kn :=
  let push (r' : rule) :=
    match kn_class k with Some cl => if is_arr cl then None else Some (KRule r') | None => None end in
  let needs (cl0 : rclass) (k' : kn) :=
    match kn_class k with Some cl => if rclass_eqb cl cl0 then Some k' else None | None => None end in
  match p with
  | PReject => Some KUnknown
  | PChangeRule r' =>
      match kn_class k with Some cl => if rclass_eqb (rclass_of r') cl then Some (KRule r') else None | None => None end
  | PEndDocument => needs KTop (KRule RTerminal)
  | PBeginList => push RList
  | PBeginMap => push RMapKey
  | PBeginRecordType => push RRecordType
  | PBeginRecord => push RRecord
  | PBeginEdge => push REdgeSource
  | PBeginNode => push RNode
  | PBeginMarkerAnyType _ => push RMarkedObjectAnyType
  | PBeginMarkerKeyable _ => push RMarkedObjectKeyable
  | PBeginArrayAnyType | PBeginArrayKeyable =>
      match kn_class k with Some cl => if is_arr cl then None else Some KUnknown | None => None end
  | PEndContainer _ => needs KCont KUnknown
  | PUnstackRule => needs KMarker KUnknown
  | PArrayRuleChunk | PArrayChunkRuleData => needs KArrP KUnknown
  | PStringRuleChunk | PStringChunkRuleData => needs KArrS KUnknown
  | PStringBuilderRuleChunk | PStringBuilderChunkRuleData => Some KUnknown
  | PForwardCurrent _ | PForwardCurrentKeyableEmptyKey => Some KUnknown
  | PForwardParent m' => if fo m' then needs KMarker KUnknown else None
  | _ => Some k
  end.
Fixpoint walk (fo : meth -> bool) (k : kn) (cell : list prim) : option kn :=
  match cell with
  | [] => Some k
  | p :: rest => match wstep fo k p with Some k' => walk fo k' rest | None => None end
  end.

Definition cell_ok (fo : meth -> bool) (k : kn) (m : meth) (cell : list prim) : bool :=
  has_reject cell || (match walk fo k cell with Some _ => true | None => false end && (qsum cell =? qm m)%Z).

(* methods whose cells are fine when run on behalf of a marker rule (the marker entry is in force);
   such a cell may forward the same method to the parent again *)
Scheme Equality for meth.
Definition fpm (m : meth) : bool :=
  forallb (fun r => cell_ok (meth_beq m) (KClass KMarker) m (dispatch r m)) all_rules.

Lemma table_structure : table_forall (fun r m cell => cell_ok fpm (KRule r) m cell) = true.
Proof. vm_compute. reflexivity. Qed.

Definition postk (r : rule) (m : meth) : kn :=
  match walk fpm (KRule r) (dispatch r m) with Some k => k | None => KUnknown end.

(* ------------------------------------------------------------------------- *)
(* The structural invariant                                                   *)
(* ------------------------------------------------------------------------- *)
Fixpoint stack_ok (r0 : rule) (rest : list rule) : Prop :=
  match rest with
  | [] => rclass_of r0 = KTop
  | r1 :: rest' => rclass_of r0 <> KTop /\ stack_ok r1 rest'
  end.
Definition count_cl (cl : rclass) (rs : list rule) : nat :=
  length (filter (fun r => rclass_eqb (rclass_of r) cl) rs).

(* on the rules of the entry in force and of the stacked entries, the depth and the array type:
   only the bottom entry has a document-level rule; the depth is the number of container entries;
   an array entry is never below another entry; a string rule goes with a text array type *)
Definition WFr (r0 : rule) (rs : list rule) (d : N) (t : arrty) : Prop :=
  stack_ok r0 rs /\
  d = N.of_nat (count_cl KCont (r0 :: rs)) /\
  Forall (fun r => is_arr (rclass_of r) = false) rs /\
  (rclass_of r0 = KArrS -> is_stringlike_validated t = true) /\
  (rclass_of r0 = KArrP -> is_stringlike_validated t = false).
Definition srules (c : rctx) : list rule := map e_rule (stack c).
Definition WF (c : rctx) : Prop := WFr (e_rule (cur c)) (srules c) (depth c) (arr_type c).
Definition Qr (r0 : rule) (rs : list rule) (n : N) : Z := (Z.of_N n + Z.of_nat (count_cl KMarker (r0 :: rs)))%Z.
Definition Q (c : rctx) : Z := Qr (e_rule (cur c)) (srules c) (refcount c).

Definition ksound (k : kn) (c : rctx) : Prop :=
  match k with KRule r => e_rule (cur c) = r | KClass cl => rclass_of (e_rule (cur c)) = cl | KUnknown => True end.

Lemma ksound_class k c cl : ksound k c -> kn_class k = Some cl -> rclass_of (e_rule (cur c)) = cl.
Proof. destruct k; cbn; intros H E; inv_some; congruence. Qed.

Lemma count_cl_cons cl r rs :
  count_cl cl (r :: rs) = ((if rclass_eqb (rclass_of r) cl then 1 else 0) + count_cl cl rs)%nat.
Proof. unfold count_cl. cbn [filter]. destruct (rclass_eqb (rclass_of r) cl); reflexivity. Qed.

Lemma WFr_setrule r0 r' rs d t n :
  WFr r0 rs d t -> rclass_of r' = rclass_of r0 -> WFr r' rs d t /\ Qr r' rs n = Qr r0 rs n.
Proof.
  unfold WFr, Qr. intros [H1 [H2 [H3 [H4 H5]]]] E. rewrite !count_cl_cons in *. rewrite E. repeat split; auto.
  destruct rs; cbn [stack_ok] in *; [congruence | rewrite E; auto].
Qed.

Lemma WFr_push r0 r' rs d t n :
  WFr r0 rs d t -> is_arr (rclass_of r0) = false -> rclass_of r' <> KTop -> is_arr (rclass_of r') = false ->
  WFr r' (r0 :: rs) (d + (if rclass_eqb (rclass_of r') KCont then 1 else 0)) t /\
  Qr r' (r0 :: rs) n = (Qr r0 rs n + (if rclass_eqb (rclass_of r') KMarker then 1 else 0))%Z.
Proof.
  unfold WFr, Qr. intros [H1 [H2 [H3 [H4 H5]]]] A T A'.
  rewrite (count_cl_cons KCont r'), (count_cl_cons KMarker r').
  split; [|destruct (rclass_eqb (rclass_of r') KMarker); lia].
  split; [cbn [stack_ok]; auto|]. split; [destruct (rclass_eqb (rclass_of r') KCont); lia|].
  split; [constructor; assumption|]. split; intro X; rewrite X in A'; discriminate.
Qed.

Lemma WFr_push_arr r0 rs d t t' n :
  WFr r0 rs d t -> is_arr (rclass_of r0) = false ->
  WFr (if is_stringlike_validated t' then RString else RArray) (r0 :: rs) d t' /\
  Qr (if is_stringlike_validated t' then RString else RArray) (r0 :: rs) n = Qr r0 rs n.
Proof.
  unfold WFr, Qr. intros [H1 [H2 [H3 [H4 H5]]]] A.
  rewrite (count_cl_cons KCont (if is_stringlike_validated t' then RString else RArray)),
          (count_cl_cons KMarker (if is_stringlike_validated t' then RString else RArray)).
  destruct (is_stringlike_validated t') eqn:S; cbn [rclass_of rclass_eqb stack_ok]; repeat split;
    try congruence; try discriminate; try (constructor; assumption); try lia; auto.
Qed.

Lemma WFr_pop r0 r1 rs d t t' n :
  WFr r0 (r1 :: rs) d t ->
  WFr r1 rs (d - (if rclass_eqb (rclass_of r0) KCont then 1 else 0)) t' /\
  Qr r1 rs n = (Qr r0 (r1 :: rs) n - (if rclass_eqb (rclass_of r0) KMarker then 1 else 0))%Z.
Proof.
  unfold WFr, Qr. intros [[H0 H1] [H2 [H3 [H4 H5]]]].
  rewrite (count_cl_cons KCont r0) in H2. rewrite (count_cl_cons KMarker r0).
  inversion H3 as [|? ? A1 A2]; subst.
  repeat split; auto.
  - destruct (rclass_eqb (rclass_of r0) KCont); lia.
  - intro X. rewrite X in A1. discriminate.
  - intro X. rewrite X in A1. discriminate.
  - destruct (rclass_eqb (rclass_of r0) KMarker); lia.
Qed.

Lemma WFr_nonempty r0 d t : WFr r0 [] d t -> rclass_of r0 = KTop.
Proof. intros [H _]. exact H. Qed.

(* ------------------------------------------------------------------------- *)
(* Soundness of the walk                                                      *)
(* ------------------------------------------------------------------------- *)
(* How a cell is entered: through the rule in force, or - for the methods [fpm] - through the
   parent of a marker entry in force. *)
Definition StartOK (r : rule) (m : meth) (c : rctx) : Prop :=
  e_rule (cur c) = r \/ (rclass_of (e_rule (cur c)) = KMarker /\ fpm m = true).
Definition Post (r : rule) (m : meth) (c c' : rctx) : Prop :=
  StartOK r m c -> WF c ->
  WF c' /\ (Q c' = Q c + qm m)%Z /\ (e_rule (cur c) = r -> ksound (postk r m) c').

Lemma wf_frame c c' :
  e_rule (cur c') = e_rule (cur c) -> srules c' = srules c -> depth c' = depth c -> arr_type c' = arr_type c ->
  WF c -> WF c'.
Proof. unfold WF. intros -> -> -> ->. auto. Qed.
Lemma q_frame c c' :
  e_rule (cur c') = e_rule (cur c) -> srules c' = srules c -> Q c' = (Q c + (Z.of_N (refcount c') - Z.of_N (refcount c)))%Z.
Proof. unfold Q, Qr. intros -> ->. lia. Qed.

Section Sound.
  Variable cfg : rcfg.
  Variable call : rule -> meth -> args -> rctx -> option rctx.
  Hypothesis Hcall : forall r m a c c', call r m a c = Some c' -> Post r m c c'.

  Lemma call_current_rule_sound m a c c' :
    call (e_rule (cur c)) m a c = Some c' -> WF c -> WF c' /\ (Q c' = Q c + qm m)%Z.
  Proof. intros H W. destruct (Hcall _ _ _ _ _ H (or_introl eq_refl) W) as [W' [Q' _]]. auto. Qed.

  (* popping the entry in force (and telling the parent) *)
  Lemma ecl_sound notify c c' d0 :
    end_container_like call notify c = Some c' ->
    WFr (e_rule (cur c)) (srules c) d0 (arr_type c) ->
    depth c = d0 - (if rclass_eqb (rclass_of (e_rule (cur c))) KCont then 1 else 0) ->
    WF c' /\ (Q c' = Q c - (if rclass_eqb (rclass_of (e_rule (cur c))) KMarker then 1 else 0))%Z.
  Proof.
    unfold end_container_like, unstack_rule. intros H W D. destruct (stack c) as [|e s] eqn:S; [discriminate|].
    unfold srules in W. rewrite S in W. cbn [map] in W.
    destruct (WFr_pop _ _ _ _ _ (arr_type c) (refcount c) W) as [W1 Q1].
    set (c1 := set_cur (set_stack c s) e) in *.
    assert (WF c1) as Wc1 by (unfold WF, srules, c1; rsimpl; rewrite D; exact W1).
    assert (Q c1 = (Q c - (if rclass_eqb (rclass_of (e_rule (cur c))) KMarker then 1 else 0))%Z) as Qc1.
    { unfold Q, srules, c1. rsimpl. rewrite S. cbn [map]. exact Q1. }
    destruct notify.
    - apply call_current_rule_sound in H as [W' Q']; [|exact Wc1]. cbn [qm] in Q'. split; [exact W' | lia].
    - inv_some. split; [exact Wc1 | lia].
  Qed.

  Lemma ksound_frame k c c' : e_rule (cur c') = e_rule (cur c) -> ksound k c -> ksound k c'.
  Proof. intro E. destruct k; cbn; rewrite ?E; auto. Qed.

  Lemma frame_sound k c c' z :
    e_rule (cur c') = e_rule (cur c) -> srules c' = srules c -> depth c' = depth c -> arr_type c' = arr_type c ->
    (Z.of_N (refcount c') = Z.of_N (refcount c) + z)%Z ->
    ksound k c -> WF c -> WF c' /\ (Q c' = Q c + z)%Z /\ ksound k c'.
  Proof.
    intros H1 H2 H3 H4 H5 Hk W. split; [eapply wf_frame; eauto|]. split; [rewrite (q_frame c c' H1 H2); lia|].
    eapply ksound_frame; eauto.
  Qed.

  Ltac kclass Hw Hk K X Hc :=
    match type of Hw with
    | match kn_class ?k with _ => _ end = Some _ =>
        destruct (kn_class k) as [?cl|] eqn:K; [|discriminate Hw];
        match type of Hw with
        | (if ?b then _ else _) = Some _ => destruct b eqn:X; [|try discriminate Hw]; try discriminate Hw
        end;
        pose proof (ksound_class _ _ _ Hk K) as Hc
    end.

  Lemma tea_sound more c c2 b :
    try_end_array call more c = Some (c2, b) -> WF c -> is_arr (rclass_of (e_rule (cur c))) = true ->
    (b = false /\ c2 = c) \/ (b = true /\ WF c2 /\ (Q c2 = Q c)%Z).
  Proof.
    unfold try_end_array. intros H W A. destruct more; [inv_some; left; auto|].
    destruct (end_container_like call true c) as [c1|] eqn:E; [|discriminate]. inv_some. right. split; [reflexivity|].
    apply (ecl_sound _ _ _ (depth c)) in E; [| exact W |].
    - destruct E as [W' Q']. split; [exact W'|]. destruct (rclass_of (e_rule (cur c))); try discriminate A; cbn [rclass_eqb] in Q'; lia.
    - destruct (rclass_of (e_rule (cur c))); try discriminate A; cbn [rclass_eqb]; lia.
  Qed.

  Lemma end_chunk_sound sr c c' :
    end_chunk call sr c = Some c' -> WF c -> rclass_of (e_rule (cur c)) = (if sr then KArrS else KArrP) ->
    WF c' /\ (Q c' = Q c)%Z.
  Proof.
    unfold end_chunk. intros H W A.
    destruct (sr && negb (Nat.eqb (length (utf8_rem c)) 0)); [discriminate|].
    destruct (try_end_array call (more_chunks c) c) as [[c2 b]|] eqn:T; [|discriminate].
    apply tea_sound in T; [|exact W | rewrite A; destruct sr; reflexivity].
    destruct T as [[-> ->]|[-> [W2 Q2]]]; inv_some; [|auto].
    destruct (WFr_setrule _ (if sr then RString else RArray) _ _ _ (refcount c) W) as [W' Q'].
    { rewrite A. destruct sr; reflexivity. }
    split; [unfold WF, srules; rsimpl; exact W' | unfold Q, srules; rsimpl; unfold srules in Q'; lia].
  Qed.

  Lemma arr_setrule_sound (sr : bool) c c1 r' :
    WF c -> rclass_of (e_rule (cur c)) = (if sr then KArrS else KArrP) -> rclass_of r' = (if sr then KArrS else KArrP) ->
    e_rule (cur c1) = e_rule (cur c) -> srules c1 = srules c -> depth c1 = depth c -> arr_type c1 = arr_type c ->
    refcount c1 = refcount c ->
    WF (set_rule c1 r') /\ (Q (set_rule c1 r') = Q c)%Z.
  Proof.
    intros W A A' E1 E2 E3 E4 E5.
    destruct (WFr_setrule _ r' _ _ _ (refcount c) W) as [W' Q']; [congruence|].
    split; [unfold WF, srules in *; rsimpl; rewrite E2, E3, E4; exact W'
           | unfold Q, srules in *; rsimpl; rewrite E2, E5; lia].
  Qed.

  Lemma rule_chunk_sound sr len more c c' :
    rule_chunk cfg call sr len more c = Some c' -> WF c -> rclass_of (e_rule (cur c)) = (if sr then KArrS else KArrP) ->
    WF c' /\ (Q c' = Q c)%Z.
  Proof.
    unfold rule_chunk. intros H W A. destruct (len =? 0).
    - destruct (try_end_array call more c) as [[c2 b]|] eqn:T; [|discriminate]. inv_some.
      apply tea_sound in T; [|exact W | rewrite A; destruct sr; reflexivity].
      destruct T as [[_ T]|[_ [W2 Q2]]]; [subst; split; [exact W | lia] | auto].
    - destruct sr; inv_some; [apply (arr_setrule_sound true) | apply (arr_setrule_sound false)]; rsimpl; auto.
  Qed.

  Lemma chunk_data_sound sr data c c' :
    chunk_data call sr data c = Some c' -> WF c -> rclass_of (e_rule (cur c)) = (if sr then KArrS else KArrP) ->
    WF c' /\ (Q c' = Q c)%Z.
  Proof.
    unfold chunk_data. intros H W A.
    assert (forall c1, e_rule (cur c1) = e_rule (cur c) -> srules c1 = srules c -> depth c1 = depth c ->
                       arr_type c1 = arr_type c -> refcount c1 = refcount c ->
                       (WF c1 /\ (Q c1 = Q c)%Z) /\
                       (end_chunk call sr c1 = Some c' -> WF c' /\ (Q c' = Q c)%Z)) as Aux.
    { intros c1 E1 E2 E3 E4 E5.
      assert (WF c1) as W1 by (eapply wf_frame; eauto).
      assert (Q c1 = Q c) as Q1 by (rewrite (q_frame c c1 E1 E2); lia).
      split; [split; [exact W1 | lia]|]. intro H1. apply end_chunk_sound in H1; [|exact W1 | congruence].
      destruct H1; split; [assumption | lia]. }
    destruct (chunk_expected c <? chunk_actual c + blen data); [discriminate|]. destruct sr.
    - destruct (stream_string_data (utf8_rem c) data) as [[[f n] r]|]; [|discriminate].
      destruct (validate_with (arr_validator c) f && validate_with (arr_validator c) n); [|discriminate].
      match type of H with (if _ then end_chunk _ _ ?c1 else _) = _ => destruct (Aux c1) as [A1 A2]; try reflexivity end.
      destruct (chunk_actual c + blen data =? chunk_expected c); [auto | inv_some; exact A1].
    - match type of H with (if _ then end_chunk _ _ ?c1 else _) = _ => destruct (Aux c1) as [A1 A2]; try reflexivity end.
      destruct (chunk_actual c + blen data =? chunk_expected c); [auto | inv_some; exact A1].
  Qed.

  Lemma prim_sound fo k k' self m a p c c' :
    wstep fo k p = Some k' -> (forall m', fo m' = true -> fpm m' = true) -> ksound k c -> WF c ->
    exec_prim cfg call self m a p c = Some c' ->
    WF c' /\ (Q c' = Q c + qeff p)%Z /\ ksound k' c'.
  Proof.
    intros Hw Hfo Hk W E.
    destruct p; cbn [wstep] in Hw; cbn [qeff].
    all: try (inversion Hw; subst k'; clear Hw; unfold_prims E; inv_some;
              apply frame_sound; rsimpl; auto; try reflexivity; lia).
    - (* PChangeRule *)
      kclass Hw Hk K X Hc. inv_some. cbn [exec_prim] in E. inv_some. apply rclass_eqb_eq in X.
      destruct (WFr_setrule _ r _ _ _ (refcount c) W) as [W' Q']; [congruence|].
      split; [unfold WF, srules; rsimpl; exact W'|]. split; [unfold Q, srules; rsimpl; unfold srules in Q'; lia | reflexivity].
    - (* PBeginList *) kclass Hw Hk K X Hc. inv_some. unfold_prims E. inv_some.
      destruct (WFr_push _ RList _ _ _ (refcount c) W) as [W' Q']; [congruence | discriminate | reflexivity |].
      split; [unfold WF, srules; rsimpl; exact W'|]. split; [unfold Q, srules; rsimpl; cbn [map]; unfold srules in Q'; cbn [rclass_of rclass_eqb] in Q'; lia | reflexivity].
    - (* PBeginMap *) kclass Hw Hk K X Hc. inv_some. unfold_prims E. inv_some.
      destruct (WFr_push _ RMapKey _ _ _ (refcount c) W) as [W' Q']; [congruence | discriminate | reflexivity |].
      split; [unfold WF, srules; rsimpl; exact W'|]. split; [unfold Q, srules; rsimpl; cbn [map]; unfold srules in Q'; cbn [rclass_of rclass_eqb] in Q'; lia | reflexivity].
    - (* PBeginRecordType *) kclass Hw Hk K X Hc. inv_some. unfold_prims E. inv_some.
      destruct (WFr_push _ RRecordType _ _ _ (refcount c) W) as [W' Q']; [congruence | discriminate | reflexivity |].
      split; [unfold WF, srules; rsimpl; exact W'|]. split; [unfold Q, srules; rsimpl; cbn [map]; unfold srules in Q'; cbn [rclass_of rclass_eqb] in Q'; lia | reflexivity].
    - (* PBeginRecord *) kclass Hw Hk K X Hc. inv_some. unfold_prims E. inv_some.
      destruct (WFr_push _ RRecord _ _ _ (refcount c) W) as [W' Q']; [congruence | discriminate | reflexivity |].
      split; [unfold WF, srules; rsimpl; exact W'|]. split; [unfold Q, srules; rsimpl; cbn [map]; unfold srules in Q'; cbn [rclass_of rclass_eqb] in Q'; lia | reflexivity].
    - (* PBeginEdge *) kclass Hw Hk K X Hc. inv_some. unfold_prims E. inv_some.
      destruct (WFr_push _ REdgeSource _ _ _ (refcount c) W) as [W' Q']; [congruence | discriminate | reflexivity |].
      split; [unfold WF, srules; rsimpl; exact W'|]. split; [unfold Q, srules; rsimpl; cbn [map]; unfold srules in Q'; cbn [rclass_of rclass_eqb] in Q'; lia | reflexivity].
    - (* PBeginNode *) kclass Hw Hk K X Hc. inv_some. unfold_prims E. inv_some.
      destruct (WFr_push _ RNode _ _ _ (refcount c) W) as [W' Q']; [congruence | discriminate | reflexivity |].
      split; [unfold WF, srules; rsimpl; exact W'|]. split; [unfold Q, srules; rsimpl; cbn [map]; unfold srules in Q'; cbn [rclass_of rclass_eqb] in Q'; lia | reflexivity].
    - (* PEndContainer *)
      kclass Hw Hk K X Hc. inv_some. apply rclass_eqb_eq in X. pose proof X as Hc.
      cbn [exec_prim] in E. unfold end_container in E.
      destruct (depth c =? 0) eqn:D0; [discriminate|].
      destruct (match e_expected (cur c) with Some x => negb (e_count (cur c) =? x) | None => false end); [discriminate|].
      assert (forall c2, e_rule (cur c2) = e_rule (cur c) -> srules c2 = srules c -> arr_type c2 = arr_type c ->
                         depth c2 = depth c -> refcount c2 = refcount c ->
                         end_container_like call notify (set_depth c2 (depth c2 - 1)) = Some c' ->
                         WF c' /\ (Q c' = Q c + 0)%Z /\ ksound KUnknown c') as Aux.
      { intros c2 E1 E2 E3 E4 E5 H. apply (ecl_sound _ _ _ (depth c)) in H.
        - destruct H as [W' Q']. split; [exact W'|]. split; [|exact I].
          replace (Q (set_depth c2 (depth c2 - 1))) with (Q c) in Q' by (unfold Q, srules in *; rsimpl; congruence).
          rsimpl. rewrite E1, Hc in Q'. cbn [rclass_eqb] in Q'. lia.
        - unfold srules in *. rsimpl. rewrite E1, E2, E3. exact W.
        - rsimpl. rewrite E1, Hc, E4. cbn [rclass_eqb]. reflexivity. }
      destruct (e_dtype (cur c) =? DT_RecordType).
      + destruct (alookup (rectype_name c) (rectypes c)); [discriminate|]. apply Aux in E; auto.
      + apply Aux in E; auto.
    - (* PBeginMarkerAnyType *) kclass Hw Hk K X Hc. inv_some. unfold_prims E. inv_some.
      destruct (WFr_push _ RMarkedObjectAnyType _ _ _ (refcount c) W) as [W' Q']; [congruence | discriminate | reflexivity |].
      split; [unfold WF, srules; rsimpl; rewrite N.add_0_r in W'; exact W'|]. split; [unfold Q, srules; rsimpl; cbn [map]; unfold srules in Q'; cbn [rclass_of rclass_eqb] in Q'; lia | reflexivity].
    - (* PBeginMarkerKeyable *) kclass Hw Hk K X Hc. inv_some. unfold_prims E. inv_some.
      destruct (WFr_push _ RMarkedObjectKeyable _ _ _ (refcount c) W) as [W' Q']; [congruence | discriminate | reflexivity |].
      split; [unfold WF, srules; rsimpl; rewrite N.add_0_r in W'; exact W'|]. split; [unfold Q, srules; rsimpl; cbn [map]; unfold srules in Q'; cbn [rclass_of rclass_eqb] in Q'; lia | reflexivity].
    - (* PBeginArrayAnyType *) kclass Hw Hk K X Hc. inv_some. unfold_prims E. inv_some;
      (destruct (WFr_push_arr _ _ _ _ (a_arrty a) (refcount c) W) as [W' Q']; [congruence|];
       match goal with H : is_stringlike_validated _ = _ |- _ => rewrite H in W', Q' end;
       split; [unfold WF, srules; rsimpl; exact W'|]; split; [unfold Q, srules; rsimpl; cbn [map]; unfold srules in Q'; lia | exact I]).
    - (* PBeginArrayKeyable *) kclass Hw Hk K X Hc. inv_some. unfold_prims E. inv_some;
      (destruct (WFr_push_arr _ _ _ _ (a_arrty a) (refcount c) W) as [W' Q']; [congruence|];
       match goal with H : is_stringlike_validated _ = _ |- _ => rewrite H in W', Q' end;
       split; [unfold WF, srules; rsimpl; exact W'|]; split; [unfold Q, srules; rsimpl; cbn [map]; unfold srules in Q'; lia | exact I]).
    - (* PEndDocument *)
      kclass Hw Hk K X Hc. inv_some. apply rclass_eqb_eq in X. pose proof X as Hc. cbn [exec_prim] in E. inv_some.
      destruct (WFr_setrule _ RTerminal _ _ _ (refcount c) W) as [W' Q']; [rewrite X; reflexivity|].
      split; [unfold WF, srules; rsimpl; exact W'|]. split; [unfold Q, srules; rsimpl; unfold srules in Q'; lia | reflexivity].
    - (* PUnstackRule *)
      kclass Hw Hk K X Hc. inv_some. apply rclass_eqb_eq in X. pose proof X as Hc. cbn [exec_prim] in E.
      assert (end_container_like call false c = Some c') as E' by (unfold end_container_like; rewrite E; reflexivity).
      apply (ecl_sound _ _ _ (depth c)) in E'; [|exact W | rewrite Hc; cbn [rclass_eqb]; lia].
      destruct E' as [W' Q']. rewrite Hc in Q'. cbn [rclass_eqb] in Q'. split; [exact W'|]. split; [lia | exact I].
    - (* PForwardCurrent *)
      inv_some. cbn [exec_prim] in E. apply call_current_rule_sound in E as [W' Q']; auto. split; [exact W'|]. split; [lia | exact I].
    - (* PForwardCurrentKeyableEmptyKey *)
      inv_some. cbn [exec_prim] in E. apply call_current_rule_sound in E as [W' Q']; auto. cbn [qm] in Q'. split; [exact W'|]. split; [lia | exact I].
    - (* PForwardParent *)
      destruct (fo m0) eqn:F; [|discriminate]. kclass Hw Hk K X Hc. inv_some. apply rclass_eqb_eq in X. pose proof X as Hc.
      cbn [exec_prim] in E. destruct (stack c) as [|e s]; [discriminate|].
      destruct (Hcall _ _ _ _ _ E) as [W' [Q' _]]; [right; auto | exact W |]. split; [exact W'|]. split; [lia | exact I].
    - (* PArrayRuleChunk *)
      kclass Hw Hk K X Hc. inv_some. apply rclass_eqb_eq in X. cbn [exec_prim] in E.
      apply (rule_chunk_sound false) in E as [W' Q']; auto. split; [exact W'|]. split; [lia | exact I].
    - (* PStringRuleChunk *)
      kclass Hw Hk K X Hc. inv_some. apply rclass_eqb_eq in X. cbn [exec_prim] in E.
      apply (rule_chunk_sound true) in E as [W' Q']; auto. split; [exact W'|]. split; [lia | exact I].
    - (* PArrayChunkRuleData *)
      kclass Hw Hk K X Hc. inv_some. apply rclass_eqb_eq in X. cbn [exec_prim] in E.
      apply (chunk_data_sound false) in E as [W' Q']; auto. split; [exact W'|]. split; [lia | exact I].
    - (* PStringChunkRuleData *)
      kclass Hw Hk K X Hc. inv_some. apply rclass_eqb_eq in X. cbn [exec_prim] in E.
      apply (chunk_data_sound true) in E as [W' Q']; auto. split; [exact W'|]. split; [lia | exact I].
  Qed.

  Lemma walk_sound fo self m a cell : forall k kf c c',
    walk fo k cell = Some kf -> (forall m', fo m' = true -> fpm m' = true) -> ksound k c -> WF c ->
    exec_prims cfg call self m a cell c = Some c' ->
    WF c' /\ (Q c' = Q c + qsum cell)%Z /\ ksound kf c'.
  Proof.
    induction cell as [|p ps IH]; intros k kf c c' Hw Hfo Hk W E; cbn [walk exec_prims qsum fold_right] in *.
    - inv_some. split; [exact W|]. split; [lia | exact Hk].
    - destruct (wstep fo k p) as [k1|] eqn:S; [|discriminate].
      destruct (exec_prim cfg call self m a p c) as [c1|] eqn:E1; [|discriminate].
      destruct (prim_sound _ _ _ _ _ _ _ _ _ S Hfo Hk W E1) as [W1 [Q1 K1]].
      destruct (IH _ _ _ _ Hw Hfo K1 W1 E) as [W2 [Q2 K2]]. fold (qsum ps) in *.
      split; [exact W2|]. split; [lia | exact K2].
  Qed.

  Lemma stack_nonempty_class c : WF c -> stack c = [] -> rclass_of (e_rule (cur c)) = KTop.
  Proof. unfold WF, srules. intros [H _] S. rewrite S in H. exact H. Qed.
End Sound.

Lemma meth_beq_true a b : meth_beq a b = true -> a = b.
Proof. apply internal_meth_dec_bl. Qed.

(* every method call, entered in one of the two allowed ways, preserves the structure, adds exactly
   its marker to the markers in flight, and leaves the rule in force the analysis predicts *)
Theorem call_rule_structure cfg f r m a c c' : call_rule f cfg r m a c = Some c' -> Post r m c c'.
Proof.
  apply (call_rule_ind_gen cfg (fun r m _ c c' => Post r m c c')).
  intros call Hcall r0 m0 a0 c0 c0' H S W.
  destruct S as [S|[S F]].
  - pose proof (table_forall_spec _ table_structure r0 m0) as T. cbn beta in T. unfold cell_ok in T.
    apply orb_true_iff in T as [T|T]; [rewrite exec_prims_reject in H by exact T; discriminate|].
    apply andb_true_iff in T as [T1 T2]. unfold postk.
    destruct (walk fpm (KRule r0) (dispatch r0 m0)) as [kf|] eqn:Wk; [|discriminate].
    destruct (walk_sound cfg call Hcall _ _ _ _ _ _ _ _ _ Wk (fun _ x => x) S W H) as [W' [Q' K']].
    split; [exact W'|]. split; [lia | intros _; exact K'].
  - assert (forall m', meth_beq m0 m' = true -> fpm m' = true) as Hfo.
    { intros m' X. apply meth_beq_true in X. subst m'. exact F. }
    unfold fpm in F. rewrite forallb_forall in F. specialize (F r0 (all_rules_complete r0)). unfold cell_ok in F.
    apply orb_true_iff in F as [T|T]; [rewrite exec_prims_reject in H by exact T; discriminate|].
    apply andb_true_iff in T as [T1 T2].
    destruct (walk (meth_beq m0) (KClass KMarker) (dispatch r0 m0)) as [kf|] eqn:Wk; [|discriminate].
    destruct (walk_sound cfg call Hcall _ _ _ _ _ _ _ _ _ Wk Hfo S W H) as [W' [Q' K']].
    split; [exact W'|]. split; [lia|]. intro X. rewrite X in S.
    unfold postk. pose proof (table_forall_spec _ table_structure r0 m0) as T. cbn beta in T. unfold cell_ok in T.
    apply orb_true_iff in T as [T|T]; [rewrite exec_prims_reject in H by exact T; discriminate|].
    apply andb_true_iff in T as [T3 T4].
    destruct (walk fpm (KRule r0) (dispatch r0 m0)) as [kf2|] eqn:Wk2; [|discriminate].
    destruct (walk_sound cfg call Hcall _ _ _ _ _ _ _ _ _ Wk2 (fun _ x => x) X W H) as [_ [_ K2]]. exact K2.
Qed.

(* ------------------------------------------------------------------------- *)
(* Events and runs                                                            *)
(* ------------------------------------------------------------------------- *)
Lemma WF_init : WF init_rctx.
Proof. unfold WF, WFr, srules. cbn. repeat split; try constructor; discriminate. Qed.

Lemma nno_structure cfg real c c' : notify_new_object cfg real c = Some c' -> WF c -> WF c' /\ Q c' = Q c.
Proof.
  intros H W. apply nno_fields in H. destruct H as [_ [_ [H1 [H2 [H3 [_ [_ [_ [H4 [_ [_ [_ H5]]]]]]]]]]]].
  assert (srules c' = srules c) as S by (unfold srules; congruence).
  split; [eapply wf_frame; eauto | rewrite (q_frame c c' H3 S); lia].
Qed.

Lemma plan_step_structure cfg pl c c' :
  plan_step cfg pl c = Some c' -> WF c ->
  WF c' /\ (Q c' = Q c + qm (p_meth pl))%Z /\ ksound (postk (e_rule (cur c)) (p_meth pl)) c'.
Proof.
  unfold plan_step, call_current. intros H W. destruct (p_nno pl) as [real|].
  - destruct (notify_new_object cfg real c) as [c1|] eqn:N; [|discriminate].
    destruct (nno_structure _ _ _ _ N W) as [W1 Q1]. apply nno_fields in N.
    destruct N as [_ [_ [_ [_ [N _]]]]]. rewrite <- N.
    destruct (call_rule_structure _ _ _ _ _ _ _ H (or_introl eq_refl) W1) as [W' [Q' K']].
    split; [exact W'|]. split; [lia | auto].
  - destruct (call_rule_structure _ _ _ _ _ _ _ H (or_introl eq_refl) W) as [W' [Q' K']]. auto.
Qed.

Lemma ev_plan_marker cfg e pl : ev_plan cfg e = Some pl -> qm (p_meth pl) = (if is_marker e then 1 else 0)%Z.
Proof.
  destruct e as [| |v| |m t| |b| | |n|n|z|[z|]|bits|[bf|]|[| | |]|[[| | |]|]|s|b|s| | |id|id| | | |id|id|t cnt d|t d|mt d|ct d|ct d|t|mt|t ct|n m|d];
    cbn [ev_plan is_marker]; intro H;
    repeat match goal with H : (if ?b then _ else _) = Some _ |- _ => destruct b; try discriminate H end;
    unfold mkplan in H; inv_some; reflexivity.
Qed.

Lemma rstep_structure cfg c e c' o :
  rstep cfg c e = Some (c', o) -> WF c -> WF c' /\ (Q c' = Q c + (if is_marker e then 1 else 0))%Z.
Proof.
  rewrite rstep_plan. destruct (ev_plan cfg e) as [pl|] eqn:P; [|discriminate].
  destruct (plan_step cfg pl c) as [c2|] eqn:S; [|discriminate]. intros H W; inv_some.
  destruct (plan_step_structure _ _ _ _ S W) as [W' [Q' _]]. rewrite (ev_plan_marker _ _ _ P) in Q'. auto.
Qed.

Lemma steps_structure cfg es : forall c c',
  steps cfg c es = Some c' -> WF c -> WF c' /\ (Q c' = Q c + Z.of_N (marker_usage es))%Z.
Proof.
  induction es as [|e es IH]; intros c c' H W; cbn [steps] in H.
  - inv_some. cbn. split; [exact W | lia].
  - destruct (rstep cfg c e) as [[c1 o]|] eqn:R; [|discriminate].
    destruct (rstep_structure _ _ _ _ _ R W) as [W1 Q1]. destruct (IH _ _ H W1) as [W' Q'].
    split; [exact W'|]. unfold marker_usage in *. cbn [count_if]. destruct (is_marker e); lia.
Qed.

Theorem steps_WF cfg es c : steps cfg init_rctx es = Some c -> WF c.
Proof. intro H. exact (proj1 (steps_structure _ _ _ _ H WF_init)). Qed.

(* the number of registered markers never exceeds the number of marker events *)
Theorem steps_refcount_le_markers cfg es c : steps cfg init_rctx es = Some c -> refcount c <= marker_usage es.
Proof.
  intro H. destruct (steps_structure _ _ _ _ H WF_init) as [_ Q']. unfold Q, Qr in Q'. cbn in Q'. lia.
Qed.

Theorem state_WF cfg es c : state_after cfg es = Some c -> WF c.
Proof. rewrite state_after_steps. apply steps_WF. Qed.

Theorem registered_markers_bounded cfg es c : state_after cfg es = Some c -> refcount c <= marker_usage es.
Proof. rewrite state_after_steps. apply steps_refcount_le_markers. Qed.

(* at document level nothing is open *)
Lemma WF_top c : WF c -> rclass_of (e_rule (cur c)) = KTop -> stack c = [] /\ depth c = 0.
Proof.
  unfold WF, WFr, srules. intros [H1 [H2 _]] T. destruct (stack c) as [|e s]; cbn [map stack_ok] in *.
  - split; [reflexivity|]. rewrite H2. unfold count_cl. cbn [filter]. rewrite T. reflexivity.
  - destruct H1 as [H1 _]. congruence.
Qed.

(* every marker event is either registered or still open: registered + open marker entries = marker events *)
Theorem markers_accounted cfg es c :
  state_after cfg es = Some c ->
  (Z.of_N (refcount c) + Z.of_nat (count_cl KMarker (e_rule (cur c) :: srules c)) = Z.of_N (marker_usage es))%Z.
Proof.
  rewrite state_after_steps. intro H. destruct (steps_structure _ _ _ _ H WF_init) as [_ Q'].
  assert (Q init_rctx = 0%Z) as Z0 by reflexivity. rewrite Z0 in Q'. unfold Q, Qr in Q'. lia.
Qed.

(* at document level (in particular in a complete document) every marker is registered *)
Theorem document_markers_registered cfg es c :
  state_after cfg es = Some c -> rclass_of (e_rule (cur c)) = KTop -> refcount c = marker_usage es.
Proof.
  intros H T. pose proof (markers_accounted _ _ _ H) as A. pose proof (state_WF _ _ _ H) as W.
  destruct (WF_top c W T) as [S _]. unfold srules in A. rewrite S in A. cbn [map] in A.
  rewrite count_cl_cons, T in A. cbn in A. lia.
Qed.
