(* C01 -- CBE encode/decode preserves the data of a stream (den-level round trip),
   on top of the token lemmas of Proofs/CbeProofs.v and the denotation of Model/Denote.v. *)
From CE Require Import Model.Cbe Model.Denote Proofs.FloatBitsProofs Proofs.CbeProofs.
From Coq Require Import ZifyN ZifyNat ZifyBool.
Open Scope N_scope.

#[local] Arguments N.pow : simpl never.
#[local] Arguments N.div : simpl never.
#[local] Arguments N.modulo : simpl never.
#[local] Arguments N.mul : simpl never.
#[local] Arguments N.add : simpl never.
#[local] Arguments N.sub : simpl never.
#[local] Arguments N.ltb : simpl never.
#[local] Arguments N.leb : simpl never.
#[local] Arguments N.eqb : simpl never.
#[local] Arguments N.of_nat : simpl never.
#[local] Arguments N.to_nat : simpl never.
#[local] Arguments le_encode : simpl never.
#[local] Arguments uleb_encode : simpl never.

(* ------------------------------------------------------------------ *)
(** * 1. The denotation of arrays delivered in chunks *)

Definition ap_state (k : akind) (c : N) (dat : bytes) (R : N) (last inchunk : bool) : apart :=
  {| ap_kind := k; ap_count := c; ap_data := dat; ap_remaining := R; ap_last := last; ap_inchunk := inchunk |}.

Definition finish_kind (k : akind) (c : N) (dat : bytes) : dev :=
  match k with
  | AkArr t => DArr t c dat
  | AkMedia mt => DMedia mt dat
  | AkCustom tx ct => DCustom tx ct dat
  end.

(* data events of one chunk with R bytes outstanding: each arrives while bytes are
   outstanding and does not overshoot; together they deliver exactly R bytes *)
Fixpoint data_ok (R : N) (ds : list bytes) : Prop :=
  match ds with
  | [] => R = 0
  | d :: r => R <> 0 /\ len d <= R /\ data_ok (R - len d) r
  end.

Lemma data_ok_total R ds : data_ok R ds -> len (concat ds) = R.
Proof.
  revert R; induction ds as [|d r IH]; intros R H; cbn [data_ok concat] in *.
  - subst. reflexivity.
  - destruct H as (_ & H2 & H3). rewrite len_app, (IH _ H3). lia.
Qed.

Lemma den_data_run ds : forall k c dat R last r,
  data_ok R ds -> R <> 0 ->
  den_go (Some (ap_state k c dat R last true)) (map EArrayData ds ++ r) =
  if last then finish_kind k c (dat ++ concat ds) :: den_go None r
  else den_go (Some (ap_state k c (dat ++ concat ds) 0 last false)) r.
Proof.
  induction ds as [|d ds IH]; intros k c dat R last r H HR; cbn [data_ok] in H; [contradiction|].
  destruct H as (_ & Hle & Hrest).
  cbn [map app den_go ap_state ap_inchunk ap_remaining ap_kind ap_count ap_data ap_last negb orb].
  fold (len d). replace (R <? len d) with false by (symmetry; apply N.ltb_ge; exact Hle).
  destruct (N.eqb_spec (R - len d) 0) as [E|E].
  - rewrite E in Hrest. destruct ds as [|d' ds']; [|cbn [data_ok] in Hrest; destruct Hrest as [C _]; contradiction].
    cbn [map app concat andb negb]. rewrite app_nil_r.
    destruct last; cbn [andb].
    + unfold finish_array. cbn. destruct k; reflexivity.
    + rewrite E. reflexivity.
  - cbn [andb negb]. specialize (IH k c (dat ++ d) (R - len d) last r Hrest E).
    unfold ap_state in IH. cbn [concat]. rewrite app_assoc. exact IH.
Qed.

(* a chunk list as the array protocol demands, in terms of the denotation's own byte count *)
Inductive den_chunks_ok (k : akind) : list rchunk -> Prop :=
| dco_last n ds :
    data_ok (chunk_bytes_of k n) ds -> (n <> 0 -> chunk_bytes_of k n <> 0) -> den_chunks_ok k [(n, false, ds)]
| dco_more n ds r :
    data_ok (chunk_bytes_of k n) ds -> (n <> 0 -> chunk_bytes_of k n <> 0) -> den_chunks_ok k r ->
    den_chunks_ok k ((n, true, ds) :: r).

Fixpoint chunks_count (cs : list chunk) : N :=
  match cs with [] => 0 | (n, _, _) :: r => n + chunks_count r end.
Fixpoint chunks_data (cs : list chunk) : bytes :=
  match cs with [] => [] | (_, _, d) :: r => d ++ chunks_data r end.

Lemma chunk_bytes_zero k : chunk_bytes_of k 0 = 0.
Proof. unfold chunk_bytes_of. destruct (elem_bits_of k =? 1); reflexivity. Qed.

Lemma den_chunks_run k cs : den_chunks_ok k cs -> forall c dat R0 l0 r,
  den_go (Some (ap_state k c dat R0 l0 false)) (raw_chunk_events cs ++ r) =
  finish_kind k (c + chunks_count (map merge cs)) (dat ++ chunks_data (map merge cs)) :: den_go None r.
Proof.
  induction 1 as [n ds Hd Hnz | n ds rest Hd Hnz Hrest IH]; intros c dat R0 l0 r;
    cbn [raw_chunk_events flat_map map merge chunks_count chunks_data app]; rewrite <- ?app_assoc;
    cbn [app den_go ap_state ap_inchunk ap_remaining ap_kind ap_count ap_data ap_last].
  - destruct (N.eqb_spec n 0) as [E|E].
    + subst n. rewrite chunk_bytes_zero in Hd. destruct ds; [|cbn in Hd; destruct Hd as [C _]; contradiction].
      cbn [map app concat]. rewrite !app_nil_r. replace (c + (0 + 0)) with c by lia.
      unfold finish_array. cbn. destruct k; reflexivity.
    + rewrite app_nil_r.
      pose proof (den_data_run ds k (c + n) dat (chunk_bytes_of k n) (negb false) r Hd (Hnz E)) as D.
      unfold ap_state in D. cbn [negb] in D |- *. rewrite D. replace (c + (n + 0)) with (c + n) by lia. reflexivity.
  - fold (raw_chunk_events rest).
    destruct (N.eqb_spec n 0) as [E|E].
    + subst n. rewrite chunk_bytes_zero in Hd. destruct ds; [|cbn in Hd; destruct Hd as [C _]; contradiction].
      cbn [map app concat]. specialize (IH c dat R0 l0 r). unfold ap_state in *. rewrite IH.
      replace (c + (0 + chunks_count (map merge rest))) with (c + chunks_count (map merge rest)) by lia. reflexivity.
    + pose proof (den_data_run ds k (c + n) dat (chunk_bytes_of k n) (negb true) (raw_chunk_events rest ++ r) Hd (Hnz E)) as D.
      unfold ap_state in D. cbn [negb] in D |- *. rewrite D.
      specialize (IH (c + n) (dat ++ concat ds) 0 false r). unfold ap_state in IH. rewrite IH.
      rewrite N.add_assoc, <- app_assoc. reflexivity.
Qed.

(* ------------------------------------------------------------------ *)
(** * 2. Byte counts: the decoder's and the denotation's agree when nothing wraps *)

Ltac dlia := zify; Z.to_euclidean_division_equations; lia.

Lemma chunk_bytes_eq w n :
  n * w < two64 -> (if w =? 1 then (n + 7) / 8 else n * w / 8) = elem_bytes w n.
Proof.
  intro H. unfold elem_bytes, u64. rewrite (N.mod_small (n * w) two64) by exact H. unfold two64 in H.
  destruct (N.eqb_spec w 1) as [E|E]; cbn [andb].
  - subst w. destruct (N.eqb_spec (n mod 8) 0) as [E8|E8]; cbn [negb]; dlia.
  - reflexivity.
Qed.

Lemma chunk_bytes_nonzero w n :
  w = 1 \/ 8 <= w -> n <> 0 -> (if w =? 1 then (n + 7) / 8 else n * w / 8) <> 0.
Proof.
  intros Hw Hn. destruct (N.eqb_spec w 1) as [E|E].
  - dlia.
  - destruct Hw as [Hw|Hw]; [contradiction|]. assert (8 <= n * w) by nia. dlia.
Qed.

Definition bits_check (t : N) : bool :=
  if arr_ok t then
    (nth (N.to_nat t) array_elem_bits 8 =? element_bits t) && ((element_bits t =? 1) || (8 <=? element_bits t))
  else true.

Lemma bits_sweep : forallb bits_check (nseq 0 256) = true.
Proof. vm_compute. reflexivity. Qed.

Lemma arr_ok_bits t :
  arr_ok t = true ->
  elem_bits_of (AkArr t) = element_bits t /\ (element_bits t = 1 \/ 8 <= element_bits t).
Proof.
  intro H. pose proof bits_sweep as S. rewrite forallb_forall in S.
  specialize (S t ltac:(apply nseq_In; pose proof (arr_ok_lt t H); cbn; lia)).
  unfold bits_check in S. rewrite H in S. apply andb_true_iff in S as [S1 S2]. apply N.eqb_eq in S1.
  split; [exact S1|]. apply orb_true_iff in S2 as [S2|S2]; [left; apply N.eqb_eq; exact S2 | right; apply N.leb_le; exact S2].
Qed.

(* kinds whose element width is w *)
Definition kind_width (k : akind) (w : N) : Prop := elem_bits_of k = w /\ (w = 1 \/ 8 <= w).

Lemma kind_chunk_bytes k w n : kind_width k w -> n * w < two64 -> chunk_bytes_of k n = elem_bytes w n.
Proof. intros [E _] H. unfold chunk_bytes_of. rewrite E. apply chunk_bytes_eq. exact H. Qed.

Lemma kind_chunk_nonzero k w n : kind_width k w -> n <> 0 -> chunk_bytes_of k n <> 0.
Proof. intros [E Hw] H. unfold chunk_bytes_of. rewrite E. apply chunk_bytes_nonzero; assumption. Qed.

(* ------------------------------------------------------------------ *)
(** * 3. Chunk lists of the covered fragment *)

(* counts below 2^63 whose byte count does not wrap, data events that arrive
   while the chunk is open and deliver exactly its bytes, the last chunk and only it final *)
Inductive c01_chunks (w : N) : list rchunk -> Prop :=
| cc_last n ds :
    n < two63 -> n * w < two64 -> data_ok (elem_bytes w n) ds -> Forall bytes_wf ds ->
    c01_chunks w [(n, false, ds)]
| cc_more n ds r :
    n < two63 -> n * w < two64 -> data_ok (elem_bytes w n) ds -> Forall bytes_wf ds -> c01_chunks w r ->
    c01_chunks w ((n, true, ds) :: r).

Lemma c01_chunks_wf w cs : c01_chunks w cs -> chunks_wf w (map merge cs) /\ rchunks_data_wf cs.
Proof.
  induction 1 as [n ds Hn Hw Hd Hb | n ds r Hn Hw Hd Hb Hr [IH1 IH2]]; cbn [map merge].
  - split; [apply cw_last; [exact Hn | apply data_ok_total; exact Hd]|]. repeat constructor. exact Hb.
  - split; [apply cw_more; [exact Hn | apply data_ok_total; exact Hd | exact IH1]|]. constructor; assumption.
Qed.

Lemma c01_chunks_den k w cs : kind_width k w -> c01_chunks w cs -> den_chunks_ok k cs.
Proof.
  intros Hk. induction 1 as [n ds Hn Hw Hd Hb | n ds r Hn Hw Hd Hb Hr IH].
  - apply dco_last; [rewrite (kind_chunk_bytes k w n Hk Hw); exact Hd | apply (kind_chunk_nonzero k w n Hk)].
  - apply dco_more; [rewrite (kind_chunk_bytes k w n Hk Hw); exact Hd | apply (kind_chunk_nonzero k w n Hk) | exact IH].
Qed.

(* the decoder's form of the same chunks (one data event per non-empty chunk) is covered too *)
Lemma data_ok_unmerge R ds :
  data_ok R ds -> data_ok R (if len (concat ds) =? 0 then [] else [concat ds]).
Proof.
  intro H. pose proof (data_ok_total R ds H) as T.
  destruct (N.eqb_spec (len (concat ds)) 0) as [E|E]; cbn [data_ok].
  - lia.
  - repeat split; try lia.
Qed.

Lemma c01_chunks_unmerge w cs : c01_chunks w cs -> c01_chunks w (map unmerge (map merge cs)).
Proof.
  induction 1 as [n ds Hn Hw Hd Hb | n ds r Hn Hw Hd Hb Hr IH]; cbn [map merge unmerge].
  - apply cc_last; [exact Hn | exact Hw | apply data_ok_unmerge; exact Hd|].
    destruct (len (concat ds) =? 0); repeat constructor.
    clear Hd. induction Hb; cbn [concat]; [constructor | apply bytes_wf_app; split; assumption].
  - apply cc_more; [exact Hn | exact Hw | apply data_ok_unmerge; exact Hd | | exact IH].
    destruct (len (concat ds) =? 0); repeat constructor.
    clear Hd. induction Hb; cbn [concat]; [constructor | apply bytes_wf_app; split; assumption].
Qed.

(* the denotation of a covered chunk list after its begin event *)
Lemma den_begin_chunks k w cs r :
  kind_width k w -> c01_chunks w cs ->
  den_go (Some (ap_state k 0 [] 0 false false)) (raw_chunk_events cs ++ r) =
  finish_kind k (chunks_count (map merge cs)) (chunks_data (map merge cs)) :: den_go None r.
Proof.
  intros Hk Hcs. rewrite (den_chunks_run k cs (c01_chunks_den k w cs Hk Hcs)). rewrite N.add_0_l. reflexivity.
Qed.

Lemma den_begin_chunk_events k w cs r :
  kind_width k w -> c01_chunks w cs ->
  den_go (Some (ap_state k 0 [] 0 false false)) (chunk_events (map merge cs) ++ r) =
  finish_kind k (chunks_count (map merge cs)) (chunks_data (map merge cs)) :: den_go None r.
Proof.
  intros Hk Hcs. rewrite chunk_events_raw.
  rewrite (den_begin_chunks k w _ r Hk (c01_chunks_unmerge w cs Hcs)). rewrite map_merge_unmerge. reflexivity.
Qed.

(* ------------------------------------------------------------------ *)
(** * 4. Bit-level facts relating the two float vocabularies (Events.v / FloatBits.v) *)

Lemma ev_f64_exp b : Events.f64_exp b = f64_expo b.
Proof.
  unfold Events.f64_exp, f64_expo. rewrite N.shiftr_div_pow2. change 2047 with (N.ones 11).
  rewrite N.land_ones. reflexivity.
Qed.

Lemma ev_f64_mant b : Events.f64_mant b = FloatBits.f64_mant b.
Proof.
  unfold Events.f64_mant, FloatBits.f64_mant. change (2 ^ 52 - 1) with (N.ones 52). rewrite N.land_ones. reflexivity.
Qed.

Lemma ev_f64_is_nan b : Events.f64_is_nan b = FloatBits.f64_is_nan b.
Proof. unfold Events.f64_is_nan, FloatBits.f64_is_nan. rewrite ev_f64_exp, ev_f64_mant. reflexivity. Qed.

Lemma testbit63_sign b : N.testbit b 63 = (f64_sign b =? 1).
Proof.
  unfold f64_sign. pose proof (N.testbit_spec' b 63) as T. change (2 ^ 63) with p2_63 in T.
  destruct (N.testbit b 63); cbn [N.b2n] in T; rewrite <- T; reflexivity.
Qed.

Lemma low63_zero b : b < 2 ^ 64 -> (N.land b (2 ^ 63 - 1) =? 0) = f64_is_zero b.
Proof.
  intro Hb. change (2 ^ 63 - 1) with (N.ones 63). rewrite N.land_ones.
  destruct (f64_decompose b Hb) as (Hs & He & Hm & E).
  unfold f64_is_zero. set (s := f64_sign b) in *. set (e := f64_expo b) in *. set (m := FloatBits.f64_mant b) in *.
  rewrite E. unfold f64_make, p2_63, p2_52 in *.
  assert (R : (s * 9223372036854775808 + e * 4503599627370496 + m) mod 2 ^ 63 = e * 4503599627370496 + m).
  { change (2 ^ 63) with 9223372036854775808. dlia. }
  rewrite R.
  destruct (N.eqb_spec e 0) as [E0|E0]; destruct (N.eqb_spec m 0) as [M0|M0]; cbn [andb];
    [rewrite E0, M0; reflexivity | apply N.eqb_neq; lia | apply N.eqb_neq; lia | apply N.eqb_neq; lia].
Qed.

Lemma f64_den_cases b :
  b < 2 ^ 64 ->
  f64_den b =
  if FloatBits.f64_is_inf b then DInfinity (f64_sign b =? 1)
  else if FloatBits.f64_is_nan b then DNan (negb (FloatBits.f64_quiet_bit b))
  else if f64_is_zero b then DNum (f64_sign b =? 1) 0 0%Z
  else DBin b.
Proof.
  intro Hb. unfold f64_den. rewrite ev_f64_is_nan, ev_f64_exp, low63_zero, !testbit63_sign by exact Hb.
  unfold FloatBits.f64_is_inf, FloatBits.f64_is_nan.
  destruct (f64_expo b =? 2047) eqn:E; cbn [andb].
  - destruct (FloatBits.f64_mant b =? 0); cbn [negb]; reflexivity.
  - reflexivity.
Qed.

(* ------------------------------------------------------------------ *)
(** * 4b. Big floats that are exactly a float64 *)

Lemma size_bounds m : m <> 0 -> 2 ^ (N.size m - 1) <= m < 2 ^ N.size m /\ 1 <= N.size m.
Proof.
  intro H. rewrite N.size_log2 by exact H. destruct (N.log2_spec m ltac:(lia)) as [A B].
  replace (N.succ (N.log2 m) - 1) with (N.log2 m) by lia. split; [split; assumption | lia].
Qed.

Lemma pow2_split a b : b <= a -> 2 ^ a = 2 ^ b * 2 ^ (a - b).
Proof. intro H. rewrite <- N.pow_add_r. f_equal. lia. Qed.

(* the pattern the encoder model computes has a finite exponent field and is not a zero *)
Lemma bigfloat_fields neg m e b :
  m <> 0 -> Cbe.bigfloat_to_f64 neg m e = Some b ->
  exists ee mm, b = f64_make (if neg then 1 else 0) ee mm /\ ee < 2047 /\ mm < p2_52 /\ (ee <> 0 \/ mm <> 0).
Proof.
  intros Hm. unfold Cbe.bigfloat_to_f64. cbv zeta.
  replace (m =? 0) with false by (symmetry; apply N.eqb_neq; exact Hm).
  destruct (size_bounds m Hm) as [[Lo Hi] L1]. set (L := N.size m) in *.
  destruct (Z.ltb_spec 1023 (e + Z.of_N L - 1)) as [E1|E1]; [discriminate|].
  destruct (Z.leb_spec (-1022) (e + Z.of_N L - 1)) as [E2|E2].
  - (* normal *)
    assert (He : Z.to_N (e + Z.of_N L - 1 + 1023) < 2047) by lia.
    assert (He0 : Z.to_N (e + Z.of_N L - 1 + 1023) <> 0) by lia.
    destruct (N.leb_spec L 53) as [L53|L53].
    + intro H. injection H as <-. eexists _, _. split; [reflexivity|]. split; [exact He|]. split; [|left; exact He0].
      assert (P : 2 ^ (L - 1) * 2 ^ (53 - L) = p2_52).
      { rewrite <- N.pow_add_r. replace (L - 1 + (53 - L)) with 52 by lia. reflexivity. }
      assert (Q : 2 ^ L = 2 * 2 ^ (L - 1)).
      { replace L with (N.succ (L - 1)) at 1 by lia. apply N.pow_succ_r'. }
      assert (0 < 2 ^ (53 - L)) by (apply N.neq_0_lt_0, N.pow_nonzero; discriminate).
      nia.
    + destruct (N.eqb_spec (m mod 2 ^ (L - 53)) 0) as [D|D]; [|discriminate].
      intro H. injection H as <-. eexists _, _. split; [reflexivity|]. split; [exact He|]. split; [|left; exact He0].
      assert (Hd : m / 2 ^ (L - 53) < 2 ^ 53).
      { apply N.div_lt_upper_bound; [apply N.pow_nonzero; discriminate|].
        rewrite <- N.pow_add_r. replace (L - 53 + 53) with L by lia. exact Hi. }
      assert (Hd2 : 2 ^ 52 <= m / 2 ^ (L - 53)).
      { apply N.div_le_lower_bound; [apply N.pow_nonzero; discriminate|].
        rewrite <- N.pow_add_r. replace (L - 53 + 52) with (L - 1) by lia. exact Lo. }
      change (2 ^ 53) with 9007199254740992 in Hd. change (2 ^ 52) with 4503599627370496 in Hd2.
      unfold p2_52. lia.
  - (* subnormal *)
    destruct (Z.leb_spec 0 (e + 1074)) as [T|T].
    + intro H. injection H as <-. eexists _, _. split; [reflexivity|]. split; [lia|].
      assert (Hb : m * 2 ^ Z.to_N (e + 1074) < 2 ^ (L + Z.to_N (e + 1074))).
      { rewrite N.pow_add_r. apply N.mul_lt_mono_pos_r; [apply N.neq_0_lt_0, N.pow_nonzero; discriminate | exact Hi]. }
      assert (Hc : 2 ^ (L + Z.to_N (e + 1074)) <= 2 ^ 52) by (apply N.pow_le_mono_r; [discriminate | lia]).
      assert (0 < 2 ^ Z.to_N (e + 1074)) by (apply N.neq_0_lt_0, N.pow_nonzero; discriminate).
      split; [unfold p2_52; change (2 ^ 52) with 4503599627370496 in Hc; lia | right; nia].
    + destruct (N.eqb_spec (m mod 2 ^ Z.to_N (- (e + 1074))) 0) as [D|D]; [|discriminate].
      destruct (N.eqb_spec (m / 2 ^ Z.to_N (- (e + 1074))) 0) as [Z0|Z0]; [discriminate|].
      intro H. injection H as <-. eexists _, _. split; [reflexivity|]. split; [lia|]. split; [|right; exact Z0].
      apply N.div_lt_upper_bound; [apply N.pow_nonzero; discriminate|].
      eapply N.lt_le_trans; [exact Hi|]. unfold p2_52. change 4503599627370496 with (2 ^ 52).
      rewrite <- N.pow_add_r. apply N.pow_le_mono_r; [discriminate | lia].
Qed.

Lemma make_ordinary s ee mm :
  s < 2 -> ee < 2047 -> mm < p2_52 -> (ee <> 0 \/ mm <> 0) ->
  f64_make s ee mm < 2 ^ 64 /\ f64_ordinary (f64_make s ee mm) = true.
Proof.
  intros Hs He Hm Hnz. split; [apply f64_make_lt; [exact Hs | lia | exact Hm]|].
  destruct (f64_fields s ee mm Hs ltac:(lia) Hm) as (F1 & F2 & F3).
  unfold f64_ordinary, FloatBits.f64_is_inf, FloatBits.f64_is_nan, f64_is_zero. rewrite F2, F3.
  replace (ee =? 2047) with false by (symmetry; apply N.eqb_neq; lia). cbn [andb negb].
  destruct Hnz as [H|H].
  - replace (ee =? 0) with false by (symmetry; apply N.eqb_neq; exact H). reflexivity.
  - replace (mm =? 0) with false by (symmetry; apply N.eqb_neq; exact H). rewrite andb_false_r. reflexivity.
Qed.

(* for an odd mantissa the two conversions (the encoder model's and the denotation's) agree *)
Lemma bigfloat_agree neg m e b :
  N.odd m = true -> Cbe.bigfloat_to_f64 neg m e = Some b -> Denote.bigfloat_to_f64 neg m e = Some b.
Proof.
  intros Hodd. assert (Hm : m <> 0) by (intro C; subst m; discriminate).
  unfold Cbe.bigfloat_to_f64, Denote.bigfloat_to_f64. cbv zeta.
  replace (m =? 0) with false by (symmetry; apply N.eqb_neq; exact Hm).
  destruct (size_bounds m Hm) as [[Lo Hi] L1]. set (L := N.size m) in *.
  assert (Hnd : forall k, 1 <= k -> m mod 2 ^ k <> 0).
  { intros k Hk C. apply N.mod_divide in C; [|apply N.pow_nonzero; discriminate]. destruct C as [q Q].
    replace k with (N.succ (k - 1)) in Q by lia. rewrite N.pow_succ_r' in Q.
    rewrite <- N.negb_even in Hodd. apply negb_true_iff in Hodd.
    assert (Ev : N.even m = true) by (apply N.even_spec; exists (q * 2 ^ (k - 1)); rewrite Q; ring). congruence. }
  replace (e + Z.of_N L - 1)%Z with (e + Z.of_N L - 1)%Z by reflexivity.
  destruct (Z.ltb_spec 1023 (e + Z.of_N L - 1)) as [E1|E1].
  - discriminate.
  - destruct (Z.leb_spec (-1022) (e + Z.of_N L - 1)) as [E2|E2].
    + destruct (N.leb_spec L 53) as [L53|L53].
      * replace (53 <? Z.of_N L)%Z with false by (symmetry; apply Z.ltb_ge; lia).
        intro H. injection H as <-. f_equal. unfold f64_make, p2_63, p2_52. rewrite N.shiftl_mul_pow2.
        replace (Z.to_N (53 - Z.of_N L)) with (53 - L) by lia.
        assert (P : 2 ^ (L - 1) * 2 ^ (53 - L) = 2 ^ 52).
        { rewrite <- N.pow_add_r. f_equal. lia. }
        rewrite N.mul_sub_distr_r, P. change (2 ^ 63) with 9223372036854775808. change (2 ^ 52) with 4503599627370496.
        destruct neg; lia.
      * specialize (Hnd (L - 53) ltac:(lia)).
        replace (m mod 2 ^ (L - 53) =? 0) with false by (symmetry; apply N.eqb_neq; exact Hnd). discriminate.
    + destruct (Z.ltb_spec 53 (Z.of_N L)) as [L53|L53].
      { replace (0 <=? e + 1074)%Z with false by (symmetry; apply Z.leb_gt; lia).
        specialize (Hnd (Z.to_N (- (e + 1074))) ltac:(lia)).
        replace (m mod 2 ^ Z.to_N (- (e + 1074)) =? 0) with false by (symmetry; apply N.eqb_neq; exact Hnd). discriminate. }
      destruct (Z.leb_spec 0 (e + 1074)) as [T|T].
      * replace (e <? -1074)%Z with false by (symmetry; apply Z.ltb_ge; lia).
        intro H. injection H as <-. f_equal. unfold f64_make, p2_63. rewrite N.shiftl_mul_pow2.
        change (2 ^ 63) with 9223372036854775808. destruct neg; lia.
      * specialize (Hnd (Z.to_N (- (e + 1074))) ltac:(lia)).
        replace (m mod 2 ^ Z.to_N (- (e + 1074)) =? 0) with false by (symmetry; apply N.eqb_neq; exact Hnd). discriminate.
Qed.

Lemma strip2_odd fuel m e : N.odd m = true -> strip2 (S fuel) m e = (m, e).
Proof.
  intro H. cbn [strip2]. assert (m <> 0) by (intro C; subst m; discriminate).
  replace (m =? 0) with false by (symmetry; apply N.eqb_neq; assumption).
  rewrite <- N.negb_odd, H. reflexivity.
Qed.

(* the denotation of an exactly representable big float with odd mantissa is its float64 pattern *)
Lemma bigfloat_den_exact neg m e prec b :
  N.odd m = true -> Cbe.bigfloat_to_f64 neg m e = Some b ->
  bigfloat_den (BFin neg m e prec) = DBin b /\ b < 2 ^ 64 /\ f64_ordinary b = true.
Proof.
  intros Hodd Hb. assert (Hm : m <> 0) by (intro C; subst m; discriminate).
  destruct (bigfloat_fields neg m e b Hm Hb) as (ee & mm & -> & He & Hmm & Hnz).
  destruct (make_ordinary (if neg then 1 else 0) ee mm ltac:(destruct neg; lia) He Hmm Hnz) as [B1 B2].
  split; [|split; assumption].
  unfold bigfloat_den. replace (m =? 0) with false by (symmetry; apply N.eqb_neq; exact Hm).
  destruct (size_bounds m Hm) as [_ L1]. destruct (N.to_nat (N.size m)) as [|k] eqn:Ek; [lia|].
  rewrite strip2_odd by exact Hodd. rewrite (bigfloat_agree neg m e _ Hodd Hb). reflexivity.
Qed.

(* ------------------------------------------------------------------ *)
(** * 5. The denotation of the decoder's normal forms *)

Lemma den_norm_signed neg m r :
  den_go None (norm_signed neg m :: r) = dnum neg m 0 :: den_go None r.
Proof.
  unfold norm_signed, signed_z.
  destruct ((m <=? 100) && negb (neg && (m =? 0))) eqn:C.
  - apply andb_true_iff in C as [_ C]. apply negb_true_iff in C. cbn [den_go]. f_equal.
    destruct neg; cbn [andb] in C.
    + apply N.eqb_neq in C. replace (- Z.of_N m <? 0)%Z with true by (symmetry; apply Z.ltb_lt; lia).
      replace (Z.abs_N (- Z.of_N m)) with m by lia. reflexivity.
    + replace (Z.of_N m <? 0)%Z with false by (symmetry; apply Z.ltb_ge; lia).
      replace (Z.abs_N (Z.of_N m)) with m by lia. reflexivity.
  - destruct (N.ltb_spec m two64) as [L|L].
    + destruct neg; reflexivity.
    + cbn [den_go]. f_equal. unfold two64 in L. destruct neg.
      * replace (- Z.of_N m <? 0)%Z with true by (symmetry; apply Z.ltb_lt; lia).
        replace (Z.abs_N (- Z.of_N m)) with m by lia. reflexivity.
      * replace (Z.of_N m <? 0)%Z with false by (symmetry; apply Z.ltb_ge; lia).
        replace (Z.abs_N (Z.of_N m)) with m by lia. reflexivity.
Qed.

Lemma dnum_zero neg : dnum neg 0 0 = DNum neg 0 0%Z.
Proof. reflexivity. Qed.

Lemma den_norm_float b r :
  b < 2 ^ 64 -> den_go None (norm_float b :: r) = f64_den b :: den_go None r.
Proof.
  intro Hb. rewrite (f64_den_cases b Hb). unfold norm_float.
  destruct (FloatBits.f64_is_inf b) eqn:H1; [reflexivity|].
  destruct (FloatBits.f64_is_nan b) eqn:H2; [destruct (negb (FloatBits.f64_quiet_bit b)); reflexivity|].
  destruct (f64_is_zero b) eqn:H3; [destruct (f64_sign b =? 1); reflexivity|].
  cbn [den_go]. rewrite (f64_den_cases b Hb), H1, H2, H3. reflexivity.
Qed.

(* ------------------------------------------------------------------ *)
(** * 6. The fragment *)

(* single events: the ones of CbeProofs.simple_ok, minus what the denotation (or this proof) does not cover *)
Definition c01_simple (e : event) : Prop :=
  simple_ok e /\
  match e with
  | EBigFloat (Some (BFin _ m _ _)) => N.odd m = true
  | EArray t n _ => n * element_bits t < two64
  | _ => True
  end.

(* a unit of the stream together with what the decoder reports for it *)
Inductive c01_unit : list event -> list event -> Prop :=
| cu_simple e : c01_simple e -> c01_unit [e] (norm_event e)
| cu_array t cs :
    arr_ok t = true -> c01_chunks (element_bits t) cs ->
    c01_unit (EArrayBegin t :: raw_chunk_events cs) (array_norm t (map merge cs))
| cu_media mt cs :
    bytes_wf mt -> len mt <= media_type_max_length -> c01_chunks 8 cs ->
    c01_unit (EMediaBegin mt :: raw_chunk_events cs) (EMediaBegin mt :: chunk_events (map merge cs))
| cu_custom ct cs :
    ct <= custom_type_max -> c01_chunks 8 cs ->
    c01_unit (ECustomBegin cbeAT_CustomBinary ct :: raw_chunk_events cs)
             (ECustomBegin cbeAT_CustomBinary ct :: chunk_events (map merge cs)).

Inductive c01_body : list event -> list event -> Prop :=
| cb_nil : c01_body [] []
| cb_app u n r rn : c01_unit u n -> c01_body r rn -> c01_body (u ++ r) (n ++ rn).

Lemma kind_width_arr t : arr_ok t = true -> kind_width (AkArr t) (element_bits t).
Proof. intro H. destruct (arr_ok_bits t H). split; assumption. Qed.

Lemma kind_width_media mt : kind_width (AkMedia mt) 8.
Proof. split; [reflexivity | right; lia]. Qed.

Lemma kind_width_custom tx ct : kind_width (AkCustom tx ct) 8.
Proof. split; [reflexivity | right; lia]. Qed.

Lemma whole_c01_chunks w n d :
  n < two63 -> n * w < two64 -> (w = 1 \/ 8 <= w) -> len d = elem_bytes w n -> bytes_wf d ->
  c01_chunks w (map unmerge (whole_chunks n d)).
Proof.
  intros Hn Hw Hww Hl Hb. cbn [whole_chunks map unmerge]. apply cc_last; [exact Hn | exact Hw | |].
  - destruct (N.eqb_spec (len d) 0) as [E|E]; cbn [data_ok]; [lia|]. repeat split; lia.
  - destruct (len d =? 0); repeat constructor. exact Hb.
Qed.

(* the denotation of a single-final-chunk array in either form the decoder can report *)
Lemma den_array_norm t cs r :
  arr_ok t = true -> c01_chunks (element_bits t) cs ->
  den_go None (array_norm t (map merge cs) ++ r) =
  DArr t (chunks_count (map merge cs)) (chunks_data (map merge cs)) :: den_go None r.
Proof.
  intros Ht Hcs.
  assert (G : den_go None ((EArrayBegin t :: chunk_events (map merge cs)) ++ r) =
              DArr t (chunks_count (map merge cs)) (chunks_data (map merge cs)) :: den_go None r).
  { cbn [app den_go]. apply (den_begin_chunk_events (AkArr t) (element_bits t) cs r (kind_width_arr t Ht) Hcs). }
  destruct Hcs as [n ds Hn Hw Hd Hb | n ds rest Hn Hw Hd Hb Hr]; [|exact G].
  cbn [map merge array_norm] in *. destruct (is_short t n); [|exact G].
  cbn [app den_go chunks_count chunks_data]. f_equal. rewrite app_nil_r, N.add_0_r.
  unfold whole_count. destruct (arr_ok_bits t Ht) as [Eb _]. unfold elem_bits_of in Eb. rewrite Eb.
  destruct (N.eqb_spec (element_bits t) 8) as [E8|E8]; [|reflexivity].
  fold (len (concat ds)). rewrite (data_ok_total _ _ Hd), E8.
  unfold elem_bytes, u64. replace (8 =? 1) with false by reflexivity. cbn [andb].
  rewrite E8 in Hw. rewrite N.mod_small by exact Hw. rewrite N.div_mul by discriminate. reflexivity.
Qed.

Lemma no_comments_dnum neg c e : no_comments [dnum neg c e] = [dnum neg c e].
Proof. unfold dnum. destruct (c =? 0); [reflexivity|]. destruct (strip10 _ c e). reflexivity. Qed.

Section C01.
Variable cfg : dcfg.

(* one simple event: its denotation, and that of the decoder's report *)
Lemma simple_den e :
  c01_simple e ->
  exists d, (forall r, den_go None (e :: r) = d :: den_go None r) /\
            (forall r, den_go None (norm_event e ++ r) = no_comments [d] ++ den_go None r).
Proof.
  intros [Hs Hx]. destruct e; cbn [simple_ok] in Hs; try contradiction; cbn [norm_event];
    try (eexists; split; [intro r; reflexivity | intro r; reflexivity]).
  - (* EBool *) exists (DBool b). split; intro r; destruct b; reflexivity.
  - (* EPosInt *) exists (dnum false n 0). split; intro r; [reflexivity | cbn [app]; rewrite den_norm_signed, no_comments_dnum; reflexivity].
  - (* ENegInt *) exists (dnum true n 0). split; intro r; [reflexivity | cbn [app]; rewrite den_norm_signed, no_comments_dnum; reflexivity].
  - (* EInt *) exists (dnum (z <? 0)%Z (Z.abs_N z) 0). split; intro r; [reflexivity | cbn [app]; rewrite den_norm_signed, no_comments_dnum; reflexivity].
  - (* EBigInt *) destruct v as [z|].
    + exists (dnum (z <? 0)%Z (Z.abs_N z) 0). split; intro r; [reflexivity | cbn [app]; rewrite den_norm_signed, no_comments_dnum; reflexivity].
    + exists DNull. split; intro r; reflexivity.
  - (* EFloat *) exists (f64_den bits). split; intro r; [reflexivity|]. cbn [app]. rewrite den_norm_float by exact Hs.
    unfold f64_den. destruct (Events.f64_is_nan bits); [reflexivity|]. destruct (Events.f64_exp bits =? 2047); [reflexivity|].
    destruct (N.land bits (2 ^ 63 - 1) =? 0); reflexivity.
  - (* EBigFloat *) destruct v as [[neg mant exp prec|neg]|].
    + destruct (Cbe.bigfloat_to_f64 neg mant exp) as [b|] eqn:Hb; [|contradiction].
      destruct (bigfloat_den_exact neg mant exp prec b Hx Hb) as (D & B64 & Bo).
      exists (DBin b). split; intro r.
      * cbn [den_go]. rewrite D. reflexivity.
      * cbn [app]. rewrite den_norm_float by exact B64. rewrite (f64_den_cases b B64).
        apply f64_ordinary_split in Bo as (O1 & O2 & O3). rewrite O1, O2, O3. reflexivity.
    + exists (DInfinity neg). split; intro r; reflexivity.
    + exists DNull. split; intro r; reflexivity.
  - (* EDecimal *) destruct d as [neg c e|neg| |].
    + cbn [norm_decimal]. destruct (N.eqb_spec c 0) as [E0|E0].
      * subst c. exists (DNum neg 0 0%Z). split; intro r; [reflexivity | destruct neg; reflexivity].
      * exists (dnum neg c e). split; intro r; [reflexivity|]. unfold norm_decimal_fin.
        rewrite no_comments_dnum. destruct (two63 <=? c); reflexivity.
    + exists (DInfinity neg). split; intro r; reflexivity.
    + exists (DNan false). split; intro r; reflexivity.
    + exists (DNan true). split; intro r; reflexivity.
  - (* EBigDecimal *) destruct v as [[neg c e|neg| |]|].
    + cbn [norm_decimal]. destruct (N.eqb_spec c 0) as [E0|E0].
      * subst c. exists (DNum neg 0 0%Z). split; intro r; [reflexivity | destruct neg; reflexivity].
      * exists (dnum neg c e). split; intro r; [reflexivity|]. unfold norm_decimal_fin.
        rewrite no_comments_dnum. destruct (two63 <=? c); reflexivity.
    + exists (DInfinity neg). split; intro r; reflexivity.
    + exists (DNan false). split; intro r; reflexivity.
    + exists (DNan true). split; intro r; reflexivity.
    + exists DNull. split; intro r; reflexivity.
  - (* ENan *) exists (DNan signaling). split; intro r; destruct signaling; reflexivity.
  - (* EArray *) destruct Hs as (Ht & Hn & Hw & Hl). destruct (arr_ok_bits t Ht) as [Eb Hww].
    pose proof (whole_c01_chunks (element_bits t) count data Hn Hx Hww Hl Hw) as Hcs.
    exists (DArr t (whole_count t count data) data). split; intro r; [reflexivity|].
    rewrite <- (map_merge_unmerge (whole_chunks count data)). rewrite (den_array_norm t _ r Ht Hcs).
    rewrite map_merge_unmerge. cbn [whole_chunks chunks_count chunks_data no_comments filter is_comment negb app].
    f_equal. rewrite app_nil_r, N.add_0_r. f_equal.
    unfold whole_count. unfold elem_bits_of in Eb. rewrite Eb.
    destruct (N.eqb_spec (element_bits t) 8) as [E8|E8]; [|reflexivity].
    fold (len data). rewrite Hl, E8. unfold elem_bytes, u64. replace (8 =? 1) with false by reflexivity. cbn [andb].
    rewrite E8 in Hx. rewrite N.mod_small by exact Hx. rewrite N.div_mul by discriminate. reflexivity.
  - (* EStringArray *) destruct Hs as (Ht & He & Hw & Hl). destruct (arr_ok_bits t Ht) as [Eb Hww].
    assert (Hnw : len data * element_bits t < two64) by (rewrite He; unfold two61, two64 in *; lia).
    assert (Hl' : len data = elem_bytes (element_bits t) (len data)) by (rewrite He, elem_bytes_8 by exact Hl; reflexivity).
    pose proof (whole_c01_chunks (element_bits t) (len data) data (two61_lt_two63 _ Hl) Hnw Hww Hl' Hw) as Hcs.
    exists (DArr t (len data) data). split; intro r; [reflexivity|].
    rewrite <- (map_merge_unmerge (whole_chunks (len data) data)). rewrite (den_array_norm t _ r Ht Hcs).
    rewrite map_merge_unmerge. cbn [whole_chunks chunks_count chunks_data no_comments filter is_comment negb app].
    rewrite app_nil_r, N.add_0_r. reflexivity.
  - (* EMedia *) destruct Hs as (Hwm & Hlm & Hw & Hl).
    assert (Hcs : c01_chunks 8 (map unmerge (whole_chunks (len data) data))).
    { apply whole_c01_chunks; [apply two61_lt_two63; exact Hl | unfold two61, two64 in *; lia | right; lia |
                               rewrite elem_bytes_8 by exact Hl; reflexivity | exact Hw]. }
    exists (DMedia mediatype data). split; intro r; [reflexivity|].
    cbn [app den_go].
    pose proof (den_begin_chunk_events (AkMedia mediatype) 8 _ r (kind_width_media mediatype) Hcs) as G.
    rewrite map_merge_unmerge in G. unfold ap_state in G. rewrite G. cbn [whole_chunks chunks_count chunks_data finish_kind no_comments filter is_comment negb app].
    rewrite app_nil_r. reflexivity.
  - (* ECustomBin *) destruct Hs as (Hc & Hw & Hl).
    assert (Hcs : c01_chunks 8 (map unmerge (whole_chunks (len data) data))).
    { apply whole_c01_chunks; [apply two61_lt_two63; exact Hl | unfold two61, two64 in *; lia | right; lia |
                               rewrite elem_bytes_8 by exact Hl; reflexivity | exact Hw]. }
    exists (DCustom false ct data). split; intro r; [reflexivity|].
    cbn [app den_go]. change (cbeAT_CustomBinary =? AT_CustomText) with false.
    pose proof (den_begin_chunk_events (AkCustom false ct) 8 _ r (kind_width_custom false ct) Hcs) as G.
    rewrite map_merge_unmerge in G. unfold ap_state in G. rewrite G. cbn [whole_chunks chunks_count chunks_data finish_kind no_comments filter is_comment negb app].
    rewrite app_nil_r. reflexivity.
Qed.

Lemma c01_simple_ok e : c01_simple e -> simple_ok e.
Proof. intros [H _]. exact H. Qed.

(* a unit: it encodes to one token (or nothing), the token decodes to the unit's
   normal form, and the normal form denotes the same data without the comments *)
Lemma unit_decodes u n : c01_unit u n -> exists B, unit_ok cfg u B n.
Proof.
  intro H. destruct H as [e He | t cs Ht Hcs | mt cs Hm Hl Hcs | ct cs Hc Hcs].
  - apply simple_unit. apply c01_simple_ok. exact He.
  - destruct (c01_chunks_wf _ _ Hcs) as [Hwf Hd]. destruct (arr_ok_header t Ht) as [hd Hh].
    exists (array_bytes t hd (map merge cs)). split; [|split].
    + apply encodes_array_begin; assumption.
    + apply encodes_array_norm; [exact Ht | exact Hh | exact Hwf | apply merged_data_wf; exact Hd].
    + right. split; [apply array_bytes_nonempty; assumption | apply tok_array; assumption].
  - destruct (c01_chunks_wf _ _ Hcs) as [Hwf Hd].
    exists (enc_media_begin mt ++ enc_chunks (map merge cs)). split; [|split].
    + apply encodes_media_begin; assumption.
    + rewrite chunk_events_raw. rewrite <- (map_merge_unmerge (map merge cs)) at 2.
      apply encodes_media_begin; [exact Hm | rewrite map_merge_unmerge; exact Hwf|].
      apply unmerge_data_wf. apply merged_data_wf. exact Hd.
    + right. split; [unfold enc_media_begin; discriminate | apply tok_media; assumption].
  - destruct (c01_chunks_wf _ _ Hcs) as [Hwf Hd].
    assert (Hc64 : ct < two64) by (unfold custom_type_max, two64 in *; lia).
    exists (enc_custom_begin ct ++ enc_chunks (map merge cs)). split; [|split].
    + apply encodes_custom_begin; [reflexivity | discriminate | exact Hc64 | exact Hwf | exact Hd].
    + rewrite chunk_events_raw. rewrite <- (map_merge_unmerge (map merge cs)) at 2.
      apply encodes_custom_begin; [reflexivity | discriminate | exact Hc64 | rewrite map_merge_unmerge; exact Hwf|].
      apply unmerge_data_wf. apply merged_data_wf. exact Hd.
    + right. split; [unfold enc_custom_begin; discriminate | apply tok_custom; assumption].
Qed.

Lemma unit_den u n :
  c01_unit u n ->
  exists du, (forall r, den_go None (u ++ r) = du ++ den_go None r) /\
             (forall r, den_go None (n ++ r) = no_comments du ++ den_go None r).
Proof.
  intro H. destruct H as [e He | t cs Ht Hcs | mt cs Hm Hl Hcs | ct cs Hc Hcs].
  - destruct (simple_den e He) as (d & D1 & D2). exists [d]. split; [intro r; apply D1 | exact D2].
  - exists [DArr t (chunks_count (map merge cs)) (chunks_data (map merge cs))]. split; intro r.
    + cbn [app den_go]. apply (den_begin_chunks (AkArr t) (element_bits t) cs r (kind_width_arr t Ht) Hcs).
    + apply den_array_norm; assumption.
  - exists [DMedia mt (chunks_data (map merge cs))]. split; intro r; cbn [app den_go].
    + apply (den_begin_chunks (AkMedia mt) 8 cs r (kind_width_media mt) Hcs).
    + apply (den_begin_chunk_events (AkMedia mt) 8 cs r (kind_width_media mt) Hcs).
  - exists [DCustom false ct (chunks_data (map merge cs))]. split; intro r; cbn [app den_go];
      change (cbeAT_CustomBinary =? AT_CustomText) with false.
    + apply (den_begin_chunks (AkCustom false ct) 8 cs r (kind_width_custom false ct) Hcs).
    + apply (den_begin_chunk_events (AkCustom false ct) 8 cs r (kind_width_custom false ct) Hcs).
Qed.

Lemma no_comments_app a b : no_comments (a ++ b) = no_comments a ++ no_comments b.
Proof. unfold no_comments. apply filter_app. Qed.

Lemma body_den body nbody :
  c01_body body nbody ->
  exists db, (forall r, den_go None (body ++ r) = db ++ den_go None r) /\
             (forall r, den_go None (nbody ++ r) = no_comments db ++ den_go None r).
Proof.
  induction 1 as [|u n r rn Hu Hr (db & I1 & I2)].
  - exists []. split; intro r; reflexivity.
  - destruct (unit_den u n Hu) as (du & U1 & U2). exists (du ++ db). split; intro tl.
    + rewrite <- app_assoc, U1, I1, app_assoc. reflexivity.
    + rewrite <- app_assoc, U2, I2, no_comments_app, app_assoc. reflexivity.
Qed.

Lemma body_decodes body nbody :
  c01_body body nbody ->
  exists B, encodes body B /\
    forall fuel br, (length B <= fuel)%nat -> fits cfg br B ->
      dec_loop cfg fuel (br, B) = (nbody ++ [EEndDoc], DOk).
Proof.
  induction 1 as [|u n r rn Hu Hr (B2 & E2 & D2)].
  - exists []. split; [apply encodes_nil|]. intros. apply dec_loop_nil.
  - destruct (unit_decodes u n Hu) as (B1 & E1 & _ & T1).
    exists (B1 ++ B2). split; [apply encodes_app; assumption|].
    intros fuel br Hfuel Hfit. destruct T1 as [[-> ->]|[NE T]].
    + cbn [app] in *. apply D2; assumption.
    + destruct fuel as [|f].
      { rewrite app_length in Hfuel. destruct B1; [contradiction | cbn [length] in Hfuel; lia]. }
      destruct (dec_loop_token cfg f br B1 B2 n NE T Hfit) as (br' & L & E).
      etransitivity; [exact E|].
      assert (D2' : dec_loop cfg f (br', B2) = (rn ++ [EEndDoc], DOk)).
      { apply D2.
        - rewrite app_length in Hfuel. destruct B1; [contradiction | cbn [length] in Hfuel; lia].
        - unfold fits in *. rewrite len_app in Hfit. lia. }
      unfold rstate, bytes, byte in *. rewrite D2'. rewrite <- app_assoc. reflexivity.
Qed.

Definition document (v : N) (body : list event) : list event := EBeginDoc :: EVersion v :: body ++ [EEndDoc].

(* C01 on the fragment: the document decodes, to a stream with the same data minus the comments *)
Theorem c01_den_roundtrip body nbody doc :
  c01_body body nbody ->
  cbe_encode (document 0 body) = Some doc ->
  len doc <= max_doc_size cfg ->
  cbe_decode cfg doc = (document 0 nbody, DOk) /\
  den (document 0 nbody) = no_comments (den (document 0 body)).
Proof.
  intros Hb Henc Hlen.
  destruct (body_decodes body nbody Hb) as (B & EB & D).
  destruct (body_den body nbody Hb) as (db & D1 & D2).
  split.
  - assert (Hdoc : cbe_encode (document 0 body) = Some (cbeSignatureByte :: uleb_encode 0 ++ B)).
    { unfold cbe_encode, document. rewrite cbe_encode_from_cons.
      change (cbe_encode_event enc_init EBeginDoc) with (Some (enc_init, [cbeSignatureByte])). cbv beta iota.
      rewrite cbe_encode_from_cons.
      change (cbe_encode_event enc_init (EVersion 0)) with (Some (enc_init, uleb_encode 0)). cbv beta iota.
      rewrite cbe_encode_from_app. destruct (EB enc_init eq_refl) as (st' & E & I). rewrite E.
      cbn [cbe_encode_from]. unfold cbe_encode_event. unfold idle in I. rewrite I. cbn [opt_map snd].
      rewrite !app_nil_r. reflexivity. }
    rewrite Hdoc in Henc. assert (Ed : doc = cbeSignatureByte :: uleb_encode 0 ++ B) by congruence. subst doc.
    unfold fits in *. repeat (rewrite len_app in Hlen || rewrite len_cons in Hlen).
    unfold cbe_decode, document. rewrite read_u8_ok by lia.
    replace (negb (cbeSignatureByte =? cbeSignatureByte)) with false by reflexivity.
    rewrite read_uleb_ok by (unfold max_u64, two64; lia).
    change (0 =? 1) with false. cbn [snd]. rewrite D; [reflexivity | lia | unfold fits; lia].
  - unfold den, document. cbn [den_go].
    change (EBeginDoc :: EVersion 0 :: nbody ++ [EEndDoc]) with (EBeginDoc :: EVersion 0 :: nbody ++ [EEndDoc]).
    rewrite D1, D2. cbn [den_go no_comments filter is_comment negb app].
    fold (no_comments (db ++ [DEndDoc])). rewrite no_comments_app. reflexivity.
Qed.

End C01.

(* ------------------------------------------------------------------ *)
(** * 7. A decision procedure for the fragment, computing the decoder's report *)

Definition c01_simpleb (e : event) : bool :=
  simple_okb e &&
  match e with
  | EBigFloat (Some (BFin _ m _ _)) => N.odd m
  | EArray t n _ => n * element_bits t <? two64
  | _ => true
  end.

Lemma c01_simpleb_sound e : c01_simpleb e = true -> c01_simple e.
Proof.
  unfold c01_simpleb, c01_simple. intro H. apply andb_true_iff in H as [H1 H2].
  split; [apply simple_okb_sound; exact H1|].
  destruct e; try exact I.
  - destruct v as [[? ? ? ?|?]|]; [exact H2 | exact I | exact I].
  - apply N.ltb_lt. exact H2.
Qed.

Fixpoint data_okb (R : N) (ds : list bytes) : bool :=
  match ds with
  | [] => R =? 0
  | d :: r => negb (R =? 0) && (len d <=? R) && data_okb (R - len d) r
  end.

Lemma data_okb_sound ds : forall R, data_okb R ds = true -> data_ok R ds.
Proof.
  induction ds as [|d r IH]; intros R H; cbn [data_okb data_ok] in *.
  - apply N.eqb_eq. exact H.
  - apply andb_true_iff in H as [H H3]. apply andb_true_iff in H as [H1 H2].
    apply negb_true_iff, N.eqb_neq in H1. apply N.leb_le in H2. auto.
Qed.

Fixpoint c01_chunksb (w : N) (cs : list rchunk) : bool :=
  match cs with
  | [] => false
  | (n, more, ds) :: r =>
      (n <? two63) && (n * w <? two64) && data_okb (elem_bytes w n) ds && forallb bytes_wfb ds &&
      (if more then c01_chunksb w r else match r with [] => true | _ => false end)
  end.

Lemma forallb_wfb ds : forallb bytes_wfb ds = true -> Forall bytes_wf ds.
Proof.
  rewrite forallb_forall, Forall_forall. intros H d Hd. apply bytes_wfb_wf. apply H. exact Hd.
Qed.

Lemma c01_chunksb_sound w cs : c01_chunksb w cs = true -> c01_chunks w cs.
Proof.
  induction cs as [|[[n more] ds] r IH]; [discriminate|]. cbn [c01_chunksb]. intro H.
  apply andb_true_iff in H as [H H5]. apply andb_true_iff in H as [H H4]. apply andb_true_iff in H as [H H3].
  apply andb_true_iff in H as [H1 H2]. apply N.ltb_lt in H1, H2. apply data_okb_sound in H3. apply forallb_wfb in H4.
  destruct more.
  - apply cc_more; try assumption. apply IH. exact H5.
  - destruct r; [|discriminate]. apply cc_last; assumption.
Qed.

Fixpoint c01_norm (fuel : nat) (es : list event) : option (list event) :=
  match fuel with
  | O => None
  | S f =>
      match es with
      | [] => Some []
      | EArrayBegin t :: r =>
          match take_chunks (S (length r)) r with
          | Some (cs, r') =>
              if arr_ok t && c01_chunksb (element_bits t) cs
              then opt_map (app (array_norm t (map merge cs))) (c01_norm f r') else None
          | None => None
          end
      | EMediaBegin mt :: r =>
          match take_chunks (S (length r)) r with
          | Some (cs, r') =>
              if bytes_wfb mt && (len mt <=? media_type_max_length) && c01_chunksb 8 cs
              then opt_map (app (EMediaBegin mt :: chunk_events (map merge cs))) (c01_norm f r') else None
          | None => None
          end
      | ECustomBegin t ct :: r =>
          match take_chunks (S (length r)) r with
          | Some (cs, r') =>
              if (t =? cbeAT_CustomBinary) && (ct <=? custom_type_max) && c01_chunksb 8 cs
              then opt_map (app (ECustomBegin cbeAT_CustomBinary ct :: chunk_events (map merge cs))) (c01_norm f r')
              else None
          | None => None
          end
      | e :: r => if c01_simpleb e then opt_map (app (norm_event e)) (c01_norm f r) else None
      end
  end.

Lemma c01_norm_sound fuel : forall es n, c01_norm fuel es = Some n -> c01_body es n.
Proof.
  induction fuel as [|f IH]; intros es n H; [discriminate|].
  destruct es as [|e r]; [injection H as <-; apply cb_nil|].
  assert (Simple : (if c01_simpleb e then opt_map (app (norm_event e)) (c01_norm f r) else None) = Some n ->
                   c01_body (e :: r) n).
  { intro S. destruct (c01_simpleb e) eqn:Eb; [|discriminate].
    destruct (c01_norm f r) as [rn|] eqn:Er; [|discriminate]. injection S as <-.
    apply (cb_app [e] (norm_event e) r rn); [apply cu_simple; apply c01_simpleb_sound; exact Eb | apply IH; exact Er]. }
  destruct e; try (apply Simple; exact H); cbn [c01_norm] in H.
  - destruct (take_chunks (S (length r)) r) as [[cs r']|] eqn:E; [|discriminate].
    destruct (take_chunks_spec _ _ _ _ E) as [E1 _].
    destruct (arr_ok t && c01_chunksb (element_bits t) cs) eqn:C; [|discriminate].
    apply andb_true_iff in C as [C1 C2].
    destruct (c01_norm f r') as [rn|] eqn:Er; [|discriminate]. injection H as <-. rewrite E1.
    apply (cb_app (EArrayBegin t :: raw_chunk_events cs) _ r' rn); [|apply IH; exact Er].
    apply cu_array; [exact C1 | apply c01_chunksb_sound; exact C2].
  - destruct (take_chunks (S (length r)) r) as [[cs r']|] eqn:E; [|discriminate].
    destruct (take_chunks_spec _ _ _ _ E) as [E1 _].
    destruct (bytes_wfb mediatype && (len mediatype <=? media_type_max_length) && c01_chunksb 8 cs) eqn:C; [|discriminate].
    apply andb_true_iff in C as [C C3]. apply andb_true_iff in C as [C1 C2].
    destruct (c01_norm f r') as [rn|] eqn:Er; [|discriminate]. injection H as <-. rewrite E1.
    apply (cb_app (EMediaBegin mediatype :: raw_chunk_events cs) (EMediaBegin mediatype :: chunk_events (map merge cs)) r' rn);
      [|apply IH; exact Er].
    apply cu_media; [apply bytes_wfb_wf; exact C1 | apply N.leb_le; exact C2 | apply c01_chunksb_sound; exact C3].
  - destruct (take_chunks (S (length r)) r) as [[cs r']|] eqn:E; [|discriminate].
    destruct (take_chunks_spec _ _ _ _ E) as [E1 _].
    destruct ((t =? cbeAT_CustomBinary) && (ct <=? custom_type_max) && c01_chunksb 8 cs) eqn:C; [|discriminate].
    apply andb_true_iff in C as [C C3]. apply andb_true_iff in C as [C1 C2]. apply N.eqb_eq in C1. subst t.
    destruct (c01_norm f r') as [rn|] eqn:Er; [|discriminate]. injection H as <-. rewrite E1.
    apply (cb_app (ECustomBegin cbeAT_CustomBinary ct :: raw_chunk_events cs)
                  (ECustomBegin cbeAT_CustomBinary ct :: chunk_events (map merge cs)) r' rn); [|apply IH; exact Er].
    apply cu_custom; [apply N.leb_le; exact C2 | apply c01_chunksb_sound; exact C3].
Qed.

(* a whole document of version 0: what the decoder reports for its encoding *)
Definition c01_doc_norm (es : list event) : option (list event) :=
  match doc_body es with
  | Some (v, body) => if v =? 0 then opt_map (document 0) (c01_norm (S (length body)) body) else None
  | None => None
  end.

Theorem c01_den_roundtrip_checked cfg es es' doc :
  c01_doc_norm es = Some es' -> cbe_encode es = Some doc -> len doc <= max_doc_size cfg ->
  cbe_decode cfg doc = (es', DOk) /\ den es' = no_comments (den es).
Proof.
  unfold c01_doc_norm. intros H Henc Hlen. destruct (doc_body es) as [[v body]|] eqn:E; [|discriminate].
  apply doc_body_spec in E. destruct (N.eqb_spec v 0) as [V|V]; [|discriminate]. subst v es.
  destruct (c01_norm (S (length body)) body) as [n|] eqn:En; [|discriminate]. injection H as <-.
  apply c01_norm_sound in En. apply (c01_den_roundtrip cfg body n doc En Henc Hlen).
Qed.

(* correspondence case: a stream and whether the harness expects it to lie in the fragment *)
Definition c01_frag_case := (list event * bool)%type.
Definition c01_frag_case_ok (c : c01_frag_case) : bool :=
  Bool.eqb (match c01_doc_norm (fst c) with Some _ => true | None => false end) (snd c).

(* ------------------------------------------------------------------ *)
(** * 8. The unrestricted statement, and what CBE does not preserve *)

(* every document the encoder accepts decodes to a stream with the same data *)
Definition den_roundtrip_full : Prop :=
  forall es doc, cbe_encode es = Some doc ->
    exists es', cbe_decode default_dcfg doc = (es', DOk) /\ den es' = no_comments (den es).

(* an apd exponent of MinInt32 is written as a field the decoder rejects (see also C22) *)
Lemma bigdecimal_expmin_not_decodable :
  cbe_encode bigdecimal_expmin_doc = Some [129; 0; 118; 130; 128; 128; 128; 224; 255; 255; 255; 255; 1; 7] /\
  snd (cbe_decode default_dcfg [129; 0; 118; 130; 128; 128; 128; 224; 255; 255; 255; 255; 1; 7]) = DErr.
Proof. exact reencode_bigdecimal_expmin. Qed.

Theorem den_roundtrip_full_refuted : ~ den_roundtrip_full.
Proof.
  intro H. destruct bigdecimal_expmin_not_decodable as (E1 & E2).
  destruct (H _ _ E1) as (es' & D1 & _). rewrite D1 in E2. discriminate.
Qed.

(* custom text through the chunked API is refused like custom text in one event *)
Definition chunked_custom_text_doc : list event :=
  [EBeginDoc; EVersion 0; ECustomBegin cbeAT_CustomText 3; EArrayChunk 2 false; EArrayData [97; 98]; EEndDoc].

Lemma chunked_custom_text_refused : cbe_encode chunked_custom_text_doc = None.
Proof. reflexivity. Qed.

(* custom text in one event is refused by the encoder altogether *)
Lemma whole_custom_text_refused :
  cbe_encode [EBeginDoc; EVersion 0; ECustomText 3 [97; 98]; EEndDoc] = None.
Proof. reflexivity. Qed.


(* ------------------------------------------------------------------ *)
(** * 9. Example (non-vacuity) *)

Definition c01_example : list event :=
  [EBeginDoc; EVersion 0; EMap;
   EStringArray cbeAT_String [107]; EList;
     EPosInt 281474976710656; ENegInt 0; EInt (-100); EBigInt (Some 340282366920938463463374607431768211456%Z);
     EFloat 0x8000000000000000; EFloat 0x7ff4000000000001; EFloat 0x3ff199999999999a; EFloat 0x3f80000000000000;
     ENan true; EDecimal (DFin true 15 (-1)); EBigDecimal (Some (DFin false 0 7)); EBigFloat (Some (BInf true)); EBigFloat (Some (BFin true 3 (-1) 53));
     EComment true [99];
     EArrayBegin cbeAT_String; EArrayChunk 2 true; EArrayData [195]; EArrayData [169]; EArrayChunk 1 false; EArrayData [97];
     EArrayBegin cbeAT_Uint16; EArrayChunk 2 false; EArrayData [1; 0; 2]; EArrayData []; EArrayData [0];
     EArray cbeAT_Bit 10 [255; 3]; EArray cbeAT_Uint8 20 [1;2;3;4;5;6;7;8;9;10;11;12;13;14;15;16;17;18;19;20];
     EUid [1;2;3;4;5;6;7;8;9;10;11;12;13;14;15;16];
     EMarker [109]; EList; EEnd; ERefLocal [109]; ENull; EBool false; EPadding;
     EMedia [97; 47; 98] [1; 2; 3]; ECustomBin 300 [9];
     EMediaBegin [116; 47; 120]; EArrayChunk 0 true; EArrayChunk 2 false; EArrayData [5; 6];
   EEnd;
   EStringArray cbeAT_String [114]; EEdge; ETrue; ENull; EFalse; EEnd; EInt 7; ENode; ENull; EEnd;
   EEnd; EEndDoc].

Example c01_example_covered :
  exists es', c01_doc_norm c01_example = Some es' /\ events_eqb es' c01_example = false /\
              (50 < length es')%nat.
Proof. eexists. split; [vm_compute; reflexivity|]. split; [vm_compute; reflexivity | cbn; lia]. Qed.

Example c01_example_roundtrip :
  match cbe_encode c01_example with
  | Some doc => list_eqb dev_eqb (den (fst (cbe_decode default_dcfg doc))) (no_comments (den c01_example)) &&
                (60 <? len doc)
  | None => false
  end = true.
Proof. vm_compute. reflexivity. Qed.

(* ------------------------------------------------------------------ *)
(** * 10. The decoded stream and the rules validator *)

From CE Require Model.Rules Proofs.RulesInvariants Proofs.RulesKeys Proofs.RulesArrayProofs Proofs.RulesChunks.

Module RulesPart.
Import Rules RulesInvariants RulesKeys.

(* ---- a keyable object's key reaches the rules only through norm_key ---- *)

Lemma notify_key_norm k1 k2 c : norm_key k1 = norm_key k2 -> notify_key k1 c = notify_key k2 c.
Proof. intro H. unfold notify_key. rewrite H. reflexivity. Qed.

Section KeySim.
  Variable cfg : rcfg.
  Variables (dt : N) (k1 k2 : rawkey).
  Hypothesis Hk : norm_key k1 = norm_key k2.

  Lemma exec_prim_key call self m p c :
    (forall r m' c', call r m' (key_args dt k1) c' = call r m' (key_args dt k2) c') ->
    exec_prim cfg call self m (key_args dt k1) p c = exec_prim cfg call self m (key_args dt k2) p c.
  Proof.
    intro HC. destruct p; try reflexivity; cbn [exec_prim key_args a_key];
      try (apply notify_key_norm; exact Hk); try apply HC;
      try (destruct (stack c); [reflexivity | apply HC]);
      try (match goal with d : dtsrc |- _ => destruct d; reflexivity end).
  Qed.

  Lemma exec_prims_key call self m ps : forall c,
    (forall r m' c', call r m' (key_args dt k1) c' = call r m' (key_args dt k2) c') ->
    exec_prims cfg call self m (key_args dt k1) ps c = exec_prims cfg call self m (key_args dt k2) ps c.
  Proof.
    induction ps as [|p ps IH]; intros c HC; cbn [exec_prims]; [reflexivity|].
    rewrite (exec_prim_key call self m p c HC).
    destruct (exec_prim cfg call self m (key_args dt k2) p c); [apply IH; exact HC | reflexivity].
  Qed.

  Lemma call_rule_key fuel : forall r m c,
    call_rule fuel cfg r m (key_args dt k1) c = call_rule fuel cfg r m (key_args dt k2) c.
  Proof.
    induction fuel as [|f IH]; intros r m c; cbn [call_rule]; [reflexivity|].
    apply exec_prims_key. exact IH.
  Qed.
End KeySim.

(* what a step does to the context *)
Definition step_ctx (cfg : rcfg) (c : rctx) (e : event) : option rctx :=
  match rstep cfg c e with Some (c', _) => Some c' | None => None end.

Lemma steps_cons cfg c e r :
  steps cfg c (e :: r) = match step_ctx cfg c e with Some c1 => steps cfg c1 r | None => None end.
Proof. unfold step_ctx. cbn [steps]. destruct (rstep cfg c e) as [[c1 o]|]; reflexivity. Qed.

Lemma step_ctx_plan cfg c e :
  step_ctx cfg c e = match ev_plan cfg e with Some pl => plan_step cfg pl c | None => None end.
Proof.
  unfold step_ctx. rewrite rstep_plan. destruct (ev_plan cfg e) as [pl|]; [|reflexivity].
  destruct (plan_step cfg pl c); reflexivity.
Qed.

(* two events whose plans agree up to the forwarded event move the context alike *)
Definition plan_same (a b : option plan) : Prop :=
  match a, b with
  | Some p, Some q => p_nno p = p_nno q /\ p_meth p = p_meth q /\ p_args p = p_args q
  | None, None => True
  | _, _ => False
  end.

Lemma plan_same_step cfg e1 e2 c :
  plan_same (ev_plan cfg e1) (ev_plan cfg e2) -> step_ctx cfg c e1 = step_ctx cfg c e2.
Proof.
  rewrite !step_ctx_plan. destruct (ev_plan cfg e1) as [p|], (ev_plan cfg e2) as [q|]; cbn [plan_same]; try tauto.
  intros (H1 & H2 & H3). unfold plan_step. rewrite H1, H2, H3. reflexivity.
Qed.

Lemma keyable_step cfg dt k1 k2 e1 e2 c :
  norm_key k1 = norm_key k2 ->
  ev_plan cfg e1 = mkplan (Some true) MKeyableObject (key_args dt k1) e1 ->
  ev_plan cfg e2 = mkplan (Some true) MKeyableObject (key_args dt k2) e2 ->
  step_ctx cfg c e1 = step_ctx cfg c e2.
Proof.
  intros Hk P1 P2. rewrite !step_ctx_plan, P1, P2. unfold mkplan, plan_step. cbn [p_nno p_meth p_args].
  destruct (notify_new_object cfg true c) as [c1|]; [|reflexivity].
  unfold call_current. apply call_rule_key. exact Hk.
Qed.

(* ---- integers ---- *)

Definition int_key (e : event) : option rawkey :=
  match e with
  | EPosInt n => Some (RkUint64 n)
  | ENegInt n => Some (RkNegint n)
  | EInt z => Some (RkInt64 z)
  | EBigInt (Some z) => Some (RkBigInt z)
  | _ => None
  end.

Lemma int_key_plan cfg e k : int_key e = Some k -> ev_plan cfg e = mkplan (Some true) MKeyableObject (key_args DT_Int k) e.
Proof. destruct e; try discriminate; cbn [int_key]; try (intro H; injection H as <-; reflexivity). destruct v; [|discriminate]. intro H; injection H as <-. reflexivity. Qed.

Lemma norm_signed_key neg m :
  m < Uleb.two64 \/ True ->
  exists k, int_key (norm_signed neg m) = Some k /\ rawkey_wf k /\
            key_den k = (if neg && (m =? 0) then KdNegZero else KdInt (signed_z neg m)).
Proof.
  intros _. unfold norm_signed.
  destruct ((m <=? 100) && negb (neg && (m =? 0))) eqn:C.
  - apply andb_true_iff in C as [C1 C2]. apply N.leb_le in C1. apply negb_true_iff in C2. rewrite C2.
    exists (RkInt64 (signed_z neg m)). split; [reflexivity|]. split; [|reflexivity].
    unfold rawkey_wf, signed_z, Rules.two63. destruct neg; lia.
  - destruct (N.ltb_spec m Uleb.two64) as [L|L].
    + destruct neg.
      * exists (RkNegint m). split; [reflexivity|]. split; [exact L|]. cbn [key_den andb signed_z].
        destruct (m =? 0); reflexivity.
      * exists (RkUint64 m). split; [reflexivity|]. split; [exact L|]. reflexivity.
    + exists (RkBigInt (signed_z neg m)). split; [reflexivity|]. split; [exact I|].
      replace (m =? 0) with false by (symmetry; apply N.eqb_neq; unfold Uleb.two64 in L; lia).
      rewrite andb_false_r. reflexivity.
Qed.

Lemma int_event_key e neg m :
  int_event_value e = Some (neg, m) ->
  exists k, int_key e = Some k /\ rawkey_wf k /\
            key_den k = (if neg && (m =? 0) then KdNegZero else KdInt (signed_z neg m)).
Proof.
  destruct e; cbn [int_event_value]; try discriminate.
  - destruct (N.ltb_spec n Uleb.two64) as [L|L]; [|discriminate]. intro H. injection H as <- <-.
    exists (RkUint64 n). split; [reflexivity|]. split; [exact L | reflexivity].
  - destruct (N.ltb_spec n Uleb.two64) as [L|L]; [|discriminate]. intro H. injection H as <- <-.
    exists (RkNegint n). split; [reflexivity|]. split; [exact L|]. cbn [key_den andb signed_z]. destruct (n =? 0); reflexivity.
  - destruct (is_i64 z) eqn:L; [|discriminate]. intro H. injection H as <- <-.
    unfold is_i64 in L. apply andb_true_iff in L as [L1 L2]. apply Z.leb_le in L1. apply Z.ltb_lt in L2.
    exists (RkInt64 z). split; [reflexivity|]. split; [unfold rawkey_wf, Rules.two63; lia|].
    cbn [key_den]. unfold signed_z. destruct (Z.ltb_spec z 0) as [N|N]; cbn [andb].
    + replace (Z.abs_N z =? 0) with false by (symmetry; apply N.eqb_neq; lia). f_equal. lia.
    + f_equal. lia.
  - destruct v as [z|]; [|discriminate]. intro H. injection H as <- <-.
    exists (RkBigInt z). split; [reflexivity|]. split; [exact I|]. cbn [key_den]. unfold signed_z. destruct (Z.ltb_spec z 0) as [N|N]; cbn [andb].
    + replace (Z.abs_N z =? 0) with false by (symmetry; apply N.eqb_neq; lia). f_equal. lia.
    + f_equal. lia.
Qed.

Lemma int_step cfg c e neg m :
  int_event_value e = Some (neg, m) -> step_ctx cfg c e = step_ctx cfg c (norm_signed neg m).
Proof.
  intro H. destruct (int_event_key e neg m H) as (k1 & K1 & W1 & D1).
  destruct (norm_signed_key neg m (or_intror I)) as (k2 & K2 & W2 & D2).
  apply (keyable_step cfg DT_Int k1 k2).
  - apply (proj2 (norm_key_sound_complete k1 k2 W1 W2)). rewrite D1, D2. reflexivity.
  - apply int_key_plan. exact K1.
  - apply int_key_plan. exact K2.
Qed.

(* ---- streams ---- *)

(* every context the validator reaches on [u] it also reaches on [n] *)
Definition rules_sim (cfg : rcfg) (u n : list event) : Prop :=
  forall c c', steps cfg c u = Some c' -> steps cfg c n = Some c'.

Lemma rules_sim_refl cfg u : rules_sim cfg u u.
Proof. intros c c' H. exact H. Qed.

Lemma rules_sim_app cfg u n r rn : rules_sim cfg u n -> rules_sim cfg r rn -> rules_sim cfg (u ++ r) (n ++ rn).
Proof.
  intros H1 H2 c c'. rewrite !steps_app. destruct (steps cfg c u) as [c1|] eqn:E; [|discriminate].
  rewrite (H1 c c1 E). apply H2.
Qed.

Lemma rules_sim_one cfg e n : (forall c, step_ctx cfg c e = step_ctx cfg c n) -> rules_sim cfg [e] [n].
Proof. intros H c c'. rewrite !steps_cons, H. trivial. Qed.

Lemma rules_sim_plan cfg e n : plan_same (ev_plan cfg e) (ev_plan cfg n) -> rules_sim cfg [e] [n].
Proof. intro H. apply rules_sim_one. intro c. apply plan_same_step. exact H. Qed.

(* a comment, when it is accepted, leaves the context as it is *)
Lemma comment_sim cfg m t : rules_sim cfg [EComment m t] [].
Proof.
  intros c c'. rewrite steps_cons, step_ctx_plan. cbn [ev_plan mkplan plan_step p_nno p_meth p_args steps].
  unfold call_current, call_fuel. cbn [call_rule].
  destruct (e_rule (cur c)); cbn [dispatch exec_prims exec_prim]; intro H; try discriminate; exact H.
Qed.

(* single events whose decoder form the validator treats exactly like the original:
   everything covered except zeros written as floats or decimals (they come back as integers,
   which are keyable), whole arrays in the regular form, string-like events, media and custom
   events (they come back through the chunked API, resp. as OnArray) *)
Definition rules_stable (e : event) : Prop :=
  match e with
  | EFloat b => FloatBits.f64_is_zero b = false
  | EDecimal (DFin _ c _) | EBigDecimal (Some (DFin _ c _)) => c <> 0
  | EArray t n _ => is_short t n = true
  | EStringArray _ _ | EMedia _ _ | ECustomBin _ _ => False
  | _ => True
  end.

Lemma inf_not_nan b : FloatBits.f64_is_inf b = true -> Events.f64_is_nan b = false.
Proof.
  rewrite ev_f64_is_nan. unfold FloatBits.f64_is_inf, FloatBits.f64_is_nan. intro H.
  apply andb_true_iff in H as [-> H]. rewrite H. reflexivity.
Qed.

Lemma simple_rules_sim cfg e : c01_simple e -> rules_stable e -> rules_sim cfg [e] (norm_event e).
Proof.
  intros [Hs Hx] Hst. destruct e; cbn [simple_ok] in Hs; try contradiction; cbn [norm_event rules_stable] in *;
    try apply rules_sim_refl.
  - apply comment_sim.
  - destruct b; apply rules_sim_plan; cbn; auto.
  - apply rules_sim_one. intro c. apply int_step. cbn [int_event_value]. apply N.ltb_lt in Hs. rewrite Hs. reflexivity.
  - apply rules_sim_one. intro c. apply int_step. cbn [int_event_value]. apply N.ltb_lt in Hs. rewrite Hs. reflexivity.
  - apply rules_sim_one. intro c. apply int_step. cbn [int_event_value]. rewrite Hs. reflexivity.
  - destruct v as [z|].
    + apply rules_sim_one. intro c. apply int_step. reflexivity.
    + apply rules_sim_plan. cbn. auto.
  - (* EFloat *) unfold norm_float. destruct (FloatBits.f64_is_inf bits) eqn:Hinf.
    + apply rules_sim_plan. cbn [ev_plan]. rewrite (inf_not_nan bits Hinf). cbn. auto.
    + destruct (FloatBits.f64_is_nan bits) eqn:Hnan.
      * apply rules_sim_plan. cbn [ev_plan]. rewrite ev_f64_is_nan, Hnan.
        destruct (negb (FloatBits.f64_quiet_bit bits)); cbn; auto.
      * rewrite Hst. apply rules_sim_refl.
  - (* EBigFloat *) destruct v as [[neg mant exp prec|neg]|]; [| apply rules_sim_plan; cbn; auto | apply rules_sim_plan; cbn; auto].
    destruct (Cbe.bigfloat_to_f64 neg mant exp) as [b|] eqn:Hb; [|contradiction].
    destruct (bigfloat_den_exact neg mant exp prec b Hx Hb) as (_ & B64 & Bo).
    apply f64_ordinary_split in Bo as (O1 & O2 & O3). unfold norm_float. rewrite O1, O2, O3.
    apply rules_sim_plan. cbn [ev_plan]. rewrite ev_f64_is_nan, O2. cbn. auto.
  - (* EDecimal *) destruct d as [neg c e|neg| |]; cbn [norm_decimal]; try apply rules_sim_refl.
    replace (c =? 0) with false by (symmetry; apply N.eqb_neq; exact Hst). unfold norm_decimal_fin.
    destruct (Cbe.two63 <=? c); [apply rules_sim_plan; cbn; auto | apply rules_sim_refl].
  - (* EBigDecimal *) destruct v as [[neg c e|neg| |]|]; cbn [norm_decimal].
    + replace (c =? 0) with false by (symmetry; apply N.eqb_neq; exact Hst). unfold norm_decimal_fin.
      destruct (Cbe.two63 <=? c); [apply rules_sim_refl | apply rules_sim_plan; cbn; auto].
    + apply rules_sim_plan; cbn; auto.
    + apply rules_sim_plan; cbn; auto.
    + apply rules_sim_plan; cbn; auto.
    + apply rules_sim_plan; cbn; auto.
  - (* ENan *) destruct signaling; apply rules_sim_plan; cbn; auto.
  - (* EArray *) unfold whole_chunks, array_norm. rewrite Hst. apply rules_sim_refl.
Qed.

(* chunk lists in the form the decoder reports them: at most one, non-empty, data event per chunk *)
Definition chunk_normal (c : rchunk) : Prop :=
  match snd c with [] => True | [d] => len d <> 0 | _ => False end.

Lemma unmerge_merge_normal cs : Forall chunk_normal cs -> map unmerge (map merge cs) = cs.
Proof.
  induction 1 as [|[[n more] ds] r H _ IH]; [reflexivity|]. cbn [map merge unmerge]. rewrite IH. f_equal.
  unfold chunk_normal in H. cbn [snd] in H. destruct ds as [|d [|d' ds']]; try contradiction; cbn [concat].
  - reflexivity.
  - rewrite app_nil_r. replace (len d =? 0) with false by (symmetry; apply N.eqb_neq; exact H). reflexivity.
Qed.

Definition not_single_short (t : N) (cs : list rchunk) : Prop :=
  match cs with [(n, false, _)] => is_short t n = false | _ => True end.

Lemma array_norm_normal t cs :
  Forall chunk_normal cs -> not_single_short t cs ->
  array_norm t (map merge cs) = EArrayBegin t :: raw_chunk_events cs.
Proof.
  intros Hn Hs.
  assert (G : EArrayBegin t :: chunk_events (map merge cs) = EArrayBegin t :: raw_chunk_events cs)
    by (rewrite chunk_events_raw, (unmerge_merge_normal cs Hn); reflexivity).
  destruct cs as [|[[n more] ds] r]; [exact G|]. destruct more; [exact G|]. destruct r; [|exact G].
  cbn [not_single_short] in Hs. cbn [map merge array_norm]. rewrite Hs. exact G.
Qed.

(* ---- arrays through the chunked API: the validator's run is the chunk-wise fold of RulesArrayProofs ---- *)

Definition arule (sr : bool) : rule := if sr then RString else RArray.
Definition crule (sr : bool) : rule := if sr then RStringChunk else RArrayChunk.
Notation call5 cfg := (call_rule 5 cfg).

Lemma step_chunk cfg sr c n more :
  e_rule (cur c) = arule sr ->
  step_ctx cfg c (EArrayChunk n more) = rule_chunk cfg (call5 cfg) sr n more c.
Proof.
  intro R. rewrite step_ctx_plan. cbn [ev_plan mkplan plan_step p_nno p_meth p_args].
  unfold call_current, call_fuel. rewrite R. destruct sr; cbn [arule call_rule dispatch exec_prims exec_prim a_count a_more];
    match goal with |- context [rule_chunk ?a ?b ?s ?x ?y ?z] => destruct (rule_chunk a b s x y z) end; reflexivity.
Qed.

Lemma step_data cfg sr c d :
  e_rule (cur c) = crule sr ->
  step_ctx cfg c (EArrayData d) = chunk_data (call5 cfg) sr d c.
Proof.
  intro R. rewrite step_ctx_plan. cbn [ev_plan mkplan plan_step p_nno p_meth p_args].
  unfold call_current, call_fuel. rewrite R. destruct sr; cbn [crule call_rule dispatch exec_prims exec_prim array_args a_data];
    match goal with |- context [chunk_data ?b ?s ?x ?z] => destruct (chunk_data b s x z) end; reflexivity.
Qed.

Module RA := RulesArrayProofs.

(* data events that fill the chunk exactly at the last one: the run is chunk_fold *)
Lemma steps_data cfg sr ds : forall c tl,
  e_rule (cur c) = crule sr -> ds <> [] ->
  RA.completes_from (chunk_expected c) (chunk_actual c) ds ->
  steps cfg c (map EArrayData ds ++ tl) =
  match RA.chunk_fold (call5 cfg) sr ds c with Some c' => steps cfg c' tl | None => None end.
Proof.
  induction ds as [|d r IH]; intros c tl R NE C; [congruence|]. clear NE.
  cbn [map app RA.chunk_fold]. rewrite steps_cons, (step_data cfg sr c d R).
  destruct (RA.completes_from_cons _ _ _ _ C) as [[-> _] | [NE [L C']]].
  - cbn [map app RA.chunk_fold]. destruct (chunk_data (call5 cfg) sr d c); reflexivity.
  - rewrite RA.chunk_data_factor.
    destruct (RA.adata_step sr d (RA.adata_of c)) as [a1|] eqn:S; [|reflexivity].
    destruct (RA.adata_step_acct _ _ _ _ S) as [A1 [A2 _]]. cbn in A1, A2.
    assert (Q : RA.adata_complete a1 = false).
    { unfold RA.adata_complete. apply N.eqb_neq. rewrite A1, A2. lia. }
    rewrite Q. apply IH; [exact R | exact NE|].
    change (chunk_expected (RA.adata_put c a1)) with (RA.ad_expected a1).
    change (chunk_actual (RA.adata_put c a1)) with (RA.ad_actual a1).
    rewrite A1, A2. exact C'.
Qed.

(* one chunk: its chunk event and its data events *)
Lemma steps_chunk cfg sr c n more ds tl :
  e_rule (cur c) = arule sr ->
  RA.chunk_shape sr (arr_type c) (n, more, ds) ->
  steps cfg c (EArrayChunk n more :: map EArrayData ds ++ tl) =
  match RA.chunk_whole cfg (call5 cfg) sr (n, more, ds) c with Some c' => steps cfg c' tl | None => None end.
Proof.
  intros R Sh. rewrite steps_cons, (step_chunk cfg sr c n more R).
  unfold RA.chunk_whole, RA.ch_len, RA.ch_more, RA.ch_ds. cbn [fst snd].
  unfold RA.chunk_shape, RA.ch_len, RA.ch_ds in Sh. cbn [fst snd] in Sh.
  destruct (N.eqb_spec n 0) as [E|E].
  - subst ds. cbn [map app RA.chunk_fold]. destruct (rule_chunk cfg (call5 cfg) sr n more c); reflexivity.
  - destruct Sh as (ex & Hb & Hex & C).
    destruct (rule_chunk cfg (call5 cfg) sr n more c) as [c1|] eqn:RC; [|reflexivity].
    unfold rule_chunk in RC. replace (n =? 0) with false in RC by (symmetry; apply N.eqb_neq; exact E).
    assert (Hb' : (if sr then Some n
                   else match array_bits (arr_type c) with
                        | Some bits => Some (elem_byte_count bits n) | None => None end) = Some ex) by exact Hb.
    rewrite Hb' in RC. cbv zeta in RC.
    destruct ((max_array_size_bytes cfg <? (arr_total c + ex) mod two64) && (0 <? max_array_size_bytes cfg)); [discriminate|].
    injection RC as <-.
    apply steps_data.
    + destruct sr; reflexivity.
    + apply (RA.completes_from_nonempty ex 0); assumption.
    + exact C.
Qed.

Definition arr_inv (sr : bool) (t : N) (c : rctx) : Prop :=
  e_rule (cur c) = arule sr /\ arr_type c = t /\ (sr = true -> utf8_rem c = [] /\ arr_validator c = VUtf8).

Lemma raw_chunk_events_cons n more ds (r : list rchunk) :
  raw_chunk_events ((n, more, ds) :: r) = EArrayChunk n more :: map EArrayData ds ++ raw_chunk_events r.
Proof. reflexivity. Qed.

(* two deliveries of the same chunks (same counts and flags, the same bytes cut differently into data
   events) drive the validator through the same contexts *)
Lemma chunks_sim cfg sr t cs1 cs2 :
  Forall2 RA.chunk_equiv cs1 cs2 ->
  Forall (RA.chunk_shape sr t) cs1 -> Forall (RA.chunk_shape sr t) cs2 ->
  RA.more_flags_ok cs1 = true ->
  forall c tl, arr_inv sr t c -> arr_total c + RA.total_bytes sr t cs1 < two64 ->
  steps cfg c (raw_chunk_events cs1 ++ tl) = steps cfg c (raw_chunk_events cs2 ++ tl).
Proof.
  induction 1 as [|[[n1 m1] ds1] [[n2 m2] ds2] r1 r2 (E1 & E2 & E3) F IH]; intros S1 S2 Fl c tl Inv Tot; [reflexivity|].
  unfold RA.ch_len, RA.ch_more, RA.ch_ds in E1, E2, E3. cbn [fst snd] in E1, E2, E3. subst n2 m2.
  inversion S1 as [|? ? Sh1 S1']; subst. inversion S2 as [|? ? Sh2 S2']; subst.
  destruct Inv as (R & At & Hs). rewrite <- At in Sh1, Sh2.
  rewrite !raw_chunk_events_cons. cbn [app]. rewrite <- !app_assoc.
  rewrite (steps_chunk cfg sr c n1 m1 ds1 _ R Sh1), (steps_chunk cfg sr c n1 m1 ds2 _ R Sh2).
  cbn [RA.total_bytes] in Tot. unfold RA.ch_bytes, RA.ch_len in Tot. cbn [fst] in Tot.
  destruct (N.eqb_spec n1 0) as [Z|Z].
  - (* empty chunk: no data events on either side *)
    unfold RA.chunk_shape, RA.ch_len, RA.ch_ds in Sh1, Sh2. cbn [fst snd] in Sh1, Sh2.
    replace (n1 =? 0) with true in Sh1, Sh2 by (symmetry; apply N.eqb_eq; exact Z). subst ds1 ds2.
    destruct m1.
    + (* more chunks follow: the context is unchanged *)
      assert (W : RA.chunk_whole cfg (call5 cfg) sr (n1, true, []) c = Some c).
      { unfold RA.chunk_whole, RA.ch_len, RA.ch_more, RA.ch_ds. cbn [fst snd]. unfold rule_chunk, try_end_array.
        replace (n1 =? 0) with true by (symmetry; apply N.eqb_eq; exact Z). reflexivity. }
      rewrite W. cbn [RA.more_flags_ok] in Fl. destruct r1 as [|x r1']; [discriminate|]. cbn [andb] in Fl.
      replace (n1 =? 0) with true in Tot by (symmetry; apply N.eqb_eq; exact Z).
      apply IH; [exact S1' | exact S2' | exact Fl | split; [exact R | split; [exact At | exact Hs]] | lia].
    + cbn [RA.more_flags_ok] in Fl. destruct r1 as [|x r1']; [|discriminate]. inversion F; subst. reflexivity.
  - unfold RA.chunk_shape, RA.ch_len, RA.ch_ds in Sh1, Sh2. cbn [fst snd] in Sh1, Sh2.
    replace (n1 =? 0) with false in Sh1, Sh2 by (symmetry; apply N.eqb_neq; exact Z).
    destruct Sh1 as (ex & Hb & Hex & C1). destruct Sh2 as (ex2 & Hb2 & _ & C2).
    rewrite Hb in Hb2. injection Hb2 as <-.
    replace (n1 =? 0) with false in Tot by (symmetry; apply N.eqb_neq; exact Z).
    rewrite <- At in Tot. rewrite Hb in Tot.
    assert (Tex : arr_total c + ex < two64) by lia.
    rewrite At in Tot.
    rewrite (RA.whole_chunk cfg (call5 cfg) sr c n1 m1 ds1 ex Z Hb Hex Tex Hs C1).
    rewrite (RA.whole_chunk cfg (call5 cfg) sr c n1 m1 ds2 ex Z Hb Hex Tex Hs C2).
    unfold RA.data_ok. rewrite E3.
    destruct (length_ok cfg (arr_total c + ex) && (if sr then Utf8.utf8_valid (concat ds2) else true)); [|reflexivity].
    destruct m1.
    + cbn [RA.more_flags_ok] in Fl. destruct r1 as [|x r1']; [discriminate|]. cbn [andb] in Fl.
      apply IH; [exact S1' | exact S2' | exact Fl | |].
      * unfold RA.chunk_done. split; [|split].
        -- destruct sr; reflexivity.
        -- cbn. exact At.
        -- intro Sr. cbn. exact (Hs Sr).
      * unfold RA.chunk_done. cbn. cbn [RA.total_bytes] in Tot. lia.
    + cbn [RA.more_flags_ok] in Fl. destruct r1 as [|x r1']; [|discriminate]. inversion F; subst. reflexivity.
Qed.

(* ---- the state right after the begin event ---- *)

Definition begin_post (a : args) (c' : rctx) : Prop :=
  arr_inv (is_stringlike_validated (a_arrty a)) (a_arrty a) c' /\ arr_total c' = 0.

Lemma call_rule_begin_inv cfg f r m a c c' :
  call_rule f cfg r m a c = Some c' -> m = MArrayBegin -> begin_post a c'.
Proof.
  apply (call_rule_ind_gen cfg (fun _ m a _ c' => m = MArrayBegin -> begin_post a c')).
  intros call Hcall r0 m0 a0 c0 c0' H ->.
  pose proof RulesChunks.begin_table as T. rewrite forallb_forall in T. specialize (T r0 (all_rules_complete r0)).
  apply orb_true_iff in T as [T|T]; [rewrite exec_prims_reject in H by exact T; discriminate|].
  revert c0 H. induction (dispatch r0 MArrayBegin) as [|p ps IH]; intros c0 H; [discriminate T|].
  cbn [exec_prims] in H. destruct (exec_prim cfg call r0 MArrayBegin a0 p c0) as [c1|] eqn:E; [|discriminate].
  assert (BA : forall c2, begin_array_any (a_arrty a0) c0 = Some c2 -> begin_post a0 c2).
  { intros c2 B. unfold begin_array_any in B. destruct (array_dtype (a_arrty a0)) as [dt|]; [|discriminate].
    unfold begin_post, arr_inv. destruct (is_stringlike_validated (a_arrty a0)); injection B as <-;
      (split; [split; [reflexivity | split; [reflexivity | intro S; try discriminate S; split; reflexivity]] | reflexivity]). }
  destruct ps as [|q ps].
  - cbn [exec_prims] in H. injection H as <-. cbn [RulesChunks.begin_cell_ok] in T.
    destruct p; try discriminate T; cbn [exec_prim] in E.
    { apply BA. exact E. }
    { destruct (assert_array_type (a_arrty a0) Allow_Keyable); [|discriminate]. apply BA. exact E. }
    { match type of T with RulesChunks.is_begin_last (PForwardCurrent ?x) = _ => destruct x; try discriminate T end. eapply Hcall; eauto. }
    { match type of T with RulesChunks.is_begin_last (PForwardParent ?x) = _ => destruct x; try discriminate T end.
      destruct (stack c0); [discriminate|]. eapply Hcall; eauto. }
  - destruct p; try discriminate T. cbn [exec_prim] in E.
    match type of E with (if ?b then _ else _) = _ => destruct b; [|discriminate] end.
    injection E as <-. eapply IH; eauto.
Qed.

Lemma begin_step_inv cfg c e t c1 :
  (e = EArrayBegin t \/ (exists mt, e = EMediaBegin mt /\ t = AT_Media) \/ (exists ct, e = ECustomBegin t ct)) ->
  step_ctx cfg c e = Some c1 ->
  arr_inv (is_stringlike_validated t) t c1 /\ arr_total c1 = 0.
Proof.
  intros He H. rewrite step_ctx_plan in H.
  destruct (ev_plan cfg e) as [pl|] eqn:P; [|discriminate].
  assert (Pm : p_meth pl = MArrayBegin /\ a_arrty (p_args pl) = t).
  { destruct He as [->|[(mt & -> & ->)|(ct & ->)]]; cbn [ev_plan] in P;
      repeat match type of P with (if ?b then _ else _) = Some _ => destruct b; try discriminate P end;
      unfold mkplan in P; injection P as <-; split; reflexivity. }
  destruct Pm as [Pm Pa]. unfold plan_step in H.
  destruct (match p_nno pl with Some real => notify_new_object cfg real c | None => Some c end) as [c0|]; [|discriminate].
  unfold call_current in H. apply call_rule_begin_inv in H; [|exact Pm]. unfold begin_post in H. rewrite Pa in H. exact H.
Qed.

(* ---- from the fragment's vocabulary to that of RulesArrayProofs ---- *)

Lemma blen_len (b : bytes) : blen b = len b.
Proof. reflexivity. Qed.

Lemma data_ok_completesb ds : forall n a,
  a < n -> CbeRoundtrip.data_ok (n - a) ds -> RA.completes_fromb n a ds = true.
Proof.
  induction ds as [|d r IH]; intros n a Ha H; cbn [CbeRoundtrip.data_ok RA.completes_fromb] in *; [lia|].
  destruct H as (_ & Hle & Hr). rewrite blen_len.
  destruct r as [|d' r'].
  - cbn [CbeRoundtrip.data_ok] in Hr. apply andb_true_iff. split; [apply N.ltb_lt; exact Ha | apply N.eqb_eq; lia].
  - assert (Hlt : a + len d < n).
    { cbn [CbeRoundtrip.data_ok] in Hr. destruct Hr as (Hnz & _). lia. }
    apply andb_true_iff. split; [apply N.ltb_lt; exact Hlt|].
    apply IH; [exact Hlt|]. replace (n - (a + len d)) with (n - a - len d) by lia. exact Hr.
Qed.

Lemma data_ok_completes R ds : 0 < R -> CbeRoundtrip.data_ok R ds -> RA.completes_at_last R ds.
Proof.
  intros HR H. apply RA.completes_fromb_sound. apply data_ok_completesb; [exact HR|]. rewrite N.sub_0_r. exact H.
Qed.

Lemma elem_byte_count_eq w n : n * w < Uleb.two64 -> elem_byte_count w n = elem_bytes w n.
Proof.
  intro H. unfold elem_byte_count, elem_bytes, u64. change Rules.two64 with Uleb.two64.
  change 7 with (N.ones 3). rewrite N.land_ones. change (2 ^ 3) with 8.
  destruct ((w =? 1) && negb (n mod 8 =? 0)); [|reflexivity].
  apply N.mod_small. rewrite N.mod_small by exact H. unfold Uleb.two64 in *.
  assert (n * w / 8 <= n * w) by (apply N.div_le_upper_bound; lia). lia.
Qed.

(* an array kind: whether the string rule validates it, its type, its element width *)
Definition rules_width (sr : bool) (t w : N) : Prop :=
  (w = 1 \/ 8 <= w) /\ forall n, n * w < Uleb.two64 -> RA.chunk_bytes sr t n = Some (elem_bytes w n).

Definition width_check (t : N) : bool :=
  if arr_ok t then
    if is_stringlike_validated t then element_bits t =? 8
    else match array_bits t with Some b => b =? element_bits t | None => false end
  else true.

Lemma width_sweep : forallb width_check (nseq 0 256) = true.
Proof. vm_compute. reflexivity. Qed.

Lemma rules_width_arr t : arr_ok t = true -> rules_width (is_stringlike_validated t) t (element_bits t).
Proof.
  intro H. destruct (arr_ok_bits t H) as [_ Hw]. split; [exact Hw|].
  pose proof width_sweep as S. rewrite forallb_forall in S.
  specialize (S t ltac:(apply nseq_In; pose proof (arr_ok_lt t H); cbn; lia)). unfold width_check in S. rewrite H in S.
  intros n Hn. unfold RA.chunk_bytes. destruct (is_stringlike_validated t).
  - apply N.eqb_eq in S. rewrite S in *. rewrite elem_bytes_8; [reflexivity|]. unfold two61, Uleb.two64 in *. lia.
  - destruct (array_bits t) as [b|]; [|discriminate]. apply N.eqb_eq in S. subst b. rewrite elem_byte_count_eq by exact Hn. reflexivity.
Qed.

Lemma rules_width_media : rules_width false AT_Media 8.
Proof.
  split; [right; lia|]. intros n Hn. unfold RA.chunk_bytes. change (array_bits AT_Media) with (Some 8). cbv beta iota.
  rewrite elem_byte_count_eq by exact Hn. reflexivity.
Qed.

Lemma rules_width_custom : rules_width false cbeAT_CustomBinary 8.
Proof.
  split; [right; lia|]. intros n Hn. unfold RA.chunk_bytes. change (array_bits cbeAT_CustomBinary) with (Some 8). cbv beta iota.
  rewrite elem_byte_count_eq by exact Hn. reflexivity.
Qed.

Fixpoint chunks_total (w : N) (cs : list rchunk) : N :=
  match cs with [] => 0 | (n, _, _) :: r => elem_bytes w n + chunks_total w r end.

Lemma elem_bytes_0 w : elem_bytes w 0 = 0.
Proof. unfold elem_bytes, u64. rewrite N.mul_0_l. destruct (w =? 1); reflexivity. Qed.

Lemma elem_bytes_pos w n : (w = 1 \/ 8 <= w) -> n * w < Uleb.two64 -> n <> 0 -> 0 < elem_bytes w n.
Proof.
  intros Hw Hn Hz. rewrite <- (chunk_bytes_eq w n Hn). pose proof (chunk_bytes_nonzero w n Hw Hz). lia.
Qed.

Lemma c01_chunks_shapes sr t w cs :
  rules_width sr t w -> c01_chunks w cs ->
  Forall (RA.chunk_shape sr t) cs /\ RA.more_flags_ok cs = true /\ RA.total_bytes sr t cs = chunks_total w cs.
Proof.
  intros [Hw Hb]. 
  assert (Sh : forall n more ds, n * w < Uleb.two64 -> CbeRoundtrip.data_ok (elem_bytes w n) ds ->
                 RA.chunk_shape sr t (n, more, ds) /\ RA.ch_bytes sr t (n, more, ds) = elem_bytes w n).
  { intros n more ds Hn Hd. unfold RA.chunk_shape, RA.ch_bytes, RA.ch_len, RA.ch_ds. cbn [fst snd].
    destruct (N.eqb_spec n 0) as [Z|Z].
    - subst n. rewrite elem_bytes_0 in *. split; [|reflexivity]. destruct ds; [reflexivity|]. cbn in Hd. destruct Hd as [C _]. contradiction.
    - rewrite (Hb n Hn). split; [|reflexivity]. exists (elem_bytes w n).
      pose proof (elem_bytes_pos w n Hw Hn Z) as P. split; [reflexivity|]. split; [exact P | apply data_ok_completes; assumption]. }
  induction 1 as [n ds Hn Hnw Hd Hwf | n ds r Hn Hnw Hd Hwf Hr (I1 & I2 & I3)].
  - destruct (Sh n false ds Hnw Hd) as [S1 S2]. split; [repeat constructor; exact S1|]. split; [reflexivity|].
    cbn [RA.total_bytes chunks_total]. rewrite S2. reflexivity.
  - destruct (Sh n true ds Hnw Hd) as [S1 S2]. split; [constructor; assumption|]. split.
    + cbn [RA.more_flags_ok]. destruct r; [inversion Hr|]. exact I2.
    + cbn [RA.total_bytes chunks_total]. rewrite S2, I3. reflexivity.
Qed.

Lemma equiv_unmerge cs : Forall2 RA.chunk_equiv cs (map unmerge (map merge cs)).
Proof.
  induction cs as [|[[n more] ds] r IH]; [constructor|]. cbn [map merge unmerge]. constructor; [|exact IH].
  unfold RA.chunk_equiv, RA.ch_len, RA.ch_more, RA.ch_ds. cbn [fst snd]. split; [reflexivity|]. split; [reflexivity|].
  destruct (N.eqb_spec (len (concat ds)) 0) as [E|E]; cbn [concat].
  - apply len_zero in E. exact E.
  - rewrite app_nil_r. reflexivity.
Qed.

(* a chunked array however its data is cut, and the same array with one data event per chunk *)
Lemma split_sim cfg e t w cs :
  (e = EArrayBegin t \/ (exists mt, e = EMediaBegin mt /\ t = AT_Media) \/ (exists ct, e = ECustomBegin t ct)) ->
  rules_width (is_stringlike_validated t) t w -> c01_chunks w cs -> chunks_total w cs < Uleb.two64 ->
  rules_sim cfg (e :: raw_chunk_events cs) (e :: raw_chunk_events (map unmerge (map merge cs))).
Proof.
  intros He Hw Hcs Htot c c'. rewrite !steps_cons.
  destruct (step_ctx cfg c e) as [c1|] eqn:B; [|discriminate].
  destruct (begin_step_inv cfg c e t c1 He B) as [Inv T0].
  destruct (c01_chunks_shapes _ t w cs Hw Hcs) as (S1 & F1 & Tb).
  destruct (c01_chunks_shapes _ t w _ Hw (c01_chunks_unmerge w cs Hcs)) as (S2 & _ & _).
  pose proof (chunks_sim cfg _ t cs _ (equiv_unmerge cs) S1 S2 F1 c1 [] Inv) as E.
  rewrite !app_nil_r in E. rewrite <- E; [trivial|]. rewrite T0, Tb. exact Htot.
Qed.

Lemma array_norm_long t cs :
  not_single_short t cs -> array_norm t (map merge cs) = EArrayBegin t :: chunk_events (map merge cs).
Proof.
  intro Hs. destruct cs as [|[[n more] ds] r]; [reflexivity|]. destruct more; [reflexivity|]. destruct r; [|reflexivity].
  cbn [not_single_short] in Hs. cbn [map merge array_norm]. rewrite Hs. reflexivity.
Qed.

(* the sub-fragment on which the validator provably treats the decoded stream like the original *)
Inductive c01r_unit : list event -> list event -> Prop :=
| ru_simple e : c01_simple e -> rules_stable e -> c01r_unit [e] (norm_event e)
| ru_array t cs :
    arr_ok t = true -> c01_chunks (element_bits t) cs -> Forall chunk_normal cs -> not_single_short t cs ->
    c01r_unit (EArrayBegin t :: raw_chunk_events cs) (EArrayBegin t :: raw_chunk_events cs)
| ru_media mt cs :
    bytes_wf mt -> len mt <= media_type_max_length -> c01_chunks 8 cs -> Forall chunk_normal cs ->
    c01r_unit (EMediaBegin mt :: raw_chunk_events cs) (EMediaBegin mt :: raw_chunk_events cs)
| ru_custom ct cs :
    ct <= custom_type_max -> c01_chunks 8 cs -> Forall chunk_normal cs ->
    c01r_unit (ECustomBegin cbeAT_CustomBinary ct :: raw_chunk_events cs)
              (ECustomBegin cbeAT_CustomBinary ct :: raw_chunk_events cs)
(* chunked arrays whose data comes in any number of data events per chunk: the decoder reports one
   data event per non-empty chunk (RulesArrayProofs: the validator's verdict and context do not depend
   on how a chunk's bytes are cut) *)
| ru_array_split t cs :
    arr_ok t = true -> c01_chunks (element_bits t) cs -> chunks_total (element_bits t) cs < Uleb.two64 ->
    not_single_short t cs ->
    c01r_unit (EArrayBegin t :: raw_chunk_events cs) (EArrayBegin t :: chunk_events (map merge cs))
| ru_media_split mt cs :
    bytes_wf mt -> len mt <= media_type_max_length -> c01_chunks 8 cs -> chunks_total 8 cs < Uleb.two64 ->
    c01r_unit (EMediaBegin mt :: raw_chunk_events cs) (EMediaBegin mt :: chunk_events (map merge cs))
| ru_custom_split ct cs :
    ct <= custom_type_max -> c01_chunks 8 cs -> chunks_total 8 cs < Uleb.two64 ->
    c01r_unit (ECustomBegin cbeAT_CustomBinary ct :: raw_chunk_events cs)
              (ECustomBegin cbeAT_CustomBinary ct :: chunk_events (map merge cs)).

Inductive c01r_body : list event -> list event -> Prop :=
| rb_nil : c01r_body [] []
| rb_app u n r rn : c01r_unit u n -> c01r_body r rn -> c01r_body (u ++ r) (n ++ rn).

Lemma c01r_unit_spec cfg u n : c01r_unit u n -> c01_unit u n /\ rules_sim cfg u n.
Proof.
  intro H. destruct H as [e He Hst | t cs Ht Hcs Hn Hs | mt cs Hm Hl Hcs Hn | ct cs Hc Hcs Hn
                          | t cs Ht Hcs Htot Hs | mt cs Hm Hl Hcs Htot | ct cs Hc Hcs Htot].
  7:{ split; [apply cu_custom; assumption|]. rewrite chunk_events_raw.
      apply (split_sim cfg _ cbeAT_CustomBinary 8 cs); [right; right; eexists; reflexivity | exact rules_width_custom | exact Hcs | exact Htot]. }
  6:{ split; [apply cu_media; assumption|]. rewrite chunk_events_raw.
      apply (split_sim cfg _ AT_Media 8 cs); [right; left; eexists; split; reflexivity | exact rules_width_media | exact Hcs | exact Htot]. }
  5:{ split; [rewrite <- (array_norm_long t cs Hs); apply cu_array; assumption|]. rewrite chunk_events_raw.
      apply (split_sim cfg _ t (element_bits t) cs); [left; reflexivity | apply rules_width_arr; exact Ht | exact Hcs | exact Htot]. }
  - split; [apply cu_simple; exact He | apply simple_rules_sim; assumption].
  - split; [|apply rules_sim_refl]. rewrite <- (array_norm_normal t cs Hn Hs) at 2. apply cu_array; assumption.
  - split; [|apply rules_sim_refl].
    replace (raw_chunk_events cs) with (chunk_events (map merge cs)) at 2
      by (rewrite chunk_events_raw, (unmerge_merge_normal cs Hn); reflexivity).
    apply cu_media; assumption.
  - split; [|apply rules_sim_refl].
    replace (raw_chunk_events cs) with (chunk_events (map merge cs)) at 2
      by (rewrite chunk_events_raw, (unmerge_merge_normal cs Hn); reflexivity).
    apply cu_custom; assumption.
Qed.

Lemma c01r_body_spec cfg body nbody : c01r_body body nbody -> c01_body body nbody /\ rules_sim cfg body nbody.
Proof.
  induction 1 as [|u n r rn Hu Hr [IH1 IH2]].
  - split; [apply cb_nil | apply rules_sim_refl].
  - destruct (c01r_unit_spec cfg u n Hu) as [U1 U2]. split; [apply cb_app; assumption | apply rules_sim_app; assumption].
Qed.

(* C01 on the sub-fragment: the document decodes, the decoded stream is again a document the
   validator accepts, and it carries the same data minus the comments *)
Theorem c01_roundtrip_rules rcfg cfg body nbody doc :
  c01r_body body nbody ->
  accepts_document rcfg (document 0 body) = true ->
  cbe_encode (document 0 body) = Some doc ->
  len doc <= max_doc_size cfg ->
  cbe_decode cfg doc = (document 0 nbody, DOk) /\
  accepts_document rcfg (document 0 nbody) = true /\
  den (document 0 nbody) = no_comments (den (document 0 body)).
Proof.
  intros Hb Hacc Henc Hlen. destruct (c01r_body_spec rcfg body nbody Hb) as [B1 B2].
  destruct (c01_den_roundtrip cfg body nbody doc B1 Henc Hlen) as [D1 D2].
  split; [exact D1|]. split; [|exact D2].
  apply accepts_document_steps in Hacc as (c & Hs & Ht). apply accepts_document_steps. exists c. split; [|exact Ht].
  unfold document in *.
  change (EBeginDoc :: EVersion 0 :: body ++ [EEndDoc]) with ([EBeginDoc; EVersion 0] ++ body ++ [EEndDoc]) in Hs.
  change (EBeginDoc :: EVersion 0 :: nbody ++ [EEndDoc]) with ([EBeginDoc; EVersion 0] ++ nbody ++ [EEndDoc]).
  revert Hs. apply rules_sim_app; [apply rules_sim_refl|]. apply rules_sim_app; [exact B2 | apply rules_sim_refl].
Qed.

(* ---- a decision procedure for the sub-fragment ---- *)

Definition rules_stableb (e : event) : bool :=
  match e with
  | EFloat b => negb (FloatBits.f64_is_zero b)
  | EDecimal (DFin _ c _) | EBigDecimal (Some (DFin _ c _)) => negb (c =? 0)
  | EArray t n _ => is_short t n
  | EStringArray _ _ | EMedia _ _ | ECustomBin _ _ => false
  | _ => true
  end.

Lemma rules_stableb_sound e : rules_stableb e = true -> rules_stable e.
Proof.
  destruct e; cbn [rules_stableb rules_stable]; intro H; try exact I; try discriminate.
  - apply negb_true_iff. exact H.
  - destruct d; try exact I. apply negb_true_iff, N.eqb_neq in H. exact H.
  - destruct v as [[? c ?| | |]|]; try exact I. apply negb_true_iff, N.eqb_neq in H. exact H.
  - exact H.
Qed.

Definition chunk_normalb (c : rchunk) : bool :=
  match snd c with [] => true | [d] => negb (len d =? 0) | _ => false end.

Lemma chunk_normalb_sound cs : forallb chunk_normalb cs = true -> Forall chunk_normal cs.
Proof.
  rewrite forallb_forall, Forall_forall. intros H c Hc. specialize (H c Hc).
  unfold chunk_normalb, chunk_normal in *. destruct (snd c) as [|d [|d' r]]; try exact I; try discriminate.
  apply negb_true_iff, N.eqb_neq in H. exact H.
Qed.

Definition not_single_shortb (t : N) (cs : list rchunk) : bool :=
  match cs with [(n, false, _)] => negb (is_short t n) | _ => true end.

Lemma not_single_shortb_sound t cs : not_single_shortb t cs = true -> not_single_short t cs.
Proof.
  destruct cs as [|[[n more] ds] r]; [exact (fun _ => I)|]. destruct more; [exact (fun _ => I)|].
  destruct r; [|exact (fun _ => I)]. cbn. apply negb_true_iff.
Qed.

Fixpoint c01r_norm (fuel : nat) (es : list event) : option (list event) :=
  match fuel with
  | O => None
  | S f =>
      match es with
      | [] => Some []
      | EArrayBegin t :: r =>
          match take_chunks (S (length r)) r with
          | Some (cs, r') =>
              if arr_ok t && c01_chunksb (element_bits t) cs && not_single_shortb t cs &&
                 (forallb chunk_normalb cs || (chunks_total (element_bits t) cs <? Uleb.two64))
              then opt_map (app (EArrayBegin t :: chunk_events (map merge cs))) (c01r_norm f r') else None
          | None => None
          end
      | EMediaBegin mt :: r =>
          match take_chunks (S (length r)) r with
          | Some (cs, r') =>
              if bytes_wfb mt && (len mt <=? media_type_max_length) && c01_chunksb 8 cs &&
                 (forallb chunk_normalb cs || (chunks_total 8 cs <? Uleb.two64))
              then opt_map (app (EMediaBegin mt :: chunk_events (map merge cs))) (c01r_norm f r') else None
          | None => None
          end
      | ECustomBegin t ct :: r =>
          match take_chunks (S (length r)) r with
          | Some (cs, r') =>
              if (t =? cbeAT_CustomBinary) && (ct <=? custom_type_max) && c01_chunksb 8 cs &&
                 (forallb chunk_normalb cs || (chunks_total 8 cs <? Uleb.two64))
              then opt_map (app (ECustomBegin cbeAT_CustomBinary ct :: chunk_events (map merge cs))) (c01r_norm f r')
              else None
          | None => None
          end
      | e :: r => if c01_simpleb e && rules_stableb e then opt_map (app (norm_event e)) (c01r_norm f r) else None
      end
  end.

Lemma c01r_norm_sound fuel : forall es n, c01r_norm fuel es = Some n -> c01r_body es n.
Proof.
  induction fuel as [|f IH]; intros es n H; [discriminate|].
  destruct es as [|e r]; [injection H as <-; apply rb_nil|].
  assert (Simple : (if c01_simpleb e && rules_stableb e then opt_map (app (norm_event e)) (c01r_norm f r) else None) = Some n ->
                   c01r_body (e :: r) n).
  { intro S. destruct (c01_simpleb e && rules_stableb e) eqn:Eb; [|discriminate]. apply andb_true_iff in Eb as [E1 E2].
    destruct (c01r_norm f r) as [rn|] eqn:Er; [|discriminate]. injection S as <-.
    apply (rb_app [e] (norm_event e) r rn); [|apply IH; exact Er].
    apply ru_simple; [apply c01_simpleb_sound; exact E1 | apply rules_stableb_sound; exact E2]. }
  destruct e; try (apply Simple; exact H); cbn [c01r_norm] in H.
  - destruct (take_chunks (S (length r)) r) as [[cs r']|] eqn:E; [|discriminate].
    destruct (take_chunks_spec _ _ _ _ E) as [E1 _].
    destruct (arr_ok t && c01_chunksb (element_bits t) cs && not_single_shortb t cs &&
              (forallb chunk_normalb cs || (chunks_total (element_bits t) cs <? Uleb.two64))) eqn:C; [|discriminate].
    apply andb_true_iff in C as [C C4]. apply andb_true_iff in C as [C C3]. apply andb_true_iff in C as [C1 C2].
    destruct (c01r_norm f r') as [rn|] eqn:Er; [|discriminate]. injection H as <-. rewrite E1.
    apply (rb_app (EArrayBegin t :: raw_chunk_events cs) (EArrayBegin t :: chunk_events (map merge cs)) r' rn); [|apply IH; exact Er].
    destruct (forallb chunk_normalb cs) eqn:Cn; cbn [orb] in C4.
    + rewrite chunk_events_raw, (unmerge_merge_normal cs (chunk_normalb_sound cs Cn)).
      apply ru_array; [exact C1 | apply c01_chunksb_sound; exact C2 | apply chunk_normalb_sound; exact Cn |
                       apply not_single_shortb_sound; exact C3].
    + apply ru_array_split; [exact C1 | apply c01_chunksb_sound; exact C2 | apply N.ltb_lt; exact C4 |
                             apply not_single_shortb_sound; exact C3].
  - destruct (take_chunks (S (length r)) r) as [[cs r']|] eqn:E; [|discriminate].
    destruct (take_chunks_spec _ _ _ _ E) as [E1 _].
    destruct (bytes_wfb mediatype && (len mediatype <=? media_type_max_length) && c01_chunksb 8 cs &&
              (forallb chunk_normalb cs || (chunks_total 8 cs <? Uleb.two64))) eqn:C; [|discriminate].
    apply andb_true_iff in C as [C C4]. apply andb_true_iff in C as [C C3]. apply andb_true_iff in C as [C1 C2].
    destruct (c01r_norm f r') as [rn|] eqn:Er; [|discriminate]. injection H as <-. rewrite E1.
    apply (rb_app (EMediaBegin mediatype :: raw_chunk_events cs) (EMediaBegin mediatype :: chunk_events (map merge cs)) r' rn);
      [|apply IH; exact Er].
    destruct (forallb chunk_normalb cs) eqn:Cn; cbn [orb] in C4.
    + rewrite chunk_events_raw, (unmerge_merge_normal cs (chunk_normalb_sound cs Cn)).
      apply ru_media; [apply bytes_wfb_wf; exact C1 | apply N.leb_le; exact C2 | apply c01_chunksb_sound; exact C3 |
                       apply chunk_normalb_sound; exact Cn].
    + apply ru_media_split; [apply bytes_wfb_wf; exact C1 | apply N.leb_le; exact C2 | apply c01_chunksb_sound; exact C3 |
                             apply N.ltb_lt; exact C4].
  - destruct (take_chunks (S (length r)) r) as [[cs r']|] eqn:E; [|discriminate].
    destruct (take_chunks_spec _ _ _ _ E) as [E1 _].
    destruct ((t =? cbeAT_CustomBinary) && (ct <=? custom_type_max) && c01_chunksb 8 cs &&
              (forallb chunk_normalb cs || (chunks_total 8 cs <? Uleb.two64))) eqn:C; [|discriminate].
    apply andb_true_iff in C as [C C4]. apply andb_true_iff in C as [C C3]. apply andb_true_iff in C as [C1 C2].
    apply N.eqb_eq in C1. subst t.
    destruct (c01r_norm f r') as [rn|] eqn:Er; [|discriminate]. injection H as <-. rewrite E1.
    apply (rb_app (ECustomBegin cbeAT_CustomBinary ct :: raw_chunk_events cs)
                  (ECustomBegin cbeAT_CustomBinary ct :: chunk_events (map merge cs)) r' rn); [|apply IH; exact Er].
    destruct (forallb chunk_normalb cs) eqn:Cn; cbn [orb] in C4.
    + rewrite chunk_events_raw, (unmerge_merge_normal cs (chunk_normalb_sound cs Cn)).
      apply ru_custom; [apply N.leb_le; exact C2 | apply c01_chunksb_sound; exact C3 | apply chunk_normalb_sound; exact Cn].
    + apply ru_custom_split; [apply N.leb_le; exact C2 | apply c01_chunksb_sound; exact C3 | apply N.ltb_lt; exact C4].
Qed.

Definition c01r_doc_norm (es : list event) : option (list event) :=
  match doc_body es with
  | Some (v, body) => if v =? 0 then opt_map (document 0) (c01r_norm (S (length body)) body) else None
  | None => None
  end.

Theorem c01_roundtrip_rules_checked rcfg cfg es es' doc :
  c01r_doc_norm es = Some es' -> accepts_document rcfg es = true ->
  cbe_encode es = Some doc -> len doc <= max_doc_size cfg ->
  cbe_decode cfg doc = (es', DOk) /\ accepts_document rcfg es' = true /\ den es' = no_comments (den es).
Proof.
  unfold c01r_doc_norm. intros H Hacc Henc Hlen. destruct (doc_body es) as [[v body]|] eqn:E; [|discriminate].
  apply doc_body_spec in E. destruct (N.eqb_spec v 0) as [V|V]; [|discriminate]. subst v es.
  destruct (c01r_norm (S (length body)) body) as [n|] eqn:En; [|discriminate]. injection H as <-.
  apply c01r_norm_sound in En. apply (c01_roundtrip_rules rcfg cfg body n doc En Hacc Henc Hlen).
Qed.

(* correspondence case: a stream and whether the harness expects it in the sub-fragment *)
Definition c01r_frag_case := (list event * bool)%type.
Definition c01r_frag_case_ok (c : c01r_frag_case) : bool :=
  Bool.eqb (match c01r_doc_norm (fst c) with Some _ => true | None => false end) (snd c).

(* ---- the full property, and why it is false as it stands ---- *)

(* C01 as stated, for every stream the validator accepts and the model's encoder can write
   (the model writes neither times nor inexact big floats; the implementation does) *)
Definition C01_full : Prop :=
  forall es doc, accepts_document default_rcfg es = true -> cbe_encode es = Some doc ->
    exists es', cbe_decode default_dcfg doc = (es', DOk) /\
                accepts_document default_rcfg es' = true /\ den es' = no_comments (den es).

(* a rules-valid stream whose document the decoder rejects *)
Lemma bigdecimal_expmin_valid_but_lost :
  accepts_document default_rcfg bigdecimal_expmin_doc = true /\
  exists doc, cbe_encode bigdecimal_expmin_doc = Some doc /\ snd (cbe_decode default_dcfg doc) = DErr.
Proof.
  split; [vm_compute; reflexivity|]. eexists. exact bigdecimal_expmin_not_decodable.
Qed.

Theorem C01_full_refuted : ~ C01_full.
Proof.
  intro H. destruct bigdecimal_expmin_valid_but_lost as (A & doc & E1 & E2).
  destruct (H _ _ A E1) as (es' & D1 & _). rewrite D1 in E2. discriminate.
Qed.

(* custom text, in one event or through the chunked API, is rules-valid and refused by the
   encoder (an error, not a silent change of kind): it is outside what CBE carries *)
Lemma custom_text_valid_but_refused :
  accepts_document default_rcfg [EBeginDoc; EVersion 0; ECustomText 3 [97; 98]; EEndDoc] = true /\
  cbe_encode [EBeginDoc; EVersion 0; ECustomText 3 [97; 98]; EEndDoc] = None /\
  accepts_document default_rcfg chunked_custom_text_doc = true /\
  cbe_encode chunked_custom_text_doc = None.
Proof. vm_compute. repeat split. Qed.

(* non-vacuity of the sub-fragment theorem *)
Definition c01r_example : list event :=
  [EBeginDoc; EVersion 0; EMap;
   EArray cbeAT_String 1 [107]; EList;
     EPosInt 281474976710656; ENegInt 0; EInt (-100); EBigInt (Some 340282366920938463463374607431768211456%Z);
     EFloat 0x7ff4000000000001; EFloat 0x3ff199999999999a; EFloat 0xfff0000000000000;
     ENan true; EDecimal (DFin true 15 (-1)); EBigDecimal (Some (DFin false 7 7)); EBigFloat (Some (BInf true)); EBigFloat (Some (BFin false 5 (-1074) 64));
     EComment true [99]; EBigInt None; EBool true;
     EArrayBegin cbeAT_String; EArrayChunk 2 true; EArrayData [195; 169]; EArrayChunk 1 false; EArrayData [97];
     EArrayBegin cbeAT_Uint8; EArrayChunk 20 false; EArrayData [1;2;3;4;5;6;7;8;9;10]; EArrayData []; EArrayData [11;12;13;14;15;16;17;18;19;20];
     EArrayBegin cbeAT_String; EArrayChunk 20 true; EArrayData [226]; EArrayData [130; 172; 49; 50; 51; 52; 53; 54; 55; 56; 57; 48; 49; 50; 51; 52; 53]; EArrayData [54; 55];
       EArrayChunk 0 false;
     EArray cbeAT_Uint16 2 [1; 0; 2; 0];
     EUid [1;2;3;4;5;6;7;8;9;10;11;12;13;14;15;16];
     EMarker [109]; EList; EEnd; ERefLocal [109]; ENull; EPadding;
     EMediaBegin [116; 47; 120]; EArrayChunk 0 true; EArrayChunk 2 false; EArrayData [5; 6];
   EEnd;
   EInt 5; EInt 5;
   EEnd; EEndDoc].

Example c01r_example_covered :
  accepts_document default_rcfg c01r_example = true /\
  exists es', c01r_doc_norm c01r_example = Some es' /\ events_eqb es' c01r_example = false.
Proof. split; [vm_compute; reflexivity|]. eexists. split; vm_compute; reflexivity. Qed.

Example c01_example_valid : accepts_document default_rcfg c01_example = true.
Proof. vm_compute. reflexivity. Qed.

End RulesPart.
