(* C14: the array-size limit on chunked arrays. *)
From CE Require Import Model.Rules Model.RulesSpec Proofs.RulesInvariants Proofs.RulesStructure Proofs.RulesLimits.
From Coq Require Import ZifyN ZifyNat ZifyBool.
Open Scope N_scope.

(* ------------------------------------------------------------------------- *)
(* Which methods touch the array type and the running array size              *)
(* ------------------------------------------------------------------------- *)
Definition arr_quiet_m (m : meth) : bool := match m with MArrayBegin | MArrayChunk => false | _ => true end.
Definition arr_quiet_p (p : prim) : bool :=
  match p with
  | PBeginArrayAnyType | PBeginArrayKeyable | PArrayRuleChunk | PStringRuleChunk => false
  | PForwardCurrent m' | PForwardParent m' => arr_quiet_m m'
  | _ => true
  end.

Lemma arr_quiet_table :
  table_forall (fun _ m cell => has_reject cell || negb (arr_quiet_m m) || forallb arr_quiet_p cell) = true.
Proof. vm_compute. reflexivity. Qed.

Lemma call_rule_arr_quiet cfg f r m a c c' :
  call_rule f cfg r m a c = Some c' -> arr_quiet_m m = true -> arr_type c' = arr_type c /\ arr_total c' = arr_total c.
Proof.
  apply (call_rule_ind_gen cfg (fun _ m _ c c' => arr_quiet_m m = true -> arr_type c' = arr_type c /\ arr_total c' = arr_total c)).
  intros call Hcall r0 m0 a0 c0 c0' H Hm.
  pose proof (table_forall_spec _ arr_quiet_table r0 m0) as T. cbn beta in T. rewrite Hm in T. cbn [negb orb] in T.
  rewrite orb_false_r in T. apply orb_true_iff in T as [T|T].
  { rewrite exec_prims_reject in H by exact T. discriminate. }
  revert c0 H. induction (dispatch r0 m0) as [|p ps IH]; intros c0 H; cbn [exec_prims forallb] in *.
  - inv_some. auto.
  - apply andb_true_iff in T as [Tp Tps]. destruct (exec_prim cfg call r0 m0 a0 p c0) as [c1|] eqn:E; [|discriminate].
    destruct (IH Tps c1 H) as [I1 I2]. rewrite I1, I2. clear IH H Tps I1 I2.
    prim_cases p E; rsimpl; try (split; reflexivity); try discriminate Tp; cbn [arr_quiet_p] in Tp;
      match goal with
      | H : call _ ?mm _ _ = Some _ |- _ => apply Hcall in H; [rsimpl; exact H | first [exact Tp | reflexivity]]
      end.
Qed.

(* OnArrayBegin: the array type becomes the announced one and the running size 0 *)
Definition is_begin_last (p : prim) : bool :=
  match p with
  | PBeginArrayAnyType | PBeginArrayKeyable | PForwardParent MArrayBegin | PForwardCurrent MArrayBegin => true
  | _ => false
  end.
Fixpoint begin_cell_ok (cell : list prim) : bool :=
  match cell with
  | [] => false
  | [p] => is_begin_last p
  | PAssertArrayType _ :: rest => begin_cell_ok rest
  | _ => false
  end.
Lemma begin_table : forallb (fun r => has_reject (dispatch r MArrayBegin) || begin_cell_ok (dispatch r MArrayBegin)) all_rules = true.
Proof. vm_compute. reflexivity. Qed.

Lemma call_rule_array_begin cfg f r m a c c' :
  call_rule f cfg r m a c = Some c' -> m = MArrayBegin -> arr_type c' = a_arrty a /\ arr_total c' = 0.
Proof.
  apply (call_rule_ind_gen cfg (fun _ m a _ c' => m = MArrayBegin -> arr_type c' = a_arrty a /\ arr_total c' = 0)).
  intros call Hcall r0 m0 a0 c0 c0' H ->.
  pose proof begin_table as T. rewrite forallb_forall in T. specialize (T r0 (all_rules_complete r0)).
  apply orb_true_iff in T as [T|T]; [rewrite exec_prims_reject in H by exact T; discriminate|].
  revert c0 H. induction (dispatch r0 MArrayBegin) as [|p ps IH]; intros c0 H; [discriminate T|].
  cbn [exec_prims] in H. destruct (exec_prim cfg call r0 MArrayBegin a0 p c0) as [c1|] eqn:E; [|discriminate].
  destruct ps as [|q ps].
  - cbn [exec_prims] in H. inv_some. cbn [begin_cell_ok] in T.
    destruct p; try discriminate T; cbn [exec_prim] in E.
    { unfold begin_array_any in E; inv_some; rsimpl; split; reflexivity. }
    { destruct (assert_array_type (a_arrty a0) Allow_Keyable); [|discriminate].
      unfold begin_array_any in E; inv_some; rsimpl; split; reflexivity. }
    { match type of T with is_begin_last (PForwardCurrent ?x) = _ => destruct x; try discriminate T end. eapply Hcall; eauto. }
    { match type of T with is_begin_last (PForwardParent ?x) = _ => destruct x; try discriminate T end.
      destruct (stack c0); [discriminate|]. eapply Hcall; eauto. }
  - destruct p; try discriminate T. cbn [exec_prim] in E.
    match type of E with (if ?b then _ else _) = _ => destruct b; [|discriminate] end.
    inv_some. eapply IH; eauto.
Qed.

(* ------------------------------------------------------------------------- *)
(* OnArrayChunk                                                               *)
(* ------------------------------------------------------------------------- *)
Scheme Equality for prim.
Definition chunk_cell_ok (r : rule) : bool :=
  let cell := dispatch r MArrayChunk in
  has_reject cell || list_eqb prim_beq cell [PStringBuilderRuleChunk] ||
  (list_eqb prim_beq cell [PArrayRuleChunk] && rclass_eqb (rclass_of r) KArrP) ||
  (list_eqb prim_beq cell [PStringRuleChunk] && rclass_eqb (rclass_of r) KArrS).
Lemma chunk_table : forallb chunk_cell_ok all_rules = true.
Proof. vm_compute. reflexivity. Qed.

Lemma prims_eqb_eq2 a b : list_eqb prim_beq a b = true -> a = b.
Proof. apply list_eqb_eq. intros x y. split; [apply internal_prim_dec_bl | apply internal_prim_dec_lb]. Qed.

Definition chunk_total (t : arrty) (n total : N) : N :=
  if n =? 0 then total else (total + chunk_bytes t n) mod two64.

Lemma rule_chunk_effect cfg f sr n more c c' :
  rule_chunk cfg (call_rule f cfg) sr n more c = Some c' ->
  is_stringlike_validated (arr_type c) = sr ->
  arr_type c' = arr_type c /\ arr_total c' = chunk_total (arr_type c) n (arr_total c) /\
  (0 < max_array_size_bytes cfg -> arr_total c <= max_array_size_bytes cfg -> arr_total c' <= max_array_size_bytes cfg).
Proof.
  unfold rule_chunk, chunk_total. intros H S. destruct (n =? 0) eqn:N0.
  - unfold try_end_array, end_container_like, unstack_rule in H. inv_some; rsimpl; try (repeat split; auto; fail).
    match goal with H : call_rule _ _ _ _ _ _ = Some _ |- _ => apply call_rule_arr_quiet in H; [rsimpl; destruct H as [-> ->] | reflexivity] end.
    repeat split; auto.
  - unfold chunk_bytes. rewrite S. destruct sr.
    + inv_some. rsimpl. repeat split; auto. intros P _. lia.
    + destruct (array_bits (arr_type c)) as [bits|]; [|discriminate]. inv_some. rsimpl. repeat split; auto. intros P _. lia.
Qed.

(* ------------------------------------------------------------------------- *)
(* One event, and runs                                                        *)
(* ------------------------------------------------------------------------- *)
Definition arr_st (c : rctx) : arrty * N := (arr_type c, arr_total c).

Lemma ev_plan_arr cfg e pl :
  ev_plan cfg e = Some pl ->
  match e with
  | EArrayBegin t => p_meth pl = MArrayBegin /\ a_arrty (p_args pl) = t
  | EMediaBegin _ => p_meth pl = MArrayBegin /\ a_arrty (p_args pl) = AT_Media
  | ECustomBegin t _ => p_meth pl = MArrayBegin /\ a_arrty (p_args pl) = t
  | EArrayChunk n more => p_meth pl = MArrayChunk /\ a_count (p_args pl) = n /\ p_nno pl = None
  | _ => arr_quiet_m (p_meth pl) = true
  end.
Proof.
  destruct e as [| |v| |m t| |b| | |n|n|z|[z|]|bits|[bf|]|[| | |]|[[| | |]|]|s|b|s| | |id|id| | | |id|id|t cnt d|t d|mt d|ct d|ct d|t|mt|t ct|n m|d];
    cbn [ev_plan]; intro H;
    repeat match goal with H : (if ?b then _ else _) = Some _ |- _ => destruct b; try discriminate H end;
    unfold mkplan in H; inv_some; cbn; auto.
Qed.

Lemma rstep_arr cfg c e c' o :
  rstep cfg c e = Some (c', o) -> WF c ->
  arr_st c' = chunk_step e (arr_st c) /\
  (0 < max_array_size_bytes cfg -> arr_total c <= max_array_size_bytes cfg -> arr_total c' <= max_array_size_bytes cfg).
Proof.
  rewrite rstep_plan. destruct (ev_plan cfg e) as [pl|] eqn:P; [|discriminate].
  destruct (plan_step cfg pl c) as [c2|] eqn:S; [|discriminate]. intros H W; inv_some.
  pose proof (ev_plan_arr _ _ _ P) as A. unfold plan_step, call_current in S. unfold arr_st.
  assert (forall c1, arr_type c1 = arr_type c -> arr_total c1 = arr_total c ->
            call_rule call_fuel cfg (e_rule (cur c1)) (p_meth pl) (p_args pl) c1 = Some c' ->
            arr_quiet_m (p_meth pl) = true ->
            (arr_type c', arr_total c') = (arr_type c, arr_total c) /\
            (0 < max_array_size_bytes cfg -> arr_total c <= max_array_size_bytes cfg -> arr_total c' <= max_array_size_bytes cfg)) as Quiet.
  { intros c1 E1 E2 H Q. apply call_rule_arr_quiet in H as [H1 H2]; [|exact Q]. rewrite H1, H2, E1, E2. split; [reflexivity | auto]. }
  assert (forall c1 t, call_rule call_fuel cfg (e_rule (cur c1)) (p_meth pl) (p_args pl) c1 = Some c' ->
            p_meth pl = MArrayBegin /\ a_arrty (p_args pl) = t ->
            (arr_type c', arr_total c') = (t, 0) /\
            (0 < max_array_size_bytes cfg -> arr_total c <= max_array_size_bytes cfg -> arr_total c' <= max_array_size_bytes cfg)) as Begin.
  { intros c1 t H [M T]. apply call_rule_array_begin in H as [H1 H2]; [|exact M]. rewrite H1, H2, T. split; [reflexivity | intros; lia]. }
  destruct e; cbn [chunk_step fst snd];
    try (destruct (p_nno pl) as [real|];
         [ destruct (notify_new_object cfg real c) as [c1|] eqn:N; [|discriminate]; apply nno_fields in N;
           destruct N as [_ [_ [_ [_ [_ [_ [_ [_ [_ [_ [_ [N1 N2]]]]]]]]]]]]; first [eapply Quiet; eauto | eapply Begin; eauto]
         | first [eapply Quiet; eauto | eapply Begin; eauto] ]; fail).
  (* a chunk header *)
  destruct A as [M [Cn Nn]]. rewrite Nn in S. unfold call_fuel in S. rewrite M in S.
  change (call_rule 6 cfg (e_rule (cur c)) MArrayChunk (p_args pl) c)
    with (exec_prims cfg (call_rule 5 cfg) (e_rule (cur c)) MArrayChunk (p_args pl) (dispatch (e_rule (cur c)) MArrayChunk) c) in S.
  pose proof chunk_table as T. rewrite forallb_forall in T. specialize (T _ (all_rules_complete (e_rule (cur c)))).
  unfold chunk_cell_ok in T. cbn zeta in T. destruct W as [_ [_ [_ [W1 W2]]]].
  apply orb_true_iff in T as [T|T]; [apply orb_true_iff in T as [T|T]; [apply orb_true_iff in T as [T|T]|]|].
  - rewrite exec_prims_reject in S by exact T. discriminate.
  - apply prims_eqb_eq2 in T. rewrite T in S. discriminate S.
  - apply andb_true_iff in T as [T1 T2]. apply prims_eqb_eq2 in T1. apply rclass_eqb_eq in T2. rewrite T1 in S.
    cbn [exec_prims exec_prim] in S. destruct (rule_chunk cfg (call_rule 5 cfg) false (a_count (p_args pl)) (a_more (p_args pl)) c) as [c1|] eqn:R; [|discriminate].
    inv_some. apply rule_chunk_effect in R; [|exact (W2 T2)]. destruct R as [R1 [R2 R3]]. split; [rewrite R1, R2; reflexivity | exact R3].
  - apply andb_true_iff in T as [T1 T2]. apply prims_eqb_eq2 in T1. apply rclass_eqb_eq in T2. rewrite T1 in S.
    cbn [exec_prims exec_prim] in S. destruct (rule_chunk cfg (call_rule 5 cfg) true (a_count (p_args pl)) (a_more (p_args pl)) c) as [c1|] eqn:R; [|discriminate].
    inv_some. apply rule_chunk_effect in R; [|exact (W1 T2)]. destruct R as [R1 [R2 R3]]. split; [rewrite R1, R2; reflexivity | exact R3].
Qed.

Lemma steps_arr cfg es : forall c c',
  steps cfg c es = Some c' -> WF c ->
  arr_st c' = chunk_state (arr_st c) es /\
  (0 < max_array_size_bytes cfg -> arr_total c <= max_array_size_bytes cfg -> arr_total c' <= max_array_size_bytes cfg).
Proof.
  induction es as [|e es IH]; intros c c' H W; cbn [steps] in H.
  - inv_some. split; [reflexivity | auto].
  - destruct (rstep cfg c e) as [[c1 o]|] eqn:R; [|discriminate].
    destruct (rstep_arr _ _ _ _ _ R W) as [A1 A2]. destruct (rstep_structure _ _ _ _ _ R W) as [W1 _].
    destruct (IH _ _ H W1) as [B1 B2]. split.
    + unfold chunk_state in *. cbn [fold_left]. rewrite <- A1. exact B1.
    + intros P L. apply B2; auto.
Qed.

(* the scan is the maximum of the running size over all prefixes *)
Lemma scan_ge_init es : forall t total, total <= chunked_scan t total es.
Proof.
  induction es as [|e es IH]; intros t total; cbn [chunked_scan]; [lia|].
  destruct e; try apply IH; try lia. destruct (n =? 0); [apply IH | lia].
Qed.

Lemma scan_cons e es t total :
  chunked_scan t total (e :: es) =
  N.max total (chunked_scan (fst (chunk_step e (t, total))) (snd (chunk_step e (t, total))) es).
Proof.
  cbn [chunked_scan]. destruct e; cbn [chunk_step fst snd]; try reflexivity;
    try (pose proof (scan_ge_init es t total); lia).
  destruct (n =? 0); [pose proof (scan_ge_init es t total); lia | reflexivity].
Qed.

Lemma scan_prefix es : forall t total p q, es = p ++ q -> snd (chunk_state (t, total) p) <= chunked_scan t total es.
Proof.
  induction es as [|e es IH]; intros t total p q E.
  - symmetry in E. apply app_eq_nil in E as [-> _]. cbn. lia.
  - destruct p as [|x p]; [cbn [chunk_state fold_left snd]; apply scan_ge_init|]. cbn [app] in E. inversion E; subst.
    rewrite scan_cons. unfold chunk_state. cbn [fold_left].
    destruct (chunk_step x (t, total)) as [t1 total1] eqn:S. cbn [fst snd].
    pose proof (IH t1 total1 p q eq_refl) as X. unfold chunk_state in X. lia.
Qed.

Lemma scan_le es M : forall t total,
  (forall p q, es = p ++ q -> snd (chunk_state (t, total) p) <= M) -> chunked_scan t total es <= M.
Proof.
  induction es as [|e es IH]; intros t total H.
  - specialize (H [] [] eq_refl). cbn in *. exact H.
  - rewrite scan_cons. pose proof (H [] (e :: es) eq_refl) as H0. cbn in H0.
    destruct (chunk_step e (t, total)) as [t1 total1] eqn:S. cbn [fst snd].
    assert (chunked_scan t1 total1 es <= M); [|lia]. apply IH. intros p q E.
    specialize (H (e :: p) q). cbn [app] in H. rewrite E in H. specialize (H eq_refl).
    unfold chunk_state in *. cbn [fold_left] in H. rewrite S in H. exact H.
Qed.

(* ------------------------------------------------------------------------- *)
(* C14 with all array sizes                                                   *)
(* ------------------------------------------------------------------------- *)
Lemma length_ok_pos cfg n : length_ok cfg n = true <-> (0 < max_array_size_bytes cfg -> n <= max_array_size_bytes cfg).
Proof. unfold length_ok. lia. Qed.

Theorem accepts_chunked_arrays_within cfg es :
  accepts cfg es = true -> length_ok cfg (chunked_array_usage es) = true.
Proof.
  intro A. apply length_ok_pos. intro P. unfold chunked_array_usage. apply scan_le. intros p q E. subst es.
  apply accepts_app in A. apply accepts_steps in A as [c H].
  destruct (steps_arr _ _ _ _ H WF_init) as [S B]. unfold arr_st in S. cbn [init_rctx arr_type arr_total] in S.
  rewrite <- S. cbn [snd]. apply B; [exact P | cbn; lia].
Qed.

Lemma steps_sufficient_full cfg cfg' es c :
  cfg_le cfg cfg' -> steps cfg' init_rctx es = Some c -> within_limits_full cfg es -> steps cfg init_rctx es = Some c.
Proof.
  intros Hle H [[Wo [Wd [Wa [Wi Wm]]]] Wc].
  apply (steps_sim cfg cfg' Hle es init_rctx c H).
  - apply Forall_forall. intros e Hin. unfold ev_guard. split.
    + intros id E. pose proof (ident_usage_in _ _ _ Hin E). lia.
    + intros n E. eapply length_ok_le_n; [eapply whole_array_usage_in; eauto | exact Wa].
  - unfold limv. cbn. split; lia.
  - intros p q c1 E _ Hp. subst es. unfold good, limv, limr.
    pose proof (steps_counters _ _ _ _ Hp) as [C1 C2]. cbn in C1, C2.
    pose proof (steps_refcount_le_markers _ _ _ Hp) as C3.
    unfold object_usage, marker_usage in *. rewrite count_if_app in *.
    assert (depth_scan 0 (p ++ q) <= Z.of_N (max_container_depth cfg))%Z as D by (unfold depth_usage in Wd; lia).
    rewrite depth_scan_le in D. specialize (D p q eq_refl).
    repeat split; try lia.
    intro Pos. destruct (steps_arr _ _ _ _ Hp WF_init) as [S _]. unfold arr_st in S. cbn [init_rctx arr_type arr_total] in S.
    pose proof (scan_prefix (p ++ q) 0 0 p q eq_refl) as X. rewrite <- S in X. cbn [snd] in X.
    apply length_ok_pos in Wc; [|exact Pos]. unfold chunked_array_usage in Wc. lia.
Qed.

(* Sufficiency, all six measures, no side condition *)
Theorem limits_sufficient_full cfg cfg' es :
  cfg_le cfg cfg' -> accepts cfg' es = true -> within_limits_full cfg es -> accepts cfg es = true.
Proof. rewrite !accepts_steps. intros Hle [c H] W. exists c. eapply steps_sufficient_full; eauto. Qed.

Theorem limits_sufficient_full_document cfg cfg' es :
  cfg_le cfg cfg' -> accepts_document cfg' es = true -> within_limits_full cfg es -> accepts_document cfg es = true.
Proof.
  rewrite !accepts_document_steps. intros Hle [c [H T]] W. exists c. split; [eapply steps_sufficient_full; eauto | exact T].
Qed.

(* Necessity, five measures (the marker limit is the exception, see [marker_limit_necessary_refuted]) *)
Theorem limits_necessary_full cfg es :
  accepts cfg es = true ->
  object_usage es <= max_object_count cfg /\ depth_usage es <= max_container_depth cfg /\
  length_ok cfg (whole_array_usage es) = true /\ length_ok cfg (chunked_array_usage es) = true /\
  ident_usage es <= max_identifier_length cfg.
Proof.
  intro A. destruct (limits_necessary _ _ A) as [N1 [N2 [N3 N4]]]. repeat split; auto.
  apply accepts_chunked_arrays_within. exact A.
Qed.

(* Exactness for the object, depth, identifier and array limits (whole and chunked), given that the marker
   limit is not the binding one. *)
Theorem limits_exact_full cfg es :
  marker_usage es <= max_local_reference_count cfg ->
  (accepts cfg es = true <->
   (exists cfg', cfg_le cfg cfg' /\ accepts cfg' es = true) /\
   object_usage es <= max_object_count cfg /\ depth_usage es <= max_container_depth cfg /\
   length_ok cfg (whole_array_usage es) = true /\ length_ok cfg (chunked_array_usage es) = true /\
   ident_usage es <= max_identifier_length cfg).
Proof.
  intros M. split.
  - intro A. split; [exists cfg; split; [apply cfg_le_refl | exact A] | apply limits_necessary_full; exact A].
  - intros [[cfg' [Hle A]] [Wo [Wd [Wa [Wc Wi]]]]]. eapply limits_sufficient_full; eauto.
    unfold within_limits_full, within_limits. auto 10.
Qed.

Theorem limits_tight_full cfg es :
  accepts cfg es = true -> marker_usage es <= max_local_reference_count cfg -> accepts (usage_cfg cfg es) es = true.
Proof.
  intros A M. destruct (limits_necessary_full _ _ A) as [No [Nd [Na [Nc Ni]]]].
  apply (limits_sufficient_full (usage_cfg cfg es) cfg es); auto.
  - unfold cfg_le, usage_cfg; cbn. repeat split; try lia.
  - unfold within_limits_full, within_limits, usage_cfg; cbn. repeat split; try lia; assumption.
Qed.

(* C14, complete documents: all six limits are necessary and sufficient. *)
Theorem limits_necessary_document cfg es :
  accepts_document cfg es = true -> within_limits_full cfg es.
Proof.
  intro A. pose proof (accepts_document_accepts _ _ A) as A'.
  destruct (limits_necessary_full _ _ A') as [N1 [N2 [N3 [N4 N5]]]].
  unfold within_limits_full, within_limits. repeat split; auto. apply document_markers_within. exact A.
Qed.

Theorem limits_exact_document cfg es :
  accepts_document cfg es = true <->
  (exists cfg', cfg_le cfg cfg' /\ accepts_document cfg' es = true) /\ within_limits_full cfg es.
Proof.
  split.
  - intro A. split; [exists cfg; split; [apply cfg_le_refl | exact A] | apply limits_necessary_document; exact A].
  - intros [[cfg' [Hle A]] W]. eapply limits_sufficient_full_document; eauto.
Qed.

(* with every limit set to the measured usage the document is still accepted *)
Theorem limits_tight_document cfg es :
  accepts_document cfg es = true -> accepts_document (usage_cfg cfg es) es = true.
Proof.
  intros A. destruct (limits_necessary_document _ _ A) as [[No [Nd [Na [Ni Nm]]]] Nc].
  apply (limits_sufficient_full_document (usage_cfg cfg es) cfg es); auto.
  - unfold cfg_le, usage_cfg; cbn. repeat split; try lia.
  - unfold within_limits_full, within_limits, usage_cfg; cbn. repeat split; try lia; assumption.
Qed.
