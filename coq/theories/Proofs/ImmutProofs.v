(* Proofs about Model/Immut.v: the encoders leave every big number of the
   marshaled value as it was, for single cells and for heaps of cells visited in
   any order; consequences for the bytes written. *)
From CE Require Import Model.Immut.
From Coq Require Import ZifyN ZifyNat ZifyBool.
Open Scope N_scope.

(* ------------------------------------------------------------------ *)
(* One cell                                                             *)
(* ------------------------------------------------------------------ *)

Lemma cbe_bigint_unchanged (z : Z) : snd (cbe_on_bigint z) = z.
Proof.
  unfold cbe_on_bigint. cbv zeta.
  repeat match goal with
         | |- context [if ?b then _ else _] => destruct b
         end; reflexivity.
Qed.

Lemma cte_bigint_unchanged (z : Z) : snd (cte_on_bigint z) = z.
Proof. reflexivity. Qed.

Lemma on_bigint_unchanged (e : encoder) (z : Z) : snd (on_bigint e z) = z.
Proof. destruct e; [apply cbe_bigint_unchanged | apply cte_bigint_unchanged]. Qed.

Lemma in_neg_window_spec (z : Z) :
  in_neg_window z = true <-> (- two64z < z < - two63z)%Z.
Proof. unfold in_neg_window. lia. Qed.

(* The path that used to damage the cell: for -2^64 < z < -2^63 the handler
   writes the 64-bit negative integer form of |z| (type 0x6f, 8 bytes). *)
Lemma cbe_window_bytes (z : Z) :
  (- two64z < z < - two63z)%Z ->
  fst (cbe_on_bigint z) = cbeTypeNegInt64 :: le_encode 8 (Z.to_N (- z)).
Proof.
  intro H. unfold two63z, two64z in H.
  unfold cbe_on_bigint, is_int64, is_uint64, neg_into. cbv zeta.
  assert (E1 : (z <? 0)%Z = true) by lia. rewrite E1.
  assert (E2 : ((- two63z <=? z) && (z <? two63z))%Z = false) by (unfold two63z; lia).
  rewrite E2.
  assert (E3 : ((0 <=? - z) && (- z <? two64z))%Z = true) by (unfold two64z; lia).
  rewrite E3. cbn [fst].
  assert (Ev : big_uint64 (- z) = Z.to_N (- z)).
  { unfold big_uint64, two64z. f_equal. rewrite Z.abs_eq by lia. apply Z.mod_small. lia. }
  rewrite Ev. set (v := Z.to_N (- z)).
  assert (Hv : 9223372036854775808 < v) by (unfold v; lia).
  unfold cbe_neg_int, cbeSmallIntMax.
  assert (F1 : (v =? 0) = false) by lia.
  assert (F2 : (v <=? 100) = false) by lia.
  assert (F3 : (v <=? 255) = false) by lia.
  assert (F4 : (v <=? 65535) = false) by lia.
  assert (F5 : (v <=? 4294967295) = false) by lia.
  assert (F6 : (v <? 281474976710656) = false) by lia.
  rewrite F1, F2, F3, F4, F5, F6. reflexivity.
Qed.

(* ------------------------------------------------------------------ *)
(* Heaps                                                                *)
(* ------------------------------------------------------------------ *)

Lemma set_nth_same {A} (l : list A) : forall i x, nth_error l i = Some x -> set_nth i x l = l.
Proof.
  induction l as [|y r IH]; intros [|k] x H; cbn in *; try discriminate; try reflexivity.
  - inversion H; reflexivity.
  - rewrite IH by exact H. reflexivity.
Qed.

Lemma visit_cell_unchanged (e : encoder) (h : list cell) (v : visit) :
  snd (visit_cell e h v) = h.
Proof.
  destruct v as [i | i]; cbn [visit_cell].
  - destruct (nth_error h i) as [[z | id] |] eqn:En; cbn [snd]; try reflexivity.
    rewrite on_bigint_unchanged. apply set_nth_same. exact En.
  - destruct (nth_error h i) as [[z | id] |]; reflexivity.
Qed.

Lemma run_unchanged (e : encoder) (h : list cell) (vs : list visit) :
  snd (run e h vs) = h.
Proof.
  induction vs as [|v r IH]; cbn [run snd]; [reflexivity |].
  rewrite visit_cell_unchanged. exact IH.
Qed.

(* What is written for a visit depends on the cell content only, not on how
   the cell is reached. *)
Lemma visit_bytes_ptr_val (e : encoder) (h : list cell) (i : nat) :
  fst (visit_cell e h (ByPtr i)) = fst (visit_cell e h (ByVal i)).
Proof.
  cbn [visit_cell]. destruct (nth_error h i) as [[z | id] |]; reflexivity.
Qed.

(* The bytes of a whole run are those of each visit evaluated on the ORIGINAL
   heap: no visit influences a later one. *)
Lemma run_bytes (e : encoder) (h : list cell) (vs : list visit) :
  fst (run e h vs) = flat_map (fun v => fst (visit_cell e h v)) vs.
Proof.
  induction vs as [|v r IH]; cbn [run fst flat_map]; [reflexivity |].
  rewrite visit_cell_unchanged, IH. reflexivity.
Qed.

(* A pointer shared between two places is written identically both times. *)
Lemma run_shared_twice (e : encoder) (h : list cell) (i : nat) :
  fst (run e h [ByPtr i; ByPtr i])
  = fst (visit_cell e h (ByPtr i)) ++ fst (visit_cell e h (ByPtr i)).
Proof. rewrite run_bytes. cbn [flat_map]. rewrite app_nil_r. reflexivity. Qed.
