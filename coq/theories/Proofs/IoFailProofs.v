(* Lemmas for C29 (Model/IoFail.v): for all destinations / sources (arbitrary
   state machines), all encoders (lists of writes), all decoder programs. *)
From CE Require Import Model.IoFail.
From Coq Require Import ZifyN ZifyNat ZifyBool.
Open Scope N_scope.

(* ------------------------------------------------------------------------- *)
(* shapes *)

Record shape_sound (sh : shape) : Prop := {
  ss_wcb : chk sh WCbeBytes = true; ss_wcs : chk sh WCbeString = true;
  ss_wtb : chk sh WCteBytes = true; ss_wtn : chk sh WCteStringNotLF = true; ss_wtl : chk sh WCteStringLF = true;
  ss_u8 : chk sh RCbeUint8 = true; ss_te : chk sh RCbeTypeOrEOF = true; ss_ib : chk sh RCbeIntoBuffer = true;
  ss_fw : chk sh RCbeRead = true; ss_pr : chk sh RCbePropagate = true;
  ss_uf : chk sh RUlebFirst = true; ss_uc : sh RUlebCont <> Unchecked;
  ss_cb : chk sh RCtByte = true; ss_cf : chk sh RCtFill = true;
  ss_cc : chk sh RCteCopy = true; ss_pu : chk sh RCePeekUnmarshal = true; ss_pd : chk sh RCePeekDecode = true;
  ss_gm : chk sh GCbeMarshal = true; ss_gtm : chk sh GCteMarshal = true;
  ss_gu : chk sh GCbeUnmarshal = true; ss_gtu : chk sh GCteUnmarshal = true;
  ss_gd : chk sh GCbeDecode = true; ss_gtd : chk sh GCteDecode = true
}.

Lemma shape_sound_of_but_uleb sh : all_checked_but_uleb sh = true -> shape_sound sh.
Proof.
  unfold all_checked_but_uleb, shape_sites, current_shape_list. cbn [map fst forallb].
  rewrite !andb_true_iff. cbn.
  intros H. decompose [and] H. clear H.
  constructor; try assumption.
  intro E. rewrite E in *. discriminate.
Qed.

Lemma all_checked_but_uleb_of_all sh : all_checked sh = true -> all_checked_but_uleb sh = true.
Proof.
  unfold all_checked, all_checked_but_uleb, shape_sites, current_shape_list. cbn [map fst forallb].
  rewrite !andb_true_iff. cbn.
  intros H. decompose [and] H. clear H.
  repeat split; try assumption.
  unfold chk in *. destruct (sh RUlebCont); try discriminate. reflexivity.
Qed.

Lemma all_checked_uleb sh : all_checked sh = true -> sh RUlebCont = Checked.
Proof.
  unfold all_checked, shape_sites, current_shape_list. cbn [map fst forallb].
  rewrite !andb_true_iff. intros H. decompose [and] H. clear H.
  unfold chk in *. destruct (sh RUlebCont); try discriminate. reflexivity.
Qed.

Lemma current_shape_but_uleb : all_checked_but_uleb current_shape = true.
Proof. vm_compute. reflexivity. Qed.

Lemma current_shape_uleb_weak : current_shape RUlebCont = Weak.
Proof. vm_compute. reflexivity. Qed.

Lemma guard_panic_err {A} sh scope : chk sh scope = true -> @guard A sh scope false Panic = Err.
Proof. intro H. unfold guard. rewrite H. reflexivity. Qed.

(* ========================================================================= *)
(* WRITE SIDE *)

Definition wfailed (ev : wev) : Prop := we_failed ev = true.
Definition wclean (ev : wev) : Prop := we_failed ev = false.

Definition wsites_checked (sh : shape) (f : wfmt) : Prop :=
  chk sh (bytes_site f) = true /\ chk sh (string_site f false) = true /\ chk sh (string_site f true) = true.

Lemma wsites_of_sound sh f : shape_sound sh -> wsites_checked sh f.
Proof. intros [? ? ? ? ? ? ? ? ? ? ? ? ? ? ? ? ? ? ? ? ? ? ?]. destruct f; repeat split; assumption. Qed.

Section WriterProofs.
  Variable W : Type.
  Variable wstep : W -> wcall -> W * bool.
  Variable sh : shape.
  Variable f : wfmt.
  Variable sw : bool.
  Hypothesis Hsites : wsites_checked sh f.

  Lemma phys_checked l : chk sh (fst (phys f sw l)) = true.
  Proof.
    destruct Hsites as (Hb & Hn & Hl).
    destruct l, sw; cbn; assumption.
  Qed.

  (* What a run adds to the trace: either only successful calls (and it went
     through), or successful calls followed by one failed call, which is the
     last call made (and it panicked). *)
  Definition wext (st st' : wst W) (panicked : bool) : Prop :=
    exists tr, ws_tr st' = tr ++ ws_tr st /\
      if panicked then exists ev rest, tr = ev :: rest /\ wfailed ev /\ Forall wclean rest
      else Forall wclean tr.

  Lemma do_lwrite_ext st l st' p :
    do_lwrite W wstep sh f sw st l = (st', p) -> wext st st' p.
  Proof.
    unfold do_lwrite. pose proof (phys_checked (lw_site l)) as Hc.
    destruct (phys f sw (lw_site l)) as [s k]. cbn in Hc.
    destruct (wstep (ws_w st) _) as [w' failed]. intro E. inversion E; subst; clear E.
    rewrite Hc, andb_true_r.
    eexists [_]. split; [reflexivity|].
    destruct failed.
    - eexists _, []. repeat split. constructor.
    - repeat constructor.
  Qed.

  Lemma wext_trans st1 st2 st3 p :
    wext st1 st2 false -> wext st2 st3 p -> wext st1 st3 p.
  Proof.
    intros (t1 & E1 & F1) (t2 & E2 & F2).
    exists (t2 ++ t1). split; [rewrite E2, E1, app_assoc; reflexivity|].
    destruct p.
    - destruct F2 as (ev & rest & -> & Hf & Hr).
      exists ev, (rest ++ t1). repeat split; auto. apply Forall_app; auto.
    - apply Forall_app; auto.
  Qed.

  Lemma wext_refl st : wext st st false.
  Proof. exists []. split; [reflexivity|constructor]. Qed.

  Lemma do_lwrites_ext ls : forall st st' p,
    do_lwrites W wstep sh f sw st ls = (st', p) -> wext st st' p.
  Proof.
    induction ls as [|l r IH]; intros st st' p E; cbn in E.
    - inversion E; subst. apply wext_refl.
    - destruct (do_lwrite W wstep sh f sw st l) as [st1 p1] eqn:E1.
      apply do_lwrite_ext in E1. destruct p1.
      + inversion E; subst. exact E1.
      + eapply wext_trans; [exact E1|]. apply IH; exact E.
  Qed.

  Lemma feed_events_ext evs : forall st i st' o,
    feed_events W wstep sh f sw st evs i = (st', o) ->
    wext st st' (match o with EncDone => false | EncPanicAt _ => true end) /\
    (forall j, o = EncPanicAt j -> i <= j < i + N.of_nat (length evs)).
  Proof.
    induction evs as [|e r IH]; intros st i st' o E; cbn [feed_events] in E.
    - inversion E; subst. split; [apply wext_refl | discriminate].
    - destruct (do_lwrites W wstep sh f sw st e) as [st1 p1] eqn:E1.
      apply do_lwrites_ext in E1. destruct p1.
      + inversion E; subst. split; [exact E1|]. intros j Hj. inversion Hj; subst. cbn [length]. lia.
      + apply IH in E. destruct E as [E2 E3]. split.
        * eapply wext_trans; eassumption.
        * intros j Hj. specialize (E3 j Hj). cbn [length]. lia.
  Qed.

  (* Encoder API: if any call on the destination failed, the panic leaves the
     event call (never a normal completion); if none failed, no panic. *)
  Lemma encoder_reports st evs st' o :
    feed_events W wstep sh f sw st evs 0 = (st', o) ->
    exists tr, ws_tr st' = tr ++ ws_tr st /\
      ((Exists wfailed tr -> exists i, o = EncPanicAt i /\ i < N.of_nat (length evs)) /\
       (Forall wclean tr -> o = EncDone)).
  Proof.
    intro E. apply feed_events_ext in E. destruct E as [(tr & Et & Ht) Hi].
    exists tr. split; [exact Et|]. destruct o as [|i].
    - split; [|reflexivity]. intro Hex. exfalso.
      apply Exists_exists in Hex. destruct Hex as (ev & Hin & Hf).
      rewrite Forall_forall in Ht. specialize (Ht ev Hin). unfold wfailed, wclean in *. congruence.
    - split.
      + intros _. exists i. split; [reflexivity|]. specialize (Hi i eq_refl). lia.
      + intro Hall. exfalso. destruct Ht as (ev & rest & -> & Hf & _).
        inversion Hall; subst. unfold wfailed, wclean in *. congruence.
  Qed.

  Hypothesis Hscope : chk sh (marshal_scope f) = true.

  (* Marshal: a failed call on the destination <-> the returned error. *)
  Lemma marshal_reports st evs st' o :
    marshal W wstep sh f sw false st evs = (st', o) ->
    exists tr, ws_tr st' = tr ++ ws_tr st /\
      ((Exists wfailed tr -> o = Err) /\ (Forall wclean tr -> o = Ok tt)).
  Proof.
    unfold marshal. destruct (feed_events W wstep sh f sw st evs 0) as [st1 eo] eqn:E.
    intro M. inversion M; subst; clear M.
    apply encoder_reports in E. destruct E as (tr & Et & Hex & Hall).
    exists tr. split; [exact Et|]. split.
    - intro H. destruct (Hex H) as (i & -> & _). apply guard_panic_err. exact Hscope.
    - intro H. rewrite (Hall H). reflexivity.
  Qed.
End WriterProofs.

(* The failure schedule form: a destination that fails its k-th call, k smaller
   than the number of writes the encoder issues. *)
Definition total_writes (evs : list (list lwrite)) : N := N.of_nat (length (concat evs)).

Section SchedWriter.
  Variable sh : shape.
  Variable f : wfmt.
  Variable sw : bool.
  Hypothesis Hsites : wsites_checked sh f.
  Variable sc : wsched.
  Variable k : N.
  Hypothesis Hk : mem_N k (wsc_calls sc) = true.

  Lemma sched_lwrites ls : forall st,
    wd_calls (ws_w st) <= k ->
    match do_lwrites wdest (sched_wstep sc) sh f sw st ls with
    | (st', true) => True
    | (st', false) => wd_calls (ws_w st') = wd_calls (ws_w st) + N.of_nat (length ls) /\ wd_calls (ws_w st') <= k
    end.
  Proof.
    induction ls as [|l r IH]; intros st Hle; cbn [do_lwrites].
    - cbn. lia.
    - unfold do_lwrite. pose proof (phys_checked sh f sw Hsites (lw_site l)) as Hc.
      destruct (phys f sw (lw_site l)) as [s kd]. cbn in Hc.
      destruct (sched_wstep sc (ws_w st) _) as [w' failed] eqn:Es. rewrite Hc, andb_true_r.
      destruct failed; [exact I|].
      unfold sched_wstep in Es. injection Es as Ew Ef.
      assert (Hne : wd_calls (ws_w st) <> k).
      { intro Eq. rewrite Eq, Hk in Ef. rewrite orb_true_r in Ef. discriminate. }
      match goal with |- context [do_lwrites _ _ _ _ _ ?s0 r] => set (st1 := s0) end.
      assert (H1 : wd_calls (ws_w st1) = N.succ (wd_calls (ws_w st))).
      { subst st1. cbn [ws_w]. rewrite <- Ew. reflexivity. }
      specialize (IH st1). destruct (do_lwrites wdest (sched_wstep sc) sh f sw st1 r) as [st' p].
      destruct p; [exact I|]. destruct IH as [IH1 IH2]; [lia|]. split; [rewrite IH1; cbn [length]; lia | exact IH2].
  Qed.

  Lemma sched_events evs : forall st i,
    wd_calls (ws_w st) <= k < wd_calls (ws_w st) + total_writes evs ->
    exists st' j, feed_events wdest (sched_wstep sc) sh f sw st evs i = (st', EncPanicAt j).
  Proof.
    unfold total_writes.
    induction evs as [|e r IH]; intros st i Hr; cbn [feed_events concat] in *.
    - cbn in Hr. lia.
    - pose proof (sched_lwrites e st (proj1 Hr)) as H1.
      destruct (do_lwrites wdest (sched_wstep sc) sh f sw st e) as [st1 p1]. destruct p1.
      + eauto.
      + cbn in H1. rewrite app_length, Nat2N.inj_add in Hr. apply IH. lia.
  Qed.
End SchedWriter.

Lemma write_failure_at_k_reported sh f sw sc k evs :
  wsites_checked sh f -> chk sh (marshal_scope f) = true ->
  mem_N k (wsc_calls sc) = true -> k < total_writes evs ->
  snd (marshal wdest (sched_wstep sc) sh f sw false {| ws_w := wdest0; ws_tr := [] |} evs) = Err.
Proof.
  intros Hs Hg Hk Hlt. unfold marshal.
  destruct (sched_events sh f sw Hs sc k Hk evs {| ws_w := wdest0; ws_tr := [] |} 0) as (st' & j & E).
  { cbn. lia. }
  rewrite E. cbn [snd]. apply guard_panic_err. exact Hg.
Qed.

(* ========================================================================= *)
(* READ SIDE *)

Definition hard (ev : revent) : Prop := rr_err (re_res ev) = EFail.
Definition dirty (ev : revent) : Prop := rr_data (re_res ev) <> [].
(* An event that does not have to end the operation: not a failure, or the one
   thing the current code lets through — a failure that came together with data
   at the ULEB continuation read (only when that site is Weak). *)
Definition ok_event (sh : shape) (ev : revent) : Prop :=
  hard ev -> sh RUlebCont = Weak /\ re_site ev = RUlebCont /\ dirty ev.

Lemma err_at_checked sh s e : chk sh s = true -> err_at sh s e = e.
Proof. intro H. unfold err_at. rewrite H. reflexivity. Qed.

Section SourceProofs.
  Variable S : Type.
  Variable step : S -> N -> S * rres.
  Variable spin : S -> bool.
  Variable sh : shape.
  Hypothesis Hss : shape_sound sh.

  (* Generic invariant carried along a run:
     P  a property of the source state preserved by every call that does not fail,
     Pf what a call returning io.EOF establishes,
     E  a property of every event the source can produce. *)
  Variable P Pf : S -> Prop.
  Variable E : revent -> Prop.
  Hypothesis Hpres : forall s n s' r, P s -> step s n = (s', r) -> rr_err r <> EFail -> P s'.
  Hypothesis Heof : forall s n s' r, P s -> step s n = (s', r) -> rr_err r = EEOF -> Pf s'.
  Hypothesis HE : forall s n s' r site, step s n = (s', r) -> (site = RUlebCont -> n = 1) ->
                                        E {| re_site := site; re_len := n; re_res := r |}.

  Definition nothard (ev : revent) : Prop := ~ hard ev.

  Record Inv (st : rst S) : Prop := {
    inv_ok : Forall (ok_event sh) (rs_tr st);
    inv_E : Forall E (rs_tr st);
    inv_P : Forall nothard (rs_tr st) -> P (rs_src st)
  }.

  Lemma rd_inv st site n st' r :
    Inv st -> rd S step st site n = (st', r) -> (site = RUlebCont -> n = 1) ->
    (rr_err r = EFail -> sh RUlebCont = Weak /\ site = RUlebCont /\ rr_data r <> []) ->
    Inv st'.
  Proof.
    intros [Hok HEv HP] Hrd Hn Hev. unfold rd in Hrd.
    destruct (step (rs_src st) n) as [s' r'] eqn:Es. inversion Hrd; subst; clear Hrd.
    constructor; cbn.
    - constructor; [|exact Hok]. intro Hh. exact (Hev Hh).
    - constructor; [|exact HEv]. eapply HE; eauto.
    - intro Hall. inversion Hall as [|? ? Hh Ht]; subst.
      eapply Hpres; [apply HP; exact Ht | exact Es | exact Hh].
  Qed.

  (* a call whose result is not a failure *)
  Lemma rd_inv_nofail st site n st' r :
    Inv st -> rd S step st site n = (st', r) -> (site = RUlebCont -> n = 1) -> rr_err r <> EFail -> Inv st'.
  Proof. intros. eapply rd_inv; eauto. intro. contradiction. Qed.

  Lemma rd_eof st site n st' r :
    Inv st -> rd S step st site n = (st', r) -> rr_err r = EEOF ->
    Forall nothard (rs_tr st') -> Pf (rs_src st').
  Proof.
    intros [Hok HEv HP] Hrd He Hall. unfold rd in Hrd.
    destruct (step (rs_src st) n) as [s' r'] eqn:Es. inversion Hrd; subst; clear Hrd. cbn in *.
    inversion Hall; subst. eapply Heof; [apply HP; assumption | exact Es | exact He].
  Qed.

  Ltac sites := destruct Hss; try assumption; try discriminate.
  Ltac rdnf := eapply rd_inv_nofail; [eassumption | eassumption | (intro; try reflexivity; discriminate) | congruence].

  Lemma read_uint8_inv st st' r :
    Inv st -> read_uint8 S step sh st = (st', r) -> r <> PPanic -> Inv st'.
  Proof.
    unfold read_uint8. intros HI. destruct (rd S step st RCbeUint8 1) as [st1 r1] eqn:Hrd.
    rewrite err_at_checked by sites.
    destruct (rr_err r1) eqn:Ee; intros H Hn; inversion H; subst; try congruence.
    rdnf.
  Qed.

  Lemma read_type_or_eof_inv st st' r :
    Inv st -> read_type_or_eof S step sh st = (st', r) -> r <> PPanic ->
    Inv st' /\ (r = POk None -> Forall nothard (rs_tr st') -> Pf (rs_src st')).
  Proof.
    unfold read_type_or_eof. intros HI. destruct (rd S step st RCbeTypeOrEOF 1) as [st1 r1] eqn:Hrd.
    rewrite err_at_checked by sites.
    destruct (rr_err r1) eqn:Ee; intros H Hn; inversion H; subst; try congruence.
    - split; [rdnf | discriminate].
    - split; [rdnf |].
      intros _ Hall. eapply rd_eof; eauto.
  Qed.

  Lemma read_into_inv fuel : forall st n acc st' r,
    Inv st -> read_into S step sh fuel st n acc = (st', r) -> r <> PPanic -> Inv st'.
  Proof.
    induction fuel as [|f IH]; intros st n acc st' r HI H Hn; cbn [read_into] in H.
    - inversion H; subst. exact HI.
    - destruct (n =? 0); [inversion H; subst; exact HI|].
      destruct (rd S step st RCbeIntoBuffer n) as [st1 r1] eqn:Hrd.
      rewrite err_at_checked in H by sites.
      destruct (rr_err r1) eqn:Ee; try (inversion H; subst; congruence).
      eapply IH; [|exact H|exact Hn]. rdnf.
  Qed.

  (* what uleb / compact_time hand back, when it is not an error, leaves the invariant intact *)
  Definition ures_ok (st' : rst S) (u : ures) : Prop :=
    match u with
    | UHang => Inv st'
    | URet e _ => e = ENone -> Inv st'
    end.

  Lemma uleb_loop_inv fuel : forall st acc st' u,
    Inv st -> uleb_loop S step sh fuel st acc = (st', u) -> ures_ok st' u.
  Proof.
    induction fuel as [|f IH]; intros st acc st' u HI H; cbn [uleb_loop] in H.
    - inversion H; subst. exact HI.
    - destruct (rd S step st RUlebCont 1) as [st1 r1] eqn:Hrd.
      assert (Hc : sh RUlebCont = Checked \/ sh RUlebCont = Weak).
      { destruct Hss. destruct (sh RUlebCont); auto. congruence. }
      destruct Hc as [Hc|Hc]; unfold chk in H; rewrite Hc in H; cbn [andb] in H.
      + (* repaired variant: any error returns at once *)
        destruct (rr_err r1) eqn:Ee; cbn [is_none negb] in H.
        * assert (HI1 : Inv st1) by (rdnf).
          destruct (rr_data r1) as [|b t]; [inversion H; subst; intros _; exact HI1|].
          destruct (b <? 128); [inversion H; subst; intros _; exact HI1|].
          eapply IH; eauto.
        * inversion H; subst. cbn. discriminate.
        * inversion H; subst. cbn. discriminate.
      + (* current code *)
        cbn [is_none negb] in H.
        destruct (rr_data r1) as [|b t] eqn:Ed.
        * inversion H; subst. cbn. intro Ee. rdnf.
        * assert (HI1 : Inv st1).
          { eapply rd_inv; eauto. intros _. repeat split; auto. rewrite Ed. discriminate. }
          destruct (b <? 128); [inversion H; subst; intros _; exact HI1|].
          eapply IH; eauto.
  Qed.

  Lemma uleb_inv fuel st st' u :
    Inv st -> uleb S step sh fuel st = (st', u) -> ures_ok st' u.
  Proof.
    unfold uleb. intros HI. destruct (rd S step st RUlebFirst 1) as [st1 r1] eqn:Hrd.
    rewrite err_at_checked by sites.
    destruct (rr_err r1) eqn:Ee; intro H; try (inversion H; subst; cbn; discriminate).
    assert (HI1 : Inv st1) by (rdnf).
    destruct (rr_data r1) as [|b t]; [inversion H; subst; intros _; exact HI1|].
    destruct (b <? 128); [inversion H; subst; intros _; exact HI1|].
    eapply uleb_loop_inv; eauto.
  Qed.

  Lemma ct_fill_inv fuel : forall st n acc st' u,
    Inv st -> ct_fill S step sh fuel st n acc = (st', u) -> ures_ok st' u.
  Proof.
    induction fuel as [|f IH]; intros st n acc st' u HI H; cbn [ct_fill] in H.
    - inversion H; subst. exact HI.
    - destruct (n =? 0); [inversion H; subst; intros _; exact HI|].
      destruct (rd S step st RCtFill n) as [st1 r1] eqn:Hrd.
      rewrite err_at_checked in H by sites.
      destruct (rr_err r1) eqn:Ee; try (inversion H; subst; cbn; discriminate).
      eapply IH; [|exact H]. rdnf.
  Qed.

  Lemma ct_byte_inv st st' u :
    Inv st -> ct_byte S step sh st = (st', u) -> ures_ok st' u.
  Proof.
    unfold ct_byte. intros HI. destruct (rd S step st RCtByte 1) as [st1 r1] eqn:Hrd.
    rewrite err_at_checked by sites. intro H. inversion H; subst. cbn.
    intro Ee. rdnf.
  Qed.

  Lemma propagate_inv x st' r :
    ures_ok (fst x) (snd x) -> propagate S sh x = (st', r) -> r <> PPanic -> Inv st'.
  Proof.
    destruct x as [st u]. cbn [fst snd]. unfold propagate. destruct u as [e bs|].
    - rewrite err_at_checked by sites. cbn.
      destruct e; intros Hu H Hn; inversion H; subst; try congruence. apply Hu. reflexivity.
    - cbn. intros Hu H _. inversion H; subst. exact Hu.
  Qed.

  Lemma run_prim_inv fuel p st st' r :
    Inv st -> run_prim S step sh fuel p st = (st', r) -> r <> PPanic ->
    Inv st' /\ (r = POk None -> Forall nothard (rs_tr st') -> Pf (rs_src st')).
  Proof.
    intros HI H Hn.
    assert (Hsome : forall (x : rst S * pres bytes),
      (let '(st1, r1) := x in (st1, match r1 with POk b => POk (Some b) | PPanic => PPanic | PHang => PHang end)) = (st', r) ->
      (forall st1 r1, x = (st1, r1) -> r1 <> PPanic -> Inv st1) ->
      Inv st' /\ (r = POk None -> Forall nothard (rs_tr st') -> Pf (rs_src st'))).
    { intros [st1 r1] Hx Hk. injection Hx as <- <-. split.
      - apply (Hk st1 r1 eq_refl). destruct r1; congruence.
      - destruct r1; discriminate. }
    destruct p; cbn [run_prim] in H.
    - apply Hsome in H; [exact H|]. intros st1 r1 Hx Hr. eapply read_uint8_inv; eauto.
    - eapply read_type_or_eof_inv; eauto.
    - apply Hsome in H; [exact H|]. intros st1 r1 Hx Hr. eapply read_into_inv; eauto.
    - apply Hsome in H; [exact H|]. intros st1 r1 Hx Hr.
      destruct (uleb S step sh fuel st) as [st2 u] eqn:Eu.
      eapply propagate_inv; [|exact Hx|exact Hr]. cbn. eapply uleb_inv; eauto.
    - apply Hsome in H; [exact H|]. intros st1 r1 Hx Hr.
      destruct (ct_byte S step sh st) as [st2 u] eqn:Eu.
      eapply propagate_inv; [|exact Hx|exact Hr]. cbn. eapply ct_byte_inv; eauto.
    - apply Hsome in H; [exact H|]. intros st1 r1 Hx Hr.
      destruct (ct_fill S step sh fuel st n []) as [st2 u] eqn:Eu.
      eapply propagate_inv; [|exact Hx|exact Hr]. cbn. eapply ct_fill_inv; eauto.
  Qed.

  Section DecoderProofs.
    Variable D : Type.
    Variable dnext : D -> action.
    Variable dfeed : D -> bytes -> D.
    Variable dfinal : D -> bool.

    Lemma cbe_loop_inv fuel : forall st d st' o,
      Inv st -> cbe_loop S step spin sh D dnext dfeed dfinal fuel st d = (st', o) -> o = Ok tt ->
      Inv st' /\ (Forall nothard (rs_tr st') -> Pf (rs_src st')).
    Proof.
      induction fuel as [|f IH]; intros st d st' o HI H Ho; cbn [cbe_loop] in H.
      - inversion H; subst. discriminate.
      - destruct (dnext d) as [p|]; [|inversion H; subst; discriminate].
        destruct (run_prim S step sh f p st) as [st1 r1] eqn:Ep.
        destruct (spin (rs_src st1)); [inversion H; subst; discriminate|].
        destruct r1 as [[bs|]| |].
        + apply run_prim_inv in Ep; [|exact HI|discriminate]. destruct Ep as [HI1 _].
          eapply IH; eauto.
        + apply run_prim_inv in Ep; [|exact HI|discriminate]. destruct Ep as [HI1 Hf].
          inversion H; subst. split; [exact HI1|]. intros Hall. apply Hf; auto.
        + inversion H; subst. discriminate.
        + inversion H; subst. discriminate.
    Qed.

    Lemma cbe_decode_inv fuel st d st' o :
      Inv st -> cbe_decode S step spin sh D dnext dfeed dfinal false fuel st d = (st', o) -> o = Ok tt ->
      Inv st' /\ (Forall nothard (rs_tr st') -> Pf (rs_src st')).
    Proof.
      unfold cbe_decode. intros HI.
      destruct (cbe_loop S step spin sh D dnext dfeed dfinal fuel st d) as [st1 o1] eqn:El.
      intros H Ho. injection H as Hst Hg. subst st1. rewrite Ho in Hg.
      eapply cbe_loop_inv; [exact HI | exact El |].
      destruct o1 as [[]| | |]; unfold guard in Hg; try congruence.
      destruct (chk sh GCbeDecode && negb false); discriminate.
    Qed.

    Lemma cbe_unmarshal_inv fuel st d st' o :
      Inv st -> cbe_unmarshal S step spin sh D dnext dfeed dfinal false fuel st d = (st', o) -> o = Ok tt ->
      Inv st' /\ (Forall nothard (rs_tr st') -> Pf (rs_src st')).
    Proof.
      unfold cbe_unmarshal. intros HI.
      destruct (cbe_decode S step spin sh D dnext dfeed dfinal false fuel st d) as [st1 o1] eqn:Ed.
      intros H Ho. injection H as Hst Hg. subst st1. rewrite Ho in Hg.
      eapply cbe_decode_inv; [exact HI | exact Ed |].
      destruct o1 as [[]| | |]; unfold guard in Hg; try congruence.
      destruct (chk sh GCbeUnmarshal && negb false); discriminate.
    Qed.
  End DecoderProofs.

  (* io.Copy without WriteTo *)
  Lemma io_copy_inv fuel : forall st acc st' u,
    Inv st -> io_copy S step fuel st acc = (st', u) -> ures_ok st' u.
  Proof.
    induction fuel as [|f IH]; intros st acc st' u HI H; cbn [io_copy] in H.
    - inversion H; subst. exact HI.
    - destruct (rd S step st RIoCopy copy_buf_size) as [st1 r1] eqn:Hrd.
      destruct (rr_err r1) eqn:Ee.
      + eapply IH; [|exact H]. rdnf.
      + inversion H; subst. cbn. intros _. rdnf.
      + inversion H; subst. cbn. discriminate.
  Qed.

  Variable parse : bytes -> bool.

  Lemma cte_after_copy_inv x st' o :
    ures_ok (fst x) (snd x) -> cte_after_copy S sh parse false x = (st', o) -> o <> Err -> Inv st'.
  Proof.
    destruct x as [st u]. cbn [fst snd]. unfold cte_after_copy. destruct u as [e text|].
    - rewrite err_at_checked by sites.
      destruct e; intros Hu H Hn; inversion H; subst; try congruence. apply Hu. reflexivity.
    - intros Hu H _. inversion H; subst. exact Hu.
  Qed.

  Lemma cte_decode_inv fuel st st' o :
    Inv st -> cte_decode S step sh parse false fuel st = (st', o) -> o <> Err -> Inv st'.
  Proof.
    unfold cte_decode. intros HI H Hn.
    destruct (io_copy S step fuel st []) as [st1 u] eqn:Ec.
    eapply cte_after_copy_inv; [|exact H|exact Hn]. cbn. eapply io_copy_inv; eauto.
  Qed.
End SourceProofs.

(* ------------------------------------------------------------------------- *)
(* small facts *)

Lemma guard_not_panic {A} sh scope (o : outcome A) : chk sh scope = true -> guard sh scope false o <> Panic.
Proof. intro H. unfold guard. destruct o; try discriminate. rewrite H. discriminate. Qed.

Lemma guard_not_err sh scope (o1 : outcome unit) : guard sh scope false o1 <> Err -> o1 <> Err.
Proof. intros H E. subst. apply H. reflexivity. Qed.

Lemma outcome_err_dec (o : outcome unit) : o = Err \/ o <> Err.
Proof. destruct o; auto; right; discriminate. Qed.

Lemma nothard_no_exists tr : Forall nothard tr -> Exists hard tr -> False.
Proof.
  intros Ha He. apply Exists_exists in He. destruct He as (ev & Hin & Hh).
  rewrite Forall_forall in Ha. exact (Ha ev Hin Hh).
Qed.

Lemma exists_hard_dec tr : Exists hard tr \/ Forall nothard tr.
Proof.
  induction tr as [|ev r IH]; [right; constructor|].
  destruct IH as [IH|IH]; [left; right; exact IH|].
  destruct (rr_err (re_res ev)) eqn:Ee.
  - right. constructor; [unfold nothard, hard; congruence | exact IH].
  - right. constructor; [unfold nothard, hard; congruence | exact IH].
  - left. left. exact Ee.
Qed.

Lemma rd_utr S step (u : rst S) site n u' r :
  rd S step u site n = (u', r) ->
  rs_tr u' = {| re_site := site; re_len := n; re_res := r |} :: rs_tr u /\ step (rs_src u) n = (rs_src u', r).
Proof. unfold rd. destruct (step (rs_src u) n). intro H. inversion H; subst. split; reflexivity. Qed.

Definition rd0 {S} (s0 : S) : rst S := {| rs_src := s0; rs_tr := [] |}.

(* the ULEB continuation read never sees data together with an error *)
Definition Eclean (ev : revent) : Prop := re_site ev = RUlebCont -> hard ev -> rr_data (re_res ev) = [].

Lemma client_nothard sh (tr : list revent) :
  Forall (ok_event sh) tr -> Forall Eclean tr -> Forall nothard tr.
Proof.
  intros Hok HE. rewrite Forall_forall in *. intros ev Hin Hh.
  destruct (Hok ev Hin Hh) as (_ & Hs & Hd). apply Hd. exact (HE ev Hin Hs Hh).
Qed.

(* ------------------------------------------------------------------------- *)
(* The normalising layer (cbe Reader.Read) over any source T *)

Section NormProofs.
  Variable T : Type.
  Variable stepT : T -> N -> T * rres.
  Variable sh : shape.
  Hypothesis Hss : shape_sound sh.
  Variable P Pf : T -> Prop.
  Hypothesis Hpres : forall s n s' r, P s -> stepT s n = (s', r) -> rr_err r <> EFail -> P s'.
  Hypothesis Heof : forall s n s' r, P s -> stepT s n = (s', r) -> rr_err r = EEOF -> Pf s'.

  Definition mtr (b : nst T) : list revent := rs_tr (n_under b).
  (* a failure of the source is remembered; an EOF of the source was a real EOF *)
  Record PN (b : nst T) : Prop := {
    pn_hard : Exists hard (mtr b) -> n_pend b = EFail;
    pn_P : Forall nothard (mtr b) -> P (rs_src (n_under b));
    pn_eof : n_pend b = EEOF -> Pf (rs_src (n_under b))
  }.
  Definition PfN (b : nst T) : Prop := Forall nothard (mtr b) /\ Pf (rs_src (n_under b)).

  Definition n_res (b' : nst T) (r : rres) : Prop :=
    (rr_err r <> EFail -> PN b') /\ (rr_err r = EEOF -> PfN b') /\ (rr_data r <> [] -> rr_err r = ENone).

  Lemma PN_intro_nohard (b : nst T) :
    Forall nothard (mtr b) -> P (rs_src (n_under b)) -> (n_pend b = EEOF -> Pf (rs_src (n_under b))) -> PN b.
  Proof.
    intros Hn HP He. constructor; auto.
    intro Hex. exfalso. eapply nothard_no_exists; eassumption.
  Qed.

  Lemma n_retry_res i : forall b n b' r,
    Forall nothard (mtr b) -> P (rs_src (n_under b)) -> n_pend b = ENone ->
    n_retry T stepT sh i b n = (b', r) -> n_res b' r.
  Proof.
    induction i as [|j IH]; intros b n b' r Hn HP Hp H; cbn [n_retry] in H.
    - inversion H; subst. unfold n_res. cbn [rr_err rr_data]. split; [|split].
      + intros _. apply PN_intro_nohard; cbn; auto. rewrite Hp. discriminate.
      + discriminate.
      + congruence.
    - destruct (rd T stepT (n_under b) RCbeRead n) as [u' r0] eqn:Hrd.
      apply rd_utr in Hrd. destruct Hrd as [Htr Hst].
      rewrite err_at_checked in H by (destruct Hss; assumption).
      assert (Hstep : rr_err r0 <> EFail -> Forall nothard (rs_tr u') /\ P (rs_src u')).
      { intro Hne. split.
        - rewrite Htr. constructor; [exact Hne | exact Hn].
        - eapply Hpres; [exact HP | exact Hst | exact Hne]. }
      destruct (rr_data r0) as [|x t] eqn:Ed.
      + destruct (rr_err r0) eqn:Ee.
        * destruct Hstep as [Hn' HP']; [discriminate|].
          eapply IH; [| | |exact H]; cbn; auto.
        * destruct Hstep as [Hn' HP']; [discriminate|].
          assert (HPf : Pf (rs_src u')) by (eapply Heof; [exact HP | exact Hst | exact Ee]).
          inversion H; subst. unfold n_res. cbn [rr_err rr_data]. split; [|split].
          -- intros _. apply PN_intro_nohard; cbn; auto.
          -- intros _. split; cbn; auto.
          -- congruence.
        * inversion H; subst. unfold n_res. cbn [rr_err rr_data]. split; [|split]; congruence.
      + inversion H; subst. unfold n_res. cbn [rr_err rr_data]. split; [|split].
        * intros _. constructor; cbn.
          -- intro Hex. unfold mtr in Hex. cbn in Hex. rewrite Htr in Hex.
             inversion Hex as [? ? Hh|? ? Ht]; subst; [exact Hh | exfalso; eapply nothard_no_exists; eassumption].
          -- intro Hall. unfold mtr in Hall. cbn in Hall. rewrite Htr in Hall. inversion Hall as [|? ? Hh Ht]; subst.
             eapply Hpres; [exact HP | exact Hst | exact Hh].
          -- intro Ee. eapply Heof; [exact HP | exact Hst | exact Ee].
        * discriminate.
        * reflexivity.
  Qed.

  Lemma n_read_res b n b' r : PN b -> n_read T stepT sh b n = (b', r) -> n_res b' r.
  Proof.
    intros HPN H. pose proof HPN as [Hh HP He]. unfold n_read in H. destruct (n =? 0).
    - inversion H; subst. unfold n_res. cbn [rr_err rr_data]. split; [intros _; exact HPN | split; congruence].
    - destruct (n_pend b) eqn:Ep.
      + assert (Hn : Forall nothard (mtr b)).
        { destruct (exists_hard_dec (mtr b)) as [Hex|Hn]; [|exact Hn]. apply Hh in Hex. congruence. }
        eapply n_retry_res; [exact Hn | apply HP; exact Hn | exact Ep | exact H].
      + inversion H; subst. unfold n_res. cbn [rr_err rr_data]. split; [intros _; exact HPN | split; [|congruence]].
        intros _. split; [|apply He; reflexivity].
        destruct (exists_hard_dec (mtr b')) as [Hex|Hn]; [|exact Hn]. apply Hh in Hex. congruence.
      + inversion H; subst. unfold n_res. cbn [rr_err rr_data]. split; [|split]; congruence.
  Qed.

  Lemma n_read_pres b n b' r : PN b -> n_read T stepT sh b n = (b', r) -> rr_err r <> EFail -> PN b'.
  Proof. intros HP H. apply (n_read_res _ _ _ _ HP H). Qed.
  Lemma n_read_eof b n b' r : PN b -> n_read T stepT sh b n = (b', r) -> rr_err r = EEOF -> PfN b'.
  Proof. intros HP H. apply (n_read_res _ _ _ _ HP H). Qed.
  Lemma n_retry_clean i : forall b n b' r,
    n_retry T stepT sh i b n = (b', r) -> rr_data r <> [] -> rr_err r = ENone.
  Proof.
    induction i as [|j IH]; intros b n b' r H; cbn [n_retry] in H.
    - inversion H; subst. cbn. congruence.
    - destruct (rd T stepT (n_under b) RCbeRead n) as [u' r0].
      destruct (rr_data r0) as [|x t].
      + destruct (err_at sh RCbeRead (rr_err r0)); [eapply IH; exact H | inversion H; subst; cbn; congruence ..].
      + inversion H; subst. reflexivity.
  Qed.

  Lemma n_read_E s n s' r site :
    n_read T stepT sh s n = (s', r) -> (site = RUlebCont -> n = 1) ->
    Eclean {| re_site := site; re_len := n; re_res := r |}.
  Proof.
    intros H _ _ Hh. cbn in *. unfold hard in Hh. cbn in Hh.
    destruct (rr_data r) eqn:Ed; [reflexivity|exfalso].
    assert (He : rr_err r = ENone); [|congruence].
    unfold n_read in H. destruct (n =? 0); [inversion H; subst; cbn in Ed; discriminate|].
    destruct (n_pend s); [|inversion H; subst; cbn in Ed; discriminate ..].
    eapply n_retry_clean; [exact H | rewrite Ed; discriminate].
  Qed.

  (* The CBE entry points over the layer: success means the source never failed (and Pf of its state). *)
  Variable D : Type.
  Variable dnext : D -> action.
  Variable dfeed : D -> bytes -> D.
  Variable dfinal : D -> bool.

  Lemma cbe_entry_ok unm fuel (u : rst T) d u' o :
    rs_tr u = [] -> P (rs_src u) ->
    cbe_entry T stepT sh D dnext dfeed dfinal unm false fuel u d = (u', o) ->
    o = Ok tt -> Forall nothard (rs_tr u') /\ Pf (rs_src u').
  Proof.
    intros Htr HP0. unfold cbe_entry.
    set (st0 := {| rs_src := norm0 T u; rs_tr := [] |}).
    assert (HI0 : Inv (nst T) sh PN Eclean st0).
    { constructor; cbn; [constructor | constructor |]. intros _. constructor; cbn.
      - unfold mtr. cbn. rewrite Htr. intro Hex. inversion Hex.
      - intros _. exact HP0.
      - discriminate. }
    assert (Hfin : forall st', Inv (nst T) sh PN Eclean st' /\ (Forall nothard (rs_tr st') -> PfN (rs_src st')) ->
                               PfN (rs_src st')).
    { intros st' [[Hok HE _] Hf]. apply Hf. apply (client_nothard sh); assumption. }
    destruct unm.
    - destruct (cbe_unmarshal _ _ _ _ _ _ _ _ _ _ _ _) as [st' o'] eqn:Er. intros H Ho. inversion H; subst.
      apply Hfin.
      eapply (cbe_unmarshal_inv (nst T) (n_read T stepT sh) n_spin sh Hss PN PfN Eclean); eauto using n_read_pres, n_read_eof, n_read_E.
    - destruct (cbe_decode _ _ _ _ _ _ _ _ _ _ _ _) as [st' o'] eqn:Er. intros H Ho. inversion H; subst.
      apply Hfin.
      eapply (cbe_decode_inv (nst T) (n_read T stepT sh) n_spin sh Hss PN PfN Eclean); eauto using n_read_pres, n_read_eof, n_read_E.
  Qed.
End NormProofs.

(* ------------------------------------------------------------------------- *)
(* CTE on the caller's reader (io.Copy): every failure is reported as the returned error *)

Definition triv_inv S sh (st : rst S) : Forall (ok_event sh) (rs_tr st) ->
  Inv S sh (fun _ => True) (fun _ => True) st.
Proof. intro H. constructor; auto. apply Forall_forall. auto. Qed.

Section DirectCte.
  Variable S : Type.
  Variable step : S -> N -> S * rres.
  Variable sh : shape.
  Hypothesis Hsh : all_checked_but_uleb sh = true.
  Let Hss : shape_sound sh := shape_sound_of_but_uleb sh Hsh.
  Variable parse : bytes -> bool.

  Lemma cte_decode_no_failure fuel s0 st' o :
    cte_decode S step sh parse false fuel {| rs_src := s0; rs_tr := [] |} = (st', o) ->
    o <> Err -> Forall (ok_event sh) (rs_tr st').
  Proof.
    intros H Hn.
    eapply (cte_decode_inv S step sh Hss (fun _ => True) (fun _ => True)) in H; auto.
    - destruct H as [Hok _ _]. exact Hok.
    - apply triv_inv. constructor.
  Qed.

  Lemma cte_unmarshal_no_failure fuel s0 st' o :
    cte_unmarshal S step sh parse false fuel {| rs_src := s0; rs_tr := [] |} = (st', o) ->
    o <> Err -> Forall (ok_event sh) (rs_tr st').
  Proof.
    unfold cte_unmarshal.
    destruct (cte_decode S step sh parse false fuel _) as [st1 o1] eqn:Ed.
    intros H Hn. inversion H; subst; clear H.
    eapply cte_decode_no_failure; [exact Ed|]. eapply guard_not_err; exact Hn.
  Qed.
End DirectCte.

(* CTE sites are never the ULEB site: every failure is fatal there *)
Lemma io_copy_sites S step fuel : forall st acc st' u,
  io_copy S step fuel st acc = (st', u) ->
  Forall (fun ev => re_site ev <> RUlebCont) (rs_tr st) -> Forall (fun ev => re_site ev <> RUlebCont) (rs_tr st').
Proof.
  induction fuel as [|f IH]; intros st acc st' u H Hall; cbn [io_copy] in H.
  - inversion H; subst. exact Hall.
  - unfold rd in H. destruct (step (rs_src st) copy_buf_size) as [s' r].
    assert (Hall' : Forall (fun ev => re_site ev <> RUlebCont)
                      ({| re_site := RIoCopy; re_len := copy_buf_size; re_res := r |} :: rs_tr st)).
    { constructor; [discriminate | exact Hall]. }
    destruct (rr_err r); [eapply IH; [exact H | exact Hall'] | inversion H; subst; exact Hall' ..].
Qed.

Lemma cte_decode_sites S step sh parse fuel s0 st' o :
  cte_decode S step sh parse false fuel {| rs_src := s0; rs_tr := [] |} = (st', o) ->
  Forall (fun ev => re_site ev <> RUlebCont) (rs_tr st').
Proof.
  unfold cte_decode, cte_after_copy.
  destruct (io_copy S step fuel _ []) as [st1 u] eqn:Ec. apply io_copy_sites in Ec; [|constructor].
  destruct u as [e text|]; [destruct (err_at sh RCteCopy e)|]; intro H; inversion H; subst; exact Ec.
Qed.

(* ------------------------------------------------------------------------- *)
(* bufio.Reader *)

Section BufioProofs.
  Variable S : Type.
  Variable step : S -> N -> S * rres.

  Definition utr (b : bst S) : list revent := rs_tr (b_under b).
  (* a failure of the caller's reader that has not been handed on is pending in b.err *)
  Definition Pb (b : bst S) : Prop := Exists hard (utr b) -> b_err b = EFail.
  Definition Pfb (b : bst S) : Prop := Forall nothard (utr b).

  Lemma b_fill_loop_P i : forall b, Forall nothard (utr b) -> Pb (b_fill_loop S step i b).
  Proof.
    induction i as [|j IH]; intros b Hn; cbn [b_fill_loop].
    - intros _. reflexivity.
    - destruct (rd S step (b_under b) RBufioFill _) as [u' r] eqn:Hrd. apply rd_utr in Hrd; destruct Hrd as [Hrd _].
      destruct (rr_err r) eqn:Ee.
      + assert (Hn' : Forall nothard (rs_tr u')).
        { rewrite Hrd. constructor; [unfold nothard, hard; cbn; congruence | exact Hn]. }
        destruct (rr_data r); [apply IH; exact Hn'|].
        intro Hex. exfalso. eapply nothard_no_exists; [exact Hn' | exact Hex].
      + intro Hex. exfalso. unfold utr in Hex. cbn in Hex. rewrite Hrd in Hex.
        inversion Hex as [? ? Hh|? ? Ht]; subst; [unfold hard in Hh; cbn in Hh; congruence|].
        eapply nothard_no_exists; eassumption.
      + intros _. reflexivity.
  Qed.

  Definition fresh (u : rst S) : bst S := {| b_buf := []; b_err := ENone; b_under := u |}.

  Lemma b_fill_P b : Forall nothard (utr b) -> Pb (b_fill S step b).
  Proof. intro H. unfold b_fill. apply b_fill_loop_P. exact H. Qed.

  Lemma b_peek1_P u b1 x :
    Forall nothard (rs_tr u) -> b_peek1 S step (fresh u) = (b1, Some x) -> Pb b1 /\ b_buf b1 <> [].
  Proof.
    unfold b_peek1, fresh. cbn [b_buf b_err]. intros Hn.
    pose proof (b_fill_P {| b_buf := []; b_err := ENone; b_under := u |} Hn) as HP.
    remember (b_fill S step {| b_buf := []; b_err := ENone; b_under := u |}) as bf eqn:Ebf. clear Ebf.
    destruct (b_buf bf) eqn:Eb1; intro H; inversion H; subst.
    split; [exact HP | rewrite Eb1; discriminate].
  Qed.

  (* B1: a small Read never returns data together with an error *)
  Lemma b_read_clean b n b' r :
    b_read S step b n = (b', r) -> n < bufio_size -> rr_err r = EFail -> rr_data r = [].
  Proof.
    unfold b_read. intros H Hlt He.
    destruct (b_buf b) as [|x t].
    - destruct (b_err b).
      + assert (Hb : (bufio_size <=? n) = false) by (apply N.leb_gt; exact Hlt). rewrite Hb in H.
        destruct (rd S step (b_under b) RBufioRead bufio_size) as [u' r0].
        destruct (rr_data r0) as [|y t0].
        * inversion H; subst. reflexivity.
        * destruct (take_n n (y :: t0)). inversion H; subst. cbn in He. discriminate.
      + inversion H; subst. reflexivity.
      + inversion H; subst. reflexivity.
    - destruct (take_n n (x :: t)). inversion H; subst. cbn in He. discriminate.
  Qed.

  Lemma b_read_pres b n b' r :
    Pb b -> b_read S step b n = (b', r) -> rr_err r <> EFail -> Pb b'.
  Proof.
    unfold b_read. intros HP H Hne.
    destruct (b_buf b) as [|x t] eqn:Ebuf.
    - destruct (b_err b) eqn:Eerr.
      + assert (Hno : Forall nothard (utr b)).
        { destruct (exists_hard_dec (utr b)) as [Hex|Hno]; [|exact Hno]. apply HP in Hex. congruence. }
        destruct (bufio_size <=? n).
        * destruct (rd S step (b_under b) RBufioDirect n) as [u' r0] eqn:Hrd. apply rd_utr in Hrd; destruct Hrd as [Hrd _].
          inversion H; subst. intro Hex. exfalso. unfold utr in Hex. cbn in Hex. rewrite Hrd in Hex.
          inversion Hex as [? ? Hh|? ? Ht]; subst; [exact (Hne Hh) | eapply nothard_no_exists; eassumption].
        * destruct (rd S step (b_under b) RBufioRead bufio_size) as [u' r0] eqn:Hrd. apply rd_utr in Hrd; destruct Hrd as [Hrd _].
          destruct (rr_data r0) as [|y t0].
          -- inversion H; subst. cbn in Hne. intro Hex. exfalso. unfold utr in Hex. cbn in Hex. rewrite Hrd in Hex.
             inversion Hex as [? ? Hh|? ? Ht]; subst; [exact (Hne Hh) | eapply nothard_no_exists; eassumption].
          -- destruct (take_n n (y :: t0)). inversion H; subst. intro Hex. unfold utr in Hex. cbn in Hex. rewrite Hrd in Hex.
             cbn. inversion Hex as [? ? Hh|? ? Ht]; subst; [exact Hh | exfalso; eapply nothard_no_exists; eassumption].
      + inversion H; subst. intro Hex. apply HP in Hex. congruence.
      + inversion H; subst. cbn in Hne. congruence.
    - destruct (take_n n (x :: t)). inversion H; subst. exact HP.
  Qed.

  Lemma b_read_eof b n b' r :
    Pb b -> b_read S step b n = (b', r) -> rr_err r = EEOF -> Pfb b'.
  Proof.
    unfold b_read. intros HP H He.
    destruct (b_buf b) as [|x t] eqn:Ebuf.
    - destruct (b_err b) eqn:Eerr.
      + assert (Hno : Forall nothard (utr b)).
        { destruct (exists_hard_dec (utr b)) as [Hex|Hno]; [|exact Hno]. apply HP in Hex. congruence. }
        destruct (bufio_size <=? n).
        * destruct (rd S step (b_under b) RBufioDirect n) as [u' r0] eqn:Hrd. apply rd_utr in Hrd; destruct Hrd as [Hrd _].
          inversion H; subst. unfold Pfb, utr. cbn. rewrite Hrd.
          constructor; [unfold nothard, hard; cbn; congruence | exact Hno].
        * destruct (rd S step (b_under b) RBufioRead bufio_size) as [u' r0] eqn:Hrd. apply rd_utr in Hrd; destruct Hrd as [Hrd _].
          destruct (rr_data r0) as [|y t0].
          -- inversion H; subst. cbn in He. unfold Pfb, utr. cbn. rewrite Hrd.
             constructor; [unfold nothard, hard; cbn; congruence | exact Hno].
          -- destruct (take_n n (y :: t0)). inversion H; subst. cbn in He. discriminate.
      + inversion H; subst. unfold Pfb, utr. cbn.
        destruct (exists_hard_dec (utr b)) as [Hex|Hno]; [|exact Hno]. apply HP in Hex. congruence.
      + inversion H; subst. cbn in He. discriminate.
    - destruct (take_n n (x :: t)). inversion H; subst. cbn in He. discriminate.
  Qed.

  (* WriteTo: with a reader that never returns data together with an error *)
  Definition clean_source : Prop := forall s n s' r, step s n = (s', r) -> rr_err r = EFail -> rr_data r = [].
  Hypothesis Hclean : clean_source.

  Definition J (b : bst S) : Prop := Forall nothard (utr b) \/ (b_err b = EFail /\ b_buf b = []).

  Lemma rd_clean (u : rst S) site n u' r : rd S step u site n = (u', r) -> rr_err r = EFail -> rr_data r = [].
  Proof. unfold rd. destruct (step (rs_src u) n) as [s' r'] eqn:Es. intro H. inversion H; subst. eapply Hclean; eauto. Qed.

  Lemma b_fill_loop_J i : forall b, Forall nothard (utr b) -> b_buf b = [] -> J (b_fill_loop S step i b).
  Proof.
    induction i as [|j IH]; intros b Hn Hb; cbn [b_fill_loop].
    - right. split; [reflexivity | exact Hb].
    - destruct (rd S step (b_under b) RBufioFill _) as [u' r] eqn:Hrd.
      pose proof (rd_clean _ _ _ _ _ Hrd) as Hc. apply rd_utr in Hrd; destruct Hrd as [Hrd _].
      destruct (rr_err r) eqn:Ee.
      + assert (Hn' : Forall nothard (rs_tr u')).
        { rewrite Hrd. constructor; [unfold nothard, hard; cbn; congruence | exact Hn]. }
        destruct (rr_data r) eqn:Ed; [apply IH; [exact Hn' | cbn; rewrite Hb; reflexivity]|].
        left. exact Hn'.
      + left. unfold utr. cbn. rewrite Hrd. constructor; [unfold nothard, hard; cbn; congruence | exact Hn].
      + right. cbn. split; [reflexivity|]. rewrite Hb, (Hc eq_refl). reflexivity.
  Qed.

  Lemma b_fill_J b : Forall nothard (utr b) -> b_buf b = [] -> J (b_fill S step b).
  Proof. intros H Hb. unfold b_fill. apply b_fill_loop_J; assumption. Qed.

  Lemma b_peek1_J u b1 x :
    Forall nothard (rs_tr u) -> b_peek1 S step (fresh u) = (b1, Some x) -> Forall nothard (utr b1).
  Proof.
    unfold b_peek1, fresh. cbn [b_buf b_err]. intros Hn.
    pose proof (b_fill_J {| b_buf := []; b_err := ENone; b_under := u |} Hn eq_refl) as HJ.
    remember (b_fill S step {| b_buf := []; b_err := ENone; b_under := u |}) as bf eqn:Ebf. clear Ebf.
    destruct (b_buf bf) eqn:Eb1; intro H; inversion H; subst.
    destruct HJ as [HJ|[_ HJ]]; [exact HJ | congruence].
  Qed.

  Lemma b_writeto_loop_J fuel : forall b acc b2 r,
    J b -> b_writeto_loop S step fuel b acc = (b2, r) ->
    match r with URet e _ => e = ENone -> Forall nothard (utr b2) | UHang => True end.
  Proof.
    induction fuel as [|f IH]; intros b acc b2 r HJ H; cbn [b_writeto_loop] in H.
    - inversion H; subst. exact I.
    - destruct (b_buf b) as [|x t] eqn:Ebuf.
      + inversion H; subst. intro He. unfold utr. cbn [b_under].
        destruct HJ as [HJ|[HJ _]]; [exact HJ|]. rewrite HJ in He. discriminate.
      + assert (Hn : Forall nothard (utr b)) by (destruct HJ as [HJ|[_ HJ]]; [exact HJ | congruence]).
        eapply IH; [|exact H]. apply b_fill_J; [exact Hn | reflexivity].
  Qed.

  Lemma b_writeto_J fuel b b2 r :
    Forall nothard (utr b) -> b_writeto S step fuel b = (b2, r) ->
    match r with URet e _ => e = ENone -> Forall nothard (utr b2) | UHang => True end.
  Proof.
    unfold b_writeto. intros Hn H. eapply b_writeto_loop_J; [|exact H].
    apply b_fill_J; [exact Hn | reflexivity].
  Qed.
End BufioProofs.

(* ------------------------------------------------------------------------- *)
(* CBE entry points on the caller's reader, and the universal entry points *)

Lemma cbe_entry_never_panics S step sh D dnext dfeed dfinal unm fuel u d u' o :
  shape_sound sh ->
  cbe_entry S step sh D dnext dfeed dfinal unm false fuel u d = (u', o) -> o <> Panic.
Proof.
  intros Hss. unfold cbe_entry. destruct unm.
  - unfold cbe_unmarshal. destruct (cbe_decode _ _ _ _ _ _ _ _ _ _ _ _) as [st1 o1].
    intro H. inversion H; subst. apply guard_not_panic. destruct Hss; assumption.
  - unfold cbe_decode. destruct (cbe_loop _ _ _ _ _ _ _ _ _ _ _) as [st1 o1].
    intro H. inversion H; subst. apply guard_not_panic. destruct Hss; assumption.
Qed.

Section UniversalProofs.
  Variable S : Type.
  Variable step : S -> N -> S * rres.
  Variable sh : shape.
  Hypothesis Hsh : all_checked_but_uleb sh = true.
  Variable D : Type.
  Variable dnext : D -> action.
  Variable dfeed : D -> bytes -> D.
  Variable dfinal : D -> bool.
  Variable parse : bytes -> bool.

  Let Hss : shape_sound sh := shape_sound_of_but_uleb sh Hsh.

  (* UnmarshalCBE / cbe Decode on the caller's reader *)
  Lemma cbe_direct_ok unm fuel s0 d u' o :
    cbe_entry S step sh D dnext dfeed dfinal unm false fuel (rd0 s0) d = (u', o) ->
    o = Ok tt -> Forall nothard (rs_tr u').
  Proof.
    intros H Ho.
    eapply (cbe_entry_ok S step sh Hss (fun _ => True) (fun _ => True)) in H; eauto.
    destruct H as [H _]. exact H.
  Qed.

  (* the first byte the universal entry point sees (None: Peek failed) *)
  Definition first_byte (s0 : S) : option N := snd (b_peek1 S step (fresh S (rd0 s0))).

  Lemma uni_cbe_branch unm fuel b1 d m o :
    Pb S b1 ->
    cbe_entry (bst S) (b_read S step) sh D dnext dfeed dfinal unm false fuel {| rs_src := b1; rs_tr := [] |} d = (m, o) ->
    o = Ok tt -> Forall nothard (rs_tr (b_under (rs_src m))).
  Proof.
    intros HP H Ho.
    eapply (cbe_entry_ok (bst S) (b_read S step) sh Hss (Pb S) (Pfb S)) in H; eauto.
    - destruct H as [_ H]. exact H.
    - intros; eapply b_read_pres; eassumption.
    - intros; eapply b_read_eof; eassumption.
  Qed.

  Lemma cte_after_copy_not_panic (T : Type) (x : rst T * ures) st o :
    cte_after_copy T sh parse false x = (st, o) -> o <> Panic.
  Proof.
    destruct x as [st0 u]. unfold cte_after_copy. destruct u as [e text|].
    - destruct (err_at sh RCteCopy e); intro H; inversion H; subst; try discriminate.
      apply guard_not_panic. destruct Hss; assumption.
    - intro H. inversion H; subst. discriminate.
  Qed.

  Lemma universal_never_panics unm fuel s0 d u' o :
    universal S step sh D dnext dfeed dfinal parse unm false fuel (rd0 s0) d = (u', o) -> o <> Panic.
  Proof.
    unfold universal.
    destruct (b_peek1 S step _) as [b1 first]. destruct first as [x|].
    - destruct (choose x).
      + destruct (b_writeto S step fuel b1) as [b2 r].
        destruct (cte_after_copy (bst S) sh parse false _) as [st1 o1] eqn:Ea.
        apply cte_after_copy_not_panic in Ea.
        intro H. inversion H; subst. destruct unm; [|exact Ea].
        apply guard_not_panic. destruct Hss; assumption.
      + destruct (cbe_entry _ _ _ _ _ _ _ _ _ _ _ _) as [m o1] eqn:Ee.
        apply cbe_entry_never_panics in Ee; [|exact Hss]. intro H. inversion H; subst. exact Ee.
      + intro H. inversion H; subst. discriminate.
    - assert (Hc : chk sh (if unm then RCePeekUnmarshal else RCePeekDecode) = true) by (destruct unm; destruct Hss; assumption).
      rewrite Hc. intro H. inversion H; subst. discriminate.
  Qed.

  (* CBE documents: for every reader *)
  Lemma universal_cbe_ok unm fuel s0 d u' o x :
    first_byte s0 = Some x -> choose x = UCbe ->
    universal S step sh D dnext dfeed dfinal parse unm false fuel (rd0 s0) d = (u', o) ->
    o = Ok tt -> Forall nothard (rs_tr u').
  Proof.
    unfold first_byte, universal, fresh. intros Hf Hc.
    destruct (b_peek1 S step _) as [b1 first] eqn:Ep. cbn in Hf. subst first. rewrite Hc.
    apply b_peek1_P in Ep; [|constructor]. destruct Ep as [HP _].
    destruct (cbe_entry _ _ _ _ _ _ _ _ _ _ _ _) as [m o1] eqn:Ee.
    intros H Ho. inversion H; subst. eapply uni_cbe_branch; eauto.
  Qed.

  (* every document, readers that never return data together with an error *)
  Lemma universal_clean_ok unm fuel s0 d u' o :
    clean_source S step ->
    universal S step sh D dnext dfeed dfinal parse unm false fuel (rd0 s0) d = (u', o) ->
    o = Ok tt -> Forall nothard (rs_tr u').
  Proof.
    intros Hclean. unfold universal.
    destruct (b_peek1 S step _) as [b1 first] eqn:Ep. destruct first as [x|].
    - destruct (choose x) eqn:Hc.
      + apply b_peek1_J in Ep; [|exact Hclean|constructor].
        destruct (b_writeto S step fuel b1) as [b2 r] eqn:Ew.
        apply b_writeto_J in Ew; [|exact Hclean|exact Ep].
        unfold cte_after_copy. destruct r as [e text|].
        * rewrite err_at_checked by (destruct Hss; assumption).
          destruct e; intros H Ho; inversion H; subst; cbn [rs_src]; try (destruct unm; discriminate).
          apply Ew. reflexivity.
        * intros H Ho. inversion H; subst. destruct unm; discriminate.
      + apply b_peek1_P in Ep; [|constructor]. destruct Ep as [HP _].
        destruct (cbe_entry _ _ _ _ _ _ _ _ _ _ _ _) as [m o1] eqn:Ee.
        intros H Ho. inversion H; subst. eapply uni_cbe_branch; eauto.
      + intros H Ho. inversion H; subst. discriminate.
    - destruct (chk sh _); intros H Ho; inversion H; subst; discriminate.
  Qed.
End UniversalProofs.

(* ========================================================================= *)
(* Statements in the form used by Props/C29.v *)

Lemma write_marshal_reported :
  forall (W : Type) (wstep : W -> wcall -> W * bool) (sh : shape) (f : wfmt) (sw : bool) (w0 : W)
         (evs : list (list lwrite)) st' o,
    all_checked_but_uleb sh = true ->
    marshal W wstep sh f sw false {| ws_w := w0; ws_tr := [] |} evs = (st', o) ->
    (Exists wfailed (ws_tr st') -> o = Err) /\ (Forall wclean (ws_tr st') -> o = Ok tt).
Proof.
  intros W wstep sh f sw w0 evs st' o Hsh H.
  pose proof (shape_sound_of_but_uleb sh Hsh) as Hss.
  eapply marshal_reports in H; [|apply wsites_of_sound; exact Hss|destruct Hss, f; assumption].
  destruct H as (tr & Et & H1 & H2). cbn in Et. rewrite app_nil_r in Et. rewrite Et. split; assumption.
Qed.

Lemma write_encoder_reported :
  forall (W : Type) (wstep : W -> wcall -> W * bool) (sh : shape) (f : wfmt) (sw : bool) (w0 : W)
         (evs : list (list lwrite)) st' o,
    all_checked_but_uleb sh = true ->
    feed_events W wstep sh f sw {| ws_w := w0; ws_tr := [] |} evs 0 = (st', o) ->
    (Exists wfailed (ws_tr st') -> exists i, o = EncPanicAt i /\ i < N.of_nat (length evs)) /\
    (Forall wclean (ws_tr st') -> o = EncDone).
Proof.
  intros W wstep sh f sw w0 evs st' o Hsh H.
  pose proof (shape_sound_of_but_uleb sh Hsh) as Hss.
  eapply encoder_reports in H; [|apply wsites_of_sound; exact Hss].
  destruct H as (tr & Et & H1 & H2). cbn in Et. rewrite app_nil_r in Et. rewrite Et. split; assumption.
Qed.

Lemma write_failure_schedule_reported :
  forall (sh : shape) (f : wfmt) (sw : bool) (sc : wsched) (k : N) (evs : list (list lwrite)),
    all_checked_but_uleb sh = true ->
    mem_N k (wsc_calls sc) = true -> k < total_writes evs ->
    snd (marshal wdest (sched_wstep sc) sh f sw false {| ws_w := wdest0; ws_tr := [] |} evs) = Err.
Proof.
  intros sh f sw sc k evs Hsh Hk Hlt.
  pose proof (shape_sound_of_but_uleb sh Hsh) as Hss.
  apply (write_failure_at_k_reported sh f sw sc k evs); auto.
  - apply wsites_of_sound; exact Hss.
  - destruct Hss, f; assumption.
Qed.

Lemma read_cbe_full :
  forall (S : Type) (step : S -> N -> S * rres) (sh : shape) (D : Type) (dnext : D -> action)
         (dfeed : D -> bytes -> D) (dfinal : D -> bool) (unm : bool) (fuel : nat) (s0 : S) (d : D) u' o,
    all_checked_but_uleb sh = true ->
    cbe_entry S step sh D dnext dfeed dfinal unm false fuel (rd0 s0) d = (u', o) ->
    Exists hard (rs_tr u') -> o <> Ok tt /\ o <> Panic.
Proof.
  intros S step sh D dnext dfeed dfinal unm fuel s0 d u' o Hsh H Hex. split.
  - intro Ho. eapply nothard_no_exists; [|exact Hex]. eapply cbe_direct_ok; eauto.
  - eapply cbe_entry_never_panics; [apply shape_sound_of_but_uleb; exact Hsh | exact H].
Qed.

Lemma read_cte_full :
  forall (S : Type) (step : S -> N -> S * rres) (sh : shape) (parse : bytes -> bool)
         (unm : bool) (fuel : nat) (s0 : S) st' o,
    all_checked_but_uleb sh = true ->
    (if unm then cte_unmarshal S step sh parse false fuel (rd0 s0)
     else cte_decode S step sh parse false fuel (rd0 s0)) = (st', o) ->
    Exists hard (rs_tr st') -> o = Err.
Proof.
  intros S step sh parse unm fuel s0 st' o Hsh H Hex.
  destruct (outcome_err_dec o) as [E|Hn]; [exact E|exfalso].
  assert (Hok : Forall (ok_event sh) (rs_tr st') /\ Forall (fun ev => re_site ev <> RUlebCont) (rs_tr st')).
  { destruct unm.
    - split; [eapply cte_unmarshal_no_failure; eauto|].
      unfold cte_unmarshal in H. destruct (cte_decode S step sh parse false fuel (rd0 s0)) as [st1 o1] eqn:Ed.
      inversion H; subst. eapply cte_decode_sites; exact Ed.
    - split; [eapply cte_decode_no_failure; eauto | eapply cte_decode_sites; exact H]. }
  destruct Hok as [Hok Hs]. apply Exists_exists in Hex. destruct Hex as (ev & Hin & Hh).
  rewrite Forall_forall in Hok, Hs. destruct (Hok ev Hin Hh) as (_ & Hsite & _). exact (Hs ev Hin Hsite).
Qed.

Lemma read_universal_cbe :
  forall (S : Type) (step : S -> N -> S * rres) (sh : shape) (D : Type) (dnext : D -> action)
         (dfeed : D -> bytes -> D) (dfinal : D -> bool) (parse : bytes -> bool)
         (unm : bool) (fuel : nat) (s0 : S) (d : D) (x : N) u' o,
    all_checked_but_uleb sh = true ->
    first_byte S step s0 = Some x -> choose x = UCbe ->
    universal S step sh D dnext dfeed dfinal parse unm false fuel (rd0 s0) d = (u', o) ->
    Exists hard (rs_tr u') -> o <> Ok tt /\ o <> Panic.
Proof.
  intros S step sh D dnext dfeed dfinal parse unm fuel s0 d x u' o Hsh Hf Hc H Hex. split.
  - intro Ho. eapply nothard_no_exists; [|exact Hex]. eapply universal_cbe_ok; eauto.
  - eapply universal_never_panics; eauto.
Qed.

Lemma read_universal_clean :
  forall (S : Type) (step : S -> N -> S * rres) (sh : shape) (D : Type) (dnext : D -> action)
         (dfeed : D -> bytes -> D) (dfinal : D -> bool) (parse : bytes -> bool)
         (unm : bool) (fuel : nat) (s0 : S) (d : D) u' o,
    all_checked_but_uleb sh = true ->
    clean_source S step ->
    universal S step sh D dnext dfeed dfinal parse unm false fuel (rd0 s0) d = (u', o) ->
    Exists hard (rs_tr u') -> o <> Ok tt /\ o <> Panic.
Proof.
  intros S step sh D dnext dfeed dfinal parse unm fuel s0 d u' o Hsh Hcl H Hex. split.
  - intro Ho. eapply nothard_no_exists; [|exact Hex]. eapply universal_clean_ok; eauto.
  - eapply universal_never_panics; eauto.
Qed.

(* ------------------------------------------------------------------------- *)
(* Witnesses (computed on the model with the current shape and a scheduled reader) *)

Definition wit_sched (k : N) : rsched := {| rsc_chunk := 0; rsc_faults := [{| f_call := k; f_dirty := true |}]; rsc_sticky := false |}.
Definition wit_cbe_doc : bytes := [129; 128; 128; 0; 1].          (* 81 80 80 00 01: version as a 3-byte ULEB, then the value 1 *)
Definition wit_cbe_script : list prim := [PUint8; PUleb; PTypeOrEOF; PTypeOrEOF].
Definition wit_edge_doc : bytes := [129; 0; 151; 1; 2; 3].        (* 81 00 97 01 02 03: an edge *)
Definition wit_edge_script : list prim := [PUint8; PUleb; PTypeOrEOF; PTypeOrEOF; PTypeOrEOF; PTypeOrEOF; PTypeOrEOF].
Definition wit_cte_doc : bytes := [99; 48; 32; 49].               (* "c0 1" *)

(* REPAIRED (e4074d6): the third Read returns the byte 0x80 of the ULEB together with an error; Reader.Read hands the
   byte on and reports the error at the next call: Decode fails after exactly three calls on the source *)
Lemma cbe_data_with_error_witness (unm : bool) :
  rmodel (if unm then RECbeUnmarshal else RECbeDecode) false wit_cbe_doc wit_cbe_script true (wit_sched 2)
  = ([{| re_site := RCbeRead; re_len := 1; re_res := {| rr_data := [129]; rr_err := ENone |} |};
      {| re_site := RCbeRead; re_len := 1; re_res := {| rr_data := [128]; rr_err := ENone |} |};
      {| re_site := RCbeRead; re_len := 1; re_res := {| rr_data := [128]; rr_err := EFail |} |}], OErr).
Proof. destruct unm; vm_compute; reflexivity. Qed.

(* REPAIRED (5799b55, the Unmarshal epilogue returns): the edge document failing cleanly at its fourth Read *)
Lemma cbe_edge_witness :
  snd (rmodel RECbeUnmarshal false wit_edge_doc wit_edge_script true
         {| rsc_chunk := 0; rsc_faults := [{| f_call := 3; f_dirty := false |}]; rsc_sticky := false |}) = OErr.
Proof. vm_compute. reflexivity. Qed.

(* OPEN: the first Read returns the whole CTE document together with an error; UnmarshalCE / Decode report success *)
Lemma universal_cte_swallow_witness (unm : bool) :
  let '(u, o) := universal rsrc (sched_rstep (wit_sched 0)) current_shape (list prim) script_next script_feed
                    (fun _ => true) (fun _ => true) unm false 100 (rd0 (rsrc0 wit_cte_doc)) [] in
  o = Ok tt /\ Exists hard (rs_tr u).
Proof.
  destruct unm; vm_compute; (split; [reflexivity|]); right; left; reflexivity.
Qed.

(* PassThroughPanics lets the panic out (by design) *)
Lemma pass_through_witness :
  snd (rmodel RECbeDecode true wit_cbe_doc wit_cbe_script true
         {| rsc_chunk := 0; rsc_faults := [{| f_call := 1; f_dirty := false |}]; rsc_sticky := false |}) = OPanic.
Proof. vm_compute. reflexivity. Qed.

(* an unchecked write site would let a failure through: the shape hypothesis is needed *)
Definition bad_shape : shape := fun s => if site_eqb s WCbeBytes then Unchecked else current_shape s.
Lemma unchecked_site_witness :
  snd (marshal wdest (sched_wstep {| wsc_calls := [0]; wsc_limit := None; wsc_sticky := false |}) bad_shape WFcbe false false
         {| ws_w := wdest0; ws_tr := [] |} [[{| lw_site := LBytes; lw_len := 1 |}]]) = Ok tt.
Proof. vm_compute. reflexivity. Qed.

(* ------------------------------------------------------------------------- *)
(* The full property for the universal entry points, and its refutation *)

Definition read_universal_full_stmt : Prop :=
  forall (S : Type) (step : S -> N -> S * rres) (D : Type) (dnext : D -> action) (dfeed : D -> bytes -> D)
         (dfinal : D -> bool) (parse : bytes -> bool) (unm : bool) (fuel : nat) (s0 : S) (d : D) u' o,
    universal S step current_shape D dnext dfeed dfinal parse unm false fuel (rd0 s0) d = (u', o) ->
    Exists hard (rs_tr u') -> o <> Ok tt /\ o <> Panic.

Lemma read_universal_full_refuted : ~ read_universal_full_stmt.
Proof.
  intro H. pose proof (universal_cte_swallow_witness false) as W. cbv zeta in W.
  destruct (universal rsrc (sched_rstep (wit_sched 0)) current_shape (list prim) script_next script_feed
              (fun _ => true) (fun _ => true) false false 100 (rd0 (rsrc0 wit_cte_doc)) []) as [u o] eqn:E.
  destruct W as [Wo Wh].
  destruct (H rsrc (sched_rstep (wit_sched 0)) (list prim) script_next script_feed (fun _ => true) (fun _ => true) false 100%nat
              (rsrc0 wit_cte_doc) [] u o E Wh) as [Hn _].
  exact (Hn Wo).
Qed.
