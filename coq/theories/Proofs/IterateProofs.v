(* C05 — proofs about the iterator model (Model/Iterate.v).

   Part 1: structural induction on Go values.
   Part 2: iterate_describes — without recursion support, reading the events of a value gives
           back exactly the value ([read_doc (iterate cfg v) = canon cfg v]) for every value
           without edges and without signalling float32 NaNs (the two open defect classes of
           the plain iterator; refuted on witnesses in part 4).
   Part 3: iterate_valid — the validator accepts the events (see there for the fragment). *)
From Coq Require Import ZifyN ZifyNat ZifyBool.
From CE Require Import Model.Iterate.
Open Scope N_scope.

(* ========================================================================= *)
(* Part 1: induction on values                                                *)

Section GvalInd.
  Variable P : gval -> Prop.
  Hypothesis HBool : forall b, P (VBool b).
  Hypothesis HInt : forall z, P (VInt z).
  Hypothesis HUint : forall n, P (VUint n).
  Hypothesis HF32 : forall w, P (VF32 w).
  Hypothesis HF64 : forall b, P (VF64 b).
  Hypothesis HString : forall s, P (VString s).
  Hypothesis HNum : forall sk k es, P (VNum sk k es).
  Hypothesis HBools : forall sk l, P (VBools sk l).
  Hypothesis HSlice : forall a es, Forall P es -> P (VSlice a es).
  Hypothesis HNilSlice : P VNilSlice.
  Hypothesis HArray : forall es, Forall P es -> P (VArray es).
  Hypothesis HMap : forall a kvs, Forall (fun kv => P (fst kv) /\ P (snd kv)) kvs -> P (VMap a kvs).
  Hypothesis HNilMap : P VNilMap.
  Hypothesis HPtr : forall a p, P p -> P (VPtr a p).
  Hypothesis HNilPtr : P VNilPtr.
  Hypothesis HOPtr : forall p, P p -> P (VOPtr p).
  Hypothesis HIface : forall p, P p -> P (VIface p).
  Hypothesis HNilIface : P VNilIface.
  Hypothesis HStruct : forall sid fs, Forall (fun iv => P (snd iv)) fs -> P (VStruct sid fs).
  Hypothesis HTime : forall z t, P (VTime z t).
  Hypothesis HUrl : forall z t, P (VUrl z t).
  Hypothesis HBigInt : forall z x, P (VBigInt z x).
  Hypothesis HBigFloat : forall z x, P (VBigFloat z x).
  Hypothesis HBigDec : forall z x, P (VBigDec z x).
  Hypothesis HDFloat : forall z x, P (VDFloat z x).
  Hypothesis HUid : forall b, P (VUid b).
  Hypothesis HMedia : forall z mt d, P (VMedia z mt d).
  Hypothesis HNode : forall x ch, P x -> P ch -> P (VNode x ch).
  Hypothesis HEdge : forall a b c, P a -> P b -> P c -> P (VEdge a b c).

  Fixpoint gval_ind' (v : gval) : P v :=
    match v with
    | VBool b => HBool b
    | VInt z => HInt z
    | VUint n => HUint n
    | VF32 w => HF32 w
    | VF64 b => HF64 b
    | VString s => HString s
    | VNum sk k es => HNum sk k es
    | VBools sk l => HBools sk l
    | VSlice a es =>
        HSlice a es ((fix go (l : list gval) : Forall P l :=
                        match l with [] => Forall_nil _ | x :: r => Forall_cons _ (gval_ind' x) (go r) end) es)
    | VNilSlice => HNilSlice
    | VArray es =>
        HArray es ((fix go (l : list gval) : Forall P l :=
                      match l with [] => Forall_nil _ | x :: r => Forall_cons _ (gval_ind' x) (go r) end) es)
    | VMap a kvs =>
        HMap a kvs ((fix go (l : list (gval * gval)) : Forall (fun kv => P (fst kv) /\ P (snd kv)) l :=
                       match l with
                       | [] => Forall_nil _
                       | kv :: r => Forall_cons _ (conj (gval_ind' (fst kv)) (gval_ind' (snd kv))) (go r)
                       end) kvs)
    | VNilMap => HNilMap
    | VPtr a p => HPtr a p (gval_ind' p)
    | VNilPtr => HNilPtr
    | VOPtr p => HOPtr p (gval_ind' p)
    | VIface p => HIface p (gval_ind' p)
    | VNilIface => HNilIface
    | VStruct sid fs =>
        HStruct sid fs ((fix go (l : list (finfo * gval)) : Forall (fun iv => P (snd iv)) l :=
                           match l with [] => Forall_nil _ | iv :: r => Forall_cons _ (gval_ind' (snd iv)) (go r) end) fs)
    | VTime z t => HTime z t
    | VUrl z t => HUrl z t
    | VBigInt z x => HBigInt z x
    | VBigFloat z x => HBigFloat z x
    | VBigDec z x => HBigDec z x
    | VDFloat z x => HDFloat z x
    | VUid b => HUid b
    | VMedia z mt d => HMedia z mt d
    | VNode x ch => HNode x ch (gval_ind' x) (gval_ind' ch)
    | VEdge a b c => HEdge a b c (gval_ind' a) (gval_ind' b) (gval_ind' c)
    end.
End GvalInd.

(* ========================================================================= *)
(* Part 2: the events describe exactly the value                               *)

(* ---- generic list facts ---- *)

Lemma forallb_Forall {A} (f : A -> bool) l : forallb f l = true <-> Forall (fun x => f x = true) l.
Proof. rewrite forallb_forall, Forall_forall. tauto. Qed.

Lemma Forall2_app_inv {A B} (R : A -> B -> Prop) a1 a2 b1 b2 :
  Forall2 R a1 b1 -> Forall2 R a2 b2 -> Forall2 R (a1 ++ a2) (b1 ++ b2).
Proof. apply Forall2_app. Qed.

Section SortFilter.
  Context {A B : Type} (R : A -> B -> Prop) (ka : A -> Z) (kb : B -> Z).
  Hypothesis Hkey : forall x y, R x y -> ka x = kb y.

  Lemma ins_by_rel x y l l' : R x y -> Forall2 R l l' -> Forall2 R (ins_by ka x l) (ins_by kb y l').
  Proof.
    intros Hxy H. induction H as [|a b l l' Hab H IH]; cbn [ins_by].
    - constructor; [assumption | constructor].
    - rewrite (Hkey _ _ Hxy), (Hkey _ _ Hab).
      destruct (kb y <=? kb b)%Z.
      + constructor; [assumption | constructor; assumption].
      + constructor; assumption.
  Qed.

  Lemma sort_by_rel l l' : Forall2 R l l' -> Forall2 R (sort_by ka l) (sort_by kb l').
  Proof.
    intro H. induction H as [|a b l l' Hab H IH]; cbn [sort_by fold_right].
    - constructor.
    - apply ins_by_rel; assumption.
  Qed.

  Lemma filter_rel (fa : A -> bool) (fb : B -> bool) l l' :
    (forall x y, R x y -> fa x = fb y) -> Forall2 R l l' -> Forall2 R (filter fa l) (filter fb l').
  Proof.
    intros Hf H. induction H as [|a b l l' Hab H IH]; cbn [filter].
    - constructor.
    - rewrite (Hf _ _ Hab). destruct (fb b); [constructor|]; assumption.
  Qed.
End SortFilter.

Lemma Forall2_map_eq {A B C} (R : A -> B -> Prop) (f : A -> C) (g : B -> C) l l' :
  (forall x y, R x y -> f x = g y) -> Forall2 R l l' -> map f l = map g l'.
Proof.
  intros Hf H. induction H as [|a b l l' Hab H IH]; cbn [map]; [reflexivity|].
  rewrite (Hf _ _ Hab), IH. reflexivity.
Qed.

Lemma Forall2_length' {A B} (R : A -> B -> Prop) l l' : Forall2 R l l' -> length l = length l'.
Proof. induction 1; cbn; congruence. Qed.

(* ---- the reader ---- *)

Lemma rd_run_app st a b :
  rd_run st (a ++ b) = match rd_run st a with Some s => rd_run s b | None => None end.
Proof.
  revert st. induction a as [|e a IH]; intro st; cbn [rd_run app]; [reflexivity|].
  destruct (rd_step st e); [apply IH | reflexivity].
Qed.

Lemma push_ended v env stk done : rs_ended (push v env stk done) = false.
Proof. revert v. induction stk as [|f stk IH]; intro v; [reflexivity|]. destruct f; cbn [push]; try reflexivity. apply IH. Qed.
Lemma push_env v env stk done : rs_env (push v env stk done) = env.
Proof. revert v. induction stk as [|f stk IH]; intro v; [reflexivity|]. destruct f; cbn [push]; try reflexivity. apply IH. Qed.

Section Describes.
  Variable cfg : icfg.

  (* the reader knows every registered record type under its name *)
  Definition env_good (env : list (bytes * list bytes)) : Prop :=
    forall sid r, find_record (c_records cfg) sid = Some r -> env_find (rt_name r) env = Some (decl_keys cfg r).
  Definition good (st : rstate) : Prop := rs_ended st = false /\ env_good (rs_env st).

  Lemma push_st_good d st : good st -> good (push_st d st).
  Proof. intros [_ He]. split; unfold push_st; [apply push_ended | rewrite push_env; exact He]. Qed.

  (* reading [es] in any live state delivers exactly the value [d] *)
  Definition reads (es : list event) (d : dval) : Prop :=
    forall st, good st -> rd_run st es = Some (push_st d st).

  Definition items_rel (a : list item) (b : list citem) : Prop :=
    Forall2 (fun x y => fst x = fst y /\ reads (snd x) (snd y)) a b.

  Lemma reads_single e d :
    (forall st, rs_ended st = false -> rd_step st e = Some (push_st d st)) -> reads [e] d.
  Proof. intros H st [Hl _]. cbn [rd_run]. rewrite (H st Hl). reflexivity. Qed.

  (* frames that simply collect the values pushed into them *)
  Definition collector (mk : list dval -> frame) : Prop :=
    forall v acc env stk done, push v env (mk acc :: stk) done = mkRS env (mk (v :: acc) :: stk) done false.
  Lemma coll_list : collector FList. Proof. intros v acc env stk done. reflexivity. Qed.
  Lemma coll_map : collector FMap. Proof. intros v acc env stk done. reflexivity. Qed.
  Lemma coll_node : collector FNode. Proof. intros v acc env stk done. reflexivity. Qed.
  Lemma coll_record ks : collector (FRecord ks). Proof. intros v acc env stk done. reflexivity. Qed.
  Lemma coll_rectype n : collector (FRecType n). Proof. intros v acc env stk done. reflexivity. Qed.

  Lemma run_seq mk : collector mk ->
    forall chunks vals, Forall2 reads chunks vals ->
    forall env stk done acc, env_good env ->
      rd_run (mkRS env (mk acc :: stk) done false) (concat chunks)
      = Some (mkRS env (mk (rev vals ++ acc) :: stk) done false).
  Proof.
    intros Hmk chunks vals H. induction H as [|c d chunks vals Hcd H IH]; intros env stk done acc He.
    - reflexivity.
    - cbn [concat]. rewrite rd_run_app.
      rewrite (Hcd (mkRS env (mk acc :: stk) done false)) by (split; [reflexivity | exact He]).
      unfold push_st. cbn [rs_env rs_stack rs_done]. rewrite Hmk.
      rewrite IH by exact He. cbn [rev]. rewrite <- app_assoc. reflexivity.
  Qed.

  (* ---- equations of the two walks ---- *)
  Lemma plain_list a es : plain cfg (VSlice a es) = EList :: flat_map (plain cfg) es ++ [EEnd].
  Proof. reflexivity. Qed.
  Lemma plain_array es : plain cfg (VArray es) = EList :: flat_map (plain cfg) es ++ [EEnd].
  Proof. reflexivity. Qed.
  Lemma plain_map a kvs :
    plain cfg (VMap a kvs) = EMap :: flat_map (fun kv => plain cfg (fst kv) ++ plain cfg (snd kv)) kvs ++ [EEnd].
  Proof. reflexivity. Qed.
  Lemma canon_list a es : canon cfg (VSlice a es) = DList (map (canon cfg) es).
  Proof. reflexivity. Qed.
  Lemma canon_array es : canon cfg (VArray es) = DList (map (canon cfg) es).
  Proof. reflexivity. Qed.
  Lemma canon_map a kvs :
    canon cfg (VMap a kvs) = DMap (map (fun kv => (canon cfg (fst kv), canon cfg (snd kv))) kvs).
  Proof. reflexivity. Qed.

  Lemma flat_map_concat {A} (f : A -> list event) l : flat_map f l = concat (map f l).
  Proof. induction l as [|x l IH]; cbn; [reflexivity | rewrite IH; reflexivity]. Qed.

  Lemma pair_up_flat {A} (f g : A -> dval) l :
    pair_up (flat_map (fun x => [f x; g x]) l) = Some (map (fun x => (f x, g x)) l).
  Proof. induction l as [|x l IH]; cbn [flat_map pair_up map app]; [reflexivity | rewrite IH; reflexivity]. Qed.

  Lemma rev_involutive_app {A} (l : list A) : rev (rev l ++ []) = l.
  Proof. rewrite app_nil_r. apply rev_involutive. Qed.

  (* a container that opens with [e0] into the collector [mk] and is closed by EEnd *)
  Lemma reads_container e0 mk chunks vals d :
    collector mk ->
    (forall st, good st -> rd_step st e0 = Some (open_frame (mk []) st)) ->
    Forall2 reads chunks vals ->
    (forall env stk done, close_frame (mk (rev vals ++ [])) env stk done = Some (push d env stk done)) ->
    reads (e0 :: concat chunks ++ [EEnd]) d.
  Proof.
    intros Hmk Hopen Hch Hclose st [Hl He].
    cbn [rd_run]. rewrite (Hopen st (conj Hl He)). unfold open_frame.
    rewrite rd_run_app. rewrite (run_seq mk Hmk chunks vals Hch) by exact He.
    cbn [rd_run]. unfold rd_step. cbn [rs_ended rs_stack rs_env rs_done].
    rewrite Hclose. reflexivity.
  Qed.
End Describes.

(* ---- leaves: bit arrays, numeric arrays, float32 ---- *)

(* the bit layout the reader expects is the layout of the intended packing, for every length:
   [pack_bits] (element i in bit i mod 8 of byte i / 8) reads back exactly *)
Lemma byte_bits_of_bits l : (length l <= 8)%nat -> byte_bits (length l) (bits_byte l 0) 0 = l.
Proof.
  intro H.
  do 9 (destruct l as [|? l];
        [ repeat match goal with b : bool |- _ => destruct b end; vm_compute; reflexivity | ]).
  cbn in H. lia.
Qed.

Lemma unpack_pack_bits : forall k v,
  (length v <= 8 * k)%nat -> (8 * k < length v + 8)%nat ->
  unpack_bits (length v) (pack_bits v k) = Some v.
Proof.
  induction k as [|k IH]; intros v H1 H2.
  - destruct v; [reflexivity | cbn in H1; lia].
  - cbn [pack_bits unpack_bits].
    destruct (Nat.eqb_spec (length v) 0) as [E|E]; [lia|].
    assert (Hf : Nat.min 8 (length v) = length (firstn 8 v)) by (rewrite firstn_length; reflexivity).
    assert (Hs : (length v - Nat.min 8 (length v))%nat = length (skipn 8 v)) by (rewrite skipn_length; lia).
    rewrite Hs, IH by (rewrite skipn_length; lia).
    rewrite Hf, byte_bits_of_bits by (rewrite firstn_length; lia).
    rewrite firstn_skipn. reflexivity.
Qed.

Lemma skipn_skipn' {A} : forall y (l : list A) x, skipn x (skipn y l) = skipn (y + x) l.
Proof.
  induction y as [|y IH]; intros l x; [reflexivity|].
  destruct l as [|a l]; cbn [skipn Nat.add]; [destruct x; reflexivity | apply IH].
Qed.

(* the loop of iterateSliceOrArrayBool is that packing *)
Lemma pack_loop_eq : forall k v isrc, pack_bools_loop v isrc k = pack_bits (skipn isrc v) k.
Proof.
  induction k as [|k IH]; intros v isrc; [reflexivity|].
  cbn [pack_bools_loop pack_bits]. rewrite IH. f_equal.
  - f_equal. destruct (Nat.le_gt_cases 8 (length v - isrc)) as [H|H].
    + rewrite Nat.min_l by exact H. reflexivity.
    + rewrite Nat.min_r by lia.
      rewrite !firstn_all2 by (rewrite skipn_length; lia). reflexivity.
  - rewrite skipn_skipn'. destruct (Nat.le_gt_cases 8 (length v - isrc)) as [H|H].
    + rewrite Nat.min_l by exact H. reflexivity.
    + rewrite Nat.min_r by lia. rewrite !skipn_all2 by lia. reflexivity.
Qed.

Lemma bool_byte_count_spec n :
  n < two64 -> bool_byte_count n = n / 8 + (if n mod 8 =? 0 then 0 else 1).
Proof.
  intro H. unfold bool_byte_count, elem_byte_count. rewrite N.mul_1_r. rewrite (N.mod_small n two64) by exact H.
  change (1 =? 1) with true. cbn [andb].
  change 7 with (N.ones 3). rewrite N.land_ones. change (2 ^ 3) with 8.
  assert (Hd : n / 8 < 2305843009213693952).
  { apply N.div_lt_upper_bound; [lia|]. unfold two64 in H. lia. }
  destruct (n mod 8 =? 0); cbn [negb]; [lia|].
  rewrite N.mod_small by (unfold two64; lia). reflexivity.
Qed.

Lemma read_bools l : len l < two64 -> read_array AT_Bit (len l) (pack_bools l) = Some (DBits l).
Proof.
  intro H. unfold read_array. change (AT_Bit =? AT_Bit) with true. cbv iota.
  unfold pack_bools. rewrite pack_loop_eq. cbn [skipn].
  unfold len at 1. rewrite Nat2N.id.
  rewrite unpack_pack_bits; [reflexivity | |];
    rewrite (bool_byte_count_spec _ H); unfold len in *;
    pose proof (N.div_mod (N.of_nat (length l)) 8 ltac:(lia)) as Hdm;
    pose proof (N.mod_lt (N.of_nat (length l)) 8 ltac:(lia)) as Hm;
    destruct (N.eqb_spec (N.of_nat (length l) mod 8) 0); lia.
Qed.

Lemma lor_pow2_set x n : N.testbit x n = true -> N.lor x (2 ^ n) = x.
Proof.
  intro H. apply N.bits_inj. intro i. rewrite N.lor_spec, N.pow2_bits_eqb.
  destruct (N.eqb_spec n i) as [->|_]; [rewrite H; reflexivity | apply orb_false_r].
Qed.

Lemma through_f64_id raw : is_snan32 raw = false -> f32_through_f64 raw = raw.
Proof.
  unfold is_snan32, f32_through_f64. intro H. destruct (w32_is_nan raw); [|reflexivity].
  cbn [andb] in H. apply negb_false_iff in H. change p22 with (2 ^ 22). apply lor_pow2_set. exact H.
Qed.

Lemma widen32_exact w : is_snan32 w = false -> widen32 w = widen_exact w.
Proof.
  unfold is_snan32, widen32, widen_exact, w32_is_nan. intro H.
  destruct (w32_expo w =? 255); [|reflexivity].
  destruct (w32_mant w =? 0) eqn:Hm.
  - apply N.eqb_eq in Hm. rewrite Hm. reflexivity.
  - cbn [andb negb] in H. apply negb_false_iff in H. f_equal.
    change p51 with (2 ^ 51). apply lor_pow2_set.
    change p29 with (2 ^ 29). change 51 with (22 + 29). rewrite N.mul_pow2_bits_add.
    unfold w32_mant. change p23 with (2 ^ 23). rewrite N.mod_pow2_bits_low by lia. exact H.
Qed.

Lemma skipn_len_app {A} (a b : list A) : skipn (length a) (a ++ b) = b.
Proof. induction a; cbn; auto. Qed.
Lemma firstn_len_app {A} (a b : list A) : firstn (length a) (a ++ b) = a.
Proof. induction a; cbn; [reflexivity | f_equal; assumption]. Qed.

Lemma chunks_flat {A} (w : nat) (f : A -> bytes) (g : A -> N) es :
  (forall z, In z es -> length (f z) = w /\ le_decode (f z) = g z) ->
  chunks w (length es) (flat_map f es) = Some (map g es).
Proof.
  induction es as [|z es IH]; intro H; [reflexivity|].
  destruct (H z (or_introl eq_refl)) as [Hl Hd].
  cbn [length flat_map chunks map].
  replace (length (f z ++ flat_map f es) <? w)%nat with false
    by (symmetry; apply Nat.ltb_ge; rewrite app_length; lia).
  pose proof (IH (fun y Hy => H y (or_intror Hy))) as IH'. clear IH H.
  subst w. rewrite skipn_len_app, firstn_len_app, IH', Hd. reflexivity.
Qed.

Lemma elem_pattern_lt k z : elem_pattern k z < 256 ^ N.of_nat (width_of k).
Proof.
  unfold elem_pattern.
  assert (Hb : forall M : Z, (0 < M)%Z -> (Z.to_N (z mod M) < Z.to_N M)) by
    (intros M HM; pose proof (Z.mod_pos_bound z M HM); lia).
  destruct k; cbn [width_of];
    match goal with |- Z.to_N (z mod ?M) < _ => apply (N.lt_le_trans _ _ _ (Hb M eq_refl)) end;
    vm_compute; discriminate.
Qed.

Lemma elem_bytes_spec k z :
  (match k with AF32 => is_snan32 (elem_pattern AF32 z) = false | _ => True end) ->
  length (elem_bytes k z) = width_of k /\ le_decode (elem_bytes k z) = elem_pattern k z.
Proof.
  intro Hs. unfold elem_bytes. fold (elem_pattern k z).
  assert (Hraw : (match k with AF32 => f32_through_f64 (elem_pattern k z) | _ => elem_pattern k z end) = elem_pattern k z).
  { destruct k; try reflexivity. apply through_f64_id. exact Hs. }
  rewrite Hraw. split; [apply le_encode_length|].
  rewrite le_decode_encode. apply N.mod_small. apply elem_pattern_lt.
Qed.

Lemma at_of_not_bit k : (at_of k =? AT_Bit) = false.
Proof. destruct k; reflexivity. Qed.
Lemma num_width_at_of k : num_width (at_of k) = Some (width_of k).
Proof. destruct k; reflexivity. Qed.

Lemma read_nums k es :
  (match k with AF32 => forallb (fun z => negb (is_snan32 (elem_pattern AF32 z))) es = true | _ => True end) ->
  read_array (at_of k) (len es) (num_bytes k es) = Some (DNums (at_of k) (map (elem_pattern k) es)).
Proof.
  intro H. unfold read_array. rewrite at_of_not_bit, num_width_at_of.
  unfold len. rewrite Nat2N.id. unfold num_bytes.
  rewrite (chunks_flat (width_of k) (elem_bytes k) (elem_pattern k)); [reflexivity|].
  intros z Hz. apply elem_bytes_spec.
  destruct k; try exact I.
  rewrite forallb_forall in H. apply negb_true_iff. apply H. exact Hz.
Qed.

(* ---- the main induction ---- *)

Section DescribesMain.
  Variable cfg : icfg.
  Notation reads := (reads cfg).
  Notation items_rel := (items_rel cfg).

  (* the struct case of the two walks as top-level functions *)
  Fixpoint gofs (fs : list (finfo * gval)) : list item :=
    match fs with
    | [] => []
    | (i, x) :: r =>
        (if extractable i then
           if flattened i x then items_of cfg x
           else [(i, should_include cfg i (is_empty x) (is_value_zero x), plain cfg x)]
         else []) ++ gofs r
    end.
  Fixpoint cgofs (fs : list (finfo * gval)) : list citem :=
    match fs with
    | [] => []
    | (i, x) :: r =>
        (if cextractable i x then
           if flattened i x then snd (cwalk cfg x)
           else [(i, should_include cfg i (is_empty x) (is_value_zero x), canon cfg x)]
         else []) ++ cgofs r
    end.

  Lemma items_struct sid fs : items_of cfg (VStruct sid fs) = gofs fs.
  Proof.
    unfold items_of. cbn [walk snd].
    induction fs as [|[i x] r IH]; [reflexivity|]. cbn [gofs]. rewrite <- IH. reflexivity.
  Qed.
  Lemma citems_struct sid fs : snd (cwalk cfg (VStruct sid fs)) = cgofs fs.
  Proof.
    cbn [cwalk snd].
    induction fs as [|[i x] r IH]; [reflexivity|]. cbn [cgofs]. rewrite <- IH. reflexivity.
  Qed.
  Lemma plain_struct sid fs :
    plain cfg (VStruct sid fs)
    = match find_record (c_records cfg) sid with
      | Some r => record_events cfg (rt_name r) (gofs fs)
      | None => struct_events cfg (gofs fs)
      end.
  Proof. rewrite <- (items_struct sid fs). reflexivity. Qed.
  Lemma canon_struct sid fs :
    canon cfg (VStruct sid fs)
    = match find_record (c_records cfg) sid with
      | Some _ => record_dval cfg (cgofs fs)
      | None => struct_dval cfg (cgofs fs)
      end.
  Proof. rewrite <- (citems_struct sid fs). reflexivity. Qed.

  Definition child_ok (c : gval) : Prop := descr cfg c = true -> reads (plain cfg c) (canon cfg c).
  Definition Pd (v : gval) : Prop :=
    (descr cfg v = true ->
       reads (plain cfg v) (canon cfg v) /\ items_rel (items_of cfg v) (snd (cwalk cfg v)))
    /\ match v with VSlice _ es => Forall child_ok es | _ => True end.

  Ltac leaf := split; [intros _; split; [apply reads_single; intros st Hl; unfold rd_step; rewrite Hl; reflexivity | constructor] | exact I].

  Lemma children_reads es :
    Forall child_ok es -> forallb (descr cfg) es = true ->
    Forall2 reads (map (plain cfg) es) (map (canon cfg) es).
  Proof.
    intros H Hd. induction H as [|c es Hc H IH]; cbn [map]; [constructor|].
    cbn [forallb] in Hd. apply andb_true_iff in Hd as [Hd1 Hd2].
    constructor; [apply Hc; exact Hd1 | apply IH; exact Hd2].
  Qed.

  Lemma Pd_children es : Forall Pd es -> Forall child_ok es.
  Proof. intro H. eapply Forall_impl; [|exact H]. intros c [Hc _] Hd. apply Hc. exact Hd. Qed.

  Lemma reads_list_like es d0 :
    Forall child_ok es -> forallb (descr cfg) es = true -> d0 = DList (map (canon cfg) es) ->
    reads (EList :: flat_map (plain cfg) es ++ [EEnd]) d0.
  Proof.
    intros H Hd ->. rewrite flat_map_concat.
    apply (reads_container cfg EList FList (map (plain cfg) es) (map (canon cfg) es)).
    - apply coll_list.
    - intros st [Hl _]. unfold rd_step. rewrite Hl. reflexivity.
    - apply children_reads; assumption.
    - intros env stk done. cbn [close_frame]. rewrite rev_involutive_app. reflexivity.
  Qed.

  Lemma kept_rel a b : items_rel a b -> items_rel (kept_items a) (kept_items b).
  Proof.
    intro H. unfold kept_items, sorted_items.
    apply filter_rel; [intros x y [E _]; rewrite E; reflexivity|].
    apply sort_by_rel; [intros x y [E _]; unfold gitem_order; rewrite E; reflexivity | exact H].
  Qed.

  Lemma declared_rel a b : items_rel a b -> items_rel (declared_items cfg a) (declared_items cfg b).
  Proof.
    intro H. unfold declared_items, sorted_items.
    apply filter_rel; [intros x y [E _]; rewrite E; reflexivity|].
    apply sort_by_rel; [intros x y [E _]; unfold gitem_order; rewrite E; reflexivity | exact H].
  Qed.

  Lemma combine_map {A} (f : A -> bytes) (g : A -> dval) l :
    combine (map DString (map f l)) (map g l) = map (fun x => (DString (f x), g x)) l.
  Proof. induction l as [|x l IH]; cbn [map combine]; [reflexivity | rewrite IH; reflexivity]. Qed.

  Lemma reads_struct_events its its' :
    items_rel its its' -> reads (struct_events cfg its) (struct_dval cfg its').
  Proof.
    intro H. apply kept_rel in H. unfold struct_events, struct_dval.
    set (K := kept_items its) in *. set (K' := kept_items its') in *.
    set (nm := fun A (it : gitem A) => field_name cfg (fst (fst it))).
    assert (Hc : flat_map (fun it : finfo * bool * list event => EStringArray AT_String (field_name cfg (fst (fst it))) :: snd it) K
                 = concat (flat_map (fun it : item => [[EStringArray AT_String (nm _ it)]; snd it]) K)).
    { clear H. induction K as [|x K IH]; [reflexivity|]. cbn [flat_map concat app]. rewrite IH. reflexivity. }
    rewrite Hc.
    apply (reads_container cfg EMap FMap _ (flat_map (fun it : citem => [DString (nm _ it); snd it]) K')).
    - apply coll_map.
    - intros st [Hl _]. unfold rd_step. rewrite Hl. reflexivity.
    - clear Hc. induction H as [|x y K K' [E Hr] H IH]; cbn [flat_map app]; [constructor|].
      constructor.
      + unfold nm. rewrite E. apply reads_single. intros st Hl. unfold rd_step. rewrite Hl. reflexivity.
      + constructor; [exact Hr | exact IH].
    - intros env stk done. cbn [close_frame]. rewrite rev_involutive_app.
      rewrite (pair_up_flat (fun it : citem => DString (nm _ it)) (fun it : citem => snd it)). reflexivity.
  Qed.

  Lemma reads_record_events r its its' :
    find_record (c_records cfg) (rt_sid r) = Some r \/ (exists sid, find_record (c_records cfg) sid = Some r) ->
    decl_keys cfg r = map (fun it : item => field_name cfg (fst (fst it))) (declared_items cfg its) ->
    items_rel its its' -> reads (record_events cfg (rt_name r) its) (record_dval cfg its').
  Proof.
    intros Hfind Hkeys H. apply declared_rel in H. unfold record_events, record_dval.
    set (K := declared_items cfg its) in *. set (K' := declared_items cfg its') in *.
    assert (Hsid : exists sid, find_record (c_records cfg) sid = Some r) by (destruct Hfind as [Hf|Hf]; [eexists; exact Hf | exact Hf]).
    destruct Hsid as [sid Hsid].
    rewrite flat_map_concat.
    apply (reads_container cfg (ERecord (rt_name r)) (FRecord (decl_keys cfg r)) (map (fun it : item => snd it) K) (map (fun it : citem => snd it) K')).
    - apply coll_record.
    - intros st [Hl He]. unfold rd_step. rewrite Hl. rewrite (He sid r Hsid). reflexivity.
    - clear Hkeys. induction H as [|x y K K' [E Hr] H IH]; cbn [map]; constructor; assumption.
    - intros env stk done. cbn [close_frame]. rewrite rev_involutive_app.
      assert (Hn : map (fun it : item => field_name cfg (fst (fst it))) K = map (fun it : citem => field_name cfg (fst (fst it))) K').
      { apply (Forall2_map_eq _ _ _ _ _ (fun x y (Hxy : fst x = fst y /\ reads (snd x) (snd y)) => f_equal (fun p => field_name cfg (fst p)) (proj1 Hxy)) H). }
      rewrite Hkeys, Hn. rewrite app_nil_r, rev_length, !map_length, Nat.eqb_refl.
      rewrite combine_map. reflexivity.
  Qed.

  Lemma gofs_rel fs :
    Forall (fun iv => Pd (snd iv)) fs -> forallb (fun iv => descr cfg (snd iv)) fs = true ->
    forallb (fun iv => promoted_ok cfg (fst iv) (snd iv)) fs = true ->
    items_rel (gofs fs) (cgofs fs).
  Proof.
    intros H Hd Hp. induction H as [|[i x] fs [Hx _] H IH]; [constructor|].
    cbn [forallb snd fst] in Hd, Hp. apply andb_true_iff in Hd as [Hd1 Hd2]. apply andb_true_iff in Hp as [Hp1 Hp2].
    cbn [snd] in Hx. destruct (Hx Hd1) as [Hr Hi].
    cbn [gofs cgofs]. apply Forall2_app; [|apply IH; [exact Hd2 | exact Hp2]].
    unfold promoted_ok in Hp1. unfold extractable, cextractable.
    destruct (f_exported i); cbn [orb andb negb] in *.
    - destruct (negb (omit_eqb (f_omit i) OAlways)); [|constructor].
      destruct (flattened i x); [exact Hi|].
      constructor; [split; [reflexivity | exact Hr] | constructor].
    - destruct (flattened i x); cbn [andb negb orb] in *; [|constructor].
      destruct (negb (omit_eqb (f_omit i) OAlways)); cbn [negb orb] in *; [|constructor].
      destruct (snd (cwalk cfg x)); [constructor | discriminate Hp1].
  Qed.

  Lemma describes_all : forall v, Pd v.
  Proof.
    apply gval_ind'; try (intros; leaf).
    - (* VF32 *) intro w. split; [|exact I]. intro Hd. cbn [descr] in Hd. apply negb_true_iff in Hd.
      split; [|constructor]. apply reads_single. intros st Hl. unfold rd_step. rewrite Hl.
      change (plain cfg (VF32 w)) with [EFloat (widen32 w)]. 
      rewrite (widen32_exact w Hd). reflexivity.
    - (* VNum *) intros sk k es. split; [|exact I]. intro Hd. split; [|constructor].
      apply reads_single. intros st Hl. unfold rd_step. rewrite Hl.
      rewrite read_nums; [reflexivity|]. destruct k; try exact I. exact Hd.
    - (* VBools *) intros sk l. split; [|exact I]. intro Hd. cbn [descr] in Hd. apply N.ltb_lt in Hd.
      split; [|constructor]. apply reads_single. intros st Hl. unfold rd_step. rewrite Hl.
      rewrite (read_bools l Hd). reflexivity.
    - (* VSlice *) intros a es H. pose proof (Pd_children es H) as Hc. split; [|exact Hc].
      intro Hd. cbn [descr] in Hd. split; [|constructor].
      rewrite plain_list. apply reads_list_like; [exact Hc | exact Hd | reflexivity].
    - (* VArray *) intros es H. pose proof (Pd_children es H) as Hc. split; [|exact I].
      intro Hd. cbn [descr] in Hd. split; [|constructor].
      rewrite plain_array. apply reads_list_like; [exact Hc | exact Hd | reflexivity].
    - (* VMap *) intros a kvs H. split; [|exact I]. intro Hd. cbn [descr] in Hd. split; [|constructor].
      rewrite plain_map, canon_map.
      assert (Hc : flat_map (fun kv => plain cfg (fst kv) ++ plain cfg (snd kv)) kvs
                   = concat (flat_map (fun kv => [plain cfg (fst kv); plain cfg (snd kv)]) kvs)).
      { clear. induction kvs as [|kv kvs IH]; [reflexivity|]. cbn [flat_map concat app]. rewrite IH, <- app_assoc. reflexivity. }
      rewrite Hc.
      apply (reads_container cfg EMap FMap _ (flat_map (fun kv => [canon cfg (fst kv); canon cfg (snd kv)]) kvs)).
      + apply coll_map.
      + intros st [Hl _]. unfold rd_step. rewrite Hl. reflexivity.
      + clear Hc. induction H as [|kv kvs [[Hk _] [Hv _]] H IH]; cbn [flat_map app]; [constructor|].
        cbn [forallb] in Hd. apply andb_true_iff in Hd as [Hd1 Hd2]. apply andb_true_iff in Hd1 as [Hdk Hdv].
        constructor; [apply Hk; exact Hdk|]. constructor; [apply Hv; exact Hdv | apply IH; exact Hd2].
      + intros env stk done. cbn [close_frame]. rewrite rev_involutive_app.
        rewrite (pair_up_flat (fun kv => canon cfg (fst kv)) (fun kv => canon cfg (snd kv))). reflexivity.
    - (* VPtr *) intros a p [Hp _]. split; [|exact I]. intro Hd. split; [apply (Hp Hd) | constructor].
    - (* VOPtr *) intros p [Hp _]. split; [|exact I]. intro Hd. split; [apply (Hp Hd) | constructor].
    - (* VIface *) intros p [Hp _]. split; [|exact I]. intro Hd. split; [apply (Hp Hd) | constructor].
    - (* VStruct *) intros sid fs H. split; [|exact I]. intro Hd. cbn [descr] in Hd.
      apply andb_true_iff in Hd as [Hd1 Hd2]. apply andb_true_iff in Hd1 as [Hd1 Hd3].
      pose proof (gofs_rel fs H Hd1 Hd3) as Hrel.
      rewrite items_struct, citems_struct. split; [|exact Hrel].
      rewrite plain_struct, canon_struct.
      destruct (find_record (c_records cfg) sid) as [r|] eqn:Hf.
      + apply reads_record_events; [right; exists sid; exact Hf | | exact Hrel].
        unfold record_names in Hd2. rewrite items_struct in Hd2. apply (proj1 (list_eqb_eq bytes_eqb bytes_eqb_eq _ _)) in Hd2. exact Hd2.
      + apply reads_struct_events. exact Hrel.
    - (* VNode *) intros x ch [Hx _] [_ Hch]. split; [|exact I]. intro Hd. cbn [descr] in Hd.
      apply andb_true_iff in Hd as [Hdx Hdc]. split; [|constructor].
      destruct (Hx Hdx) as [Hrx _].
      set (es := match ch with VSlice _ es => es | _ => [] end).
      assert (Hes : Forall child_ok es) by (subst es; destruct ch; try constructor; exact Hch).
      assert (Hdes : forallb (descr cfg) es = true) by (subst es; destruct ch; try reflexivity; exact Hdc).
      assert (Hp : plain cfg (VNode x ch) = ENode :: plain cfg x ++ flat_map (plain cfg) es ++ [EEnd])
        by (subst es; destruct ch; reflexivity).
      assert (Hcn : canon cfg (VNode x ch) = DNode (canon cfg x) (map (canon cfg) es))
        by (subst es; destruct ch; reflexivity).
      rewrite Hp, Hcn.
      rewrite flat_map_concat, app_assoc.
      change (plain cfg x ++ concat (map (plain cfg) es)) with (concat (plain cfg x :: map (plain cfg) es)).
      apply (reads_container cfg ENode FNode _ (canon cfg x :: map (canon cfg) es)).
      + apply coll_node.
      + intros st [Hl _]. unfold rd_step. rewrite Hl. reflexivity.
      + constructor; [exact Hrx | apply children_reads; assumption].
      + intros env stk done. cbn [close_frame]. rewrite rev_involutive_app. reflexivity.
    - (* VEdge *) intros a b c _ _ _. split; [|exact I]. intro Hd. discriminate Hd.
  Qed.
End DescribesMain.

(* ---- whole documents ---- *)

Section DescribesDoc.
  Variable cfg : icfg.

  Lemma all_strings_map ks : all_strings (map DString ks) = Some ks.
  Proof. induction ks as [|k ks IH]; cbn [map all_strings]; [reflexivity | rewrite IH; reflexivity]. Qed.

  Lemma run_keys n keys env acc done :
    rd_run (mkRS env [FRecType n acc] done false) (map (fun k => EStringArray AT_String k) keys)
    = Some (mkRS env [FRecType n (rev (map DString keys) ++ acc)] done false).
  Proof.
    revert acc. induction keys as [|k keys IH]; intro acc; [reflexivity|].
    cbn [map rd_run]. unfold rd_step. cbn [rs_ended]. 
    change (AT_String =? AT_String) with true. cbv iota.
    unfold push_st. cbn [rs_env rs_stack rs_done push].
    rewrite IH. cbn [rev]. rewrite <- app_assoc. reflexivity.
  Qed.

  Lemma run_rectypes l env done :
    rd_run (mkRS env [] done false) (flat_map (rectype_events cfg) l)
    = Some (mkRS (env ++ map (fun r => (rt_name r, decl_keys cfg r)) l) [] done false).
  Proof.
    revert env. induction l as [|r l IH]; intro env; cbn [flat_map map].
    - rewrite app_nil_r. reflexivity.
    - rewrite rd_run_app. unfold rectype_events at 1.
      cbn [rd_run]. unfold rd_step at 1. cbn [rs_ended rs_stack]. unfold open_frame. cbn [rs_env rs_stack rs_done].
      rewrite rd_run_app, run_keys. cbn [rd_run]. unfold rd_step. cbn [rs_ended rs_stack rs_env rs_done close_frame].
      rewrite app_nil_r, rev_involutive, all_strings_map.
      rewrite IH. rewrite <- app_assoc. reflexivity.
  Qed.

  Lemma find_record_In rs sid r : find_record rs sid = Some r -> In r rs.
  Proof.
    induction rs as [|x rs IH]; cbn [find_record]; [discriminate|].
    destruct (rt_sid x =? sid); [intro E; injection E as ->; left; reflexivity | intro E; right; apply IH; exact E].
  Qed.

  Lemma decl_env_good : records_ok cfg = true -> env_good cfg (decl_env cfg).
  Proof.
    intros H sid r Hf. apply find_record_In in Hf.
    unfold records_ok in H. rewrite forallb_forall in H. specialize (H r Hf).
    destruct (env_find (rt_name r) (decl_env cfg)) as [ks|]; [|discriminate].
    apply (proj1 (list_eqb_eq bytes_eqb bytes_eqb_eq _ _)) in H. rewrite H. reflexivity.
  Qed.

  (* iterate_describes *)
  Theorem iterate_describes root :
    c_recursion cfg = false -> records_ok cfg = true ->
    match root with Some v => descr cfg v = true | None => True end ->
    read_doc (iterate cfg root) = Some (canon_root cfg root).
  Proof.
    intros Hrec Hok Hd. destruct root as [v|]; [|reflexivity].
    unfold iterate, iterate_outcome, value_outcome. rewrite Hrec. cbn [fst canon_root].
    unfold read_doc. unfold rectypes_events.
    rewrite rd_run_app. change rs0 with (mkRS [] [] [] false). rewrite run_rectypes. cbn [app].
    fold (decl_env cfg).
    rewrite rd_run_app.
    destruct (describes_all cfg v) as [Hv _]. destruct (Hv Hd) as [Hr _].
    rewrite (Hr (mkRS (decl_env cfg) [] [] false)) by (split; [reflexivity | apply decl_env_good; exact Hok]).
    reflexivity.
  Qed.
End DescribesDoc.

(* ========================================================================= *)
(* Part 3: the validator accepts the events                                    *)

(* the validator's contexts, ignoring what it forwards *)
Fixpoint steps (rc : rcfg) (c : rctx) (es : list event) : option rctx :=
  match es with
  | [] => Some c
  | e :: r => match rstep rc c e with Some (c1, _) => steps rc c1 r | None => None end
  end.

Lemma steps_app rc c a b :
  steps rc c (a ++ b) = match steps rc c a with Some c1 => steps rc c1 b | None => None end.
Proof.
  revert c. induction a as [|e a IH]; intro c; cbn [steps app]; [reflexivity|].
  destruct (rstep rc c e) as [[c1 o]|]; [apply IH | reflexivity].
Qed.

Lemma run_from_steps rc es : forall c i out c',
  steps rc c es = Some c' -> exists out', run_from rc c i es out = (c', out', None).
Proof.
  induction es as [|e es IH]; intros c i out c' H; cbn [steps] in H; cbn [run_from].
  - injection H as <-. eexists; reflexivity.
  - destruct (rstep rc c e) as [[c1 o]|]; [|discriminate]. apply (IH c1 _ _ c' H).
Qed.

Lemma accepts_steps rc es c' :
  steps rc init_rctx es = Some c' -> e_rule (cur c') = RTerminal -> accepts_document rc es = true.
Proof.
  intros H Hr. unfold accepts_document, run.
  destruct (run_from_steps rc es init_rctx 0 [] c' H) as [out' ->]. rewrite Hr. reflexivity.
Qed.

Lemma weight_app a b : weight (a ++ b) = weight a + weight b.
Proof. induction a as [|e a IH]; cbn [weight app]; [reflexivity | rewrite IH; lia]. Qed.

Section Valid.
  Variable rc : rcfg.
  Variable c0 : rctx.   (* everything that stays fixed while the value is validated *)

  Definition U (cu : entry) (stk : list entry) (d o : N) : rctx :=
    {| cur := cu; stack := stk; depth := d; objects := o; rectypes := rectypes c0; rectype_name := rectype_name c0;
       arr_type := arr_type c0; more_chunks := more_chunks c0; built := built c0; arr_total := arr_total c0;
       chunk_expected := chunk_expected c0; chunk_actual := chunk_actual c0; utf8_rem := utf8_rem c0;
       arr_validator := arr_validator c0; marker_id := marker_id c0; marked := marked c0; fwd := fwd c0;
       refcount := refcount c0 |}.
  Definition E (r : rule) (dt n : N) (ex : option N) (ks : list nkey) : entry :=
    {| e_rule := r; e_dtype := dt; e_count := n; e_expected := ex; e_keys := ks |}.

  (* the positions at which a value may stand, and the rule in force after the value *)
  Definition pos (r : rule) : Prop :=
    match r with RTopLevel | RList | RMapValue | RRecord | RNode => True | _ => False end.
  Definition next (r : rule) : rule :=
    match r with RTopLevel => REndDocument | RMapValue => RMapKey | RNode => RList | x => x end.
  Definition room (n : N) (ex : option N) : Prop :=
    match ex with Some x => n + 1 <= x | None => True end.

  Lemma notify_ok r dt n ex ks stk d o :
    room n ex -> o + 1 <= max_object_count rc ->
    notify_new_object rc true (U (E r dt n ex ks) stk d o) = Some (U (E r dt (n + 1) ex ks) stk d (o + 1)).
  Proof.
    intros Hr Ho. unfold notify_new_object. cbn [cur U E e_count e_expected objects].
    replace (max_object_count rc <? o + 1) with false by (symmetry; apply N.ltb_ge; exact Ho).
    destruct ex as [x|]; cbn [room] in Hr.
    - replace (x <? n + 1) with false by (symmetry; apply N.ltb_ge; exact Hr). reflexivity.
    - reflexivity.
  Qed.

  (* one event that is a whole value, at a value position *)
  Definition scalar_step (e : event) : Prop :=
    forall r dt n ex ks stk d o, pos r -> room n ex -> o + 1 <= max_object_count rc ->
      exists out, rstep rc (U (E r dt n ex ks) stk d o) e = Some (U (E (next r) dt (n + 1) ex ks) stk d (o + 1), out).

  Ltac positions r Hp := destruct r; try (exfalso; exact Hp).

  Lemma S_null : scalar_step ENull.
  Proof.
    intros r dt n ex ks stk d o Hp Hr Ho. eexists. unfold rstep, simple. rewrite notify_ok by assumption. cbn [obind].
    positions r Hp; reflexivity.
  Qed.

  Lemma S_keyable e dt' k :
    (forall c, rstep rc c e = match keyable rc dt' k c with Some c1 => Some (c1, [e]) | None => None end) ->
    scalar_step e.
  Proof.
    intros He r dt n ex ks stk d o Hp Hr Ho. eexists. rewrite He. unfold keyable. rewrite notify_ok by assumption. cbn [obind].
    positions r Hp; reflexivity.
  Qed.

  Lemma S_nonkeyable e e' dt' :
    (forall c, rstep rc c e = match nonkeyable rc dt' c with Some c1 => Some (c1, [e']) | None => None end) ->
    scalar_step e.
  Proof.
    intros He r dt n ex ks stk d o Hp Hr Ho. eexists. rewrite He. unfold nonkeyable. rewrite notify_ok by assumption. cbn [obind].
    positions r Hp; reflexivity.
  Qed.

  Lemma S_bool b : scalar_step (EBool b).
  Proof. apply (S_keyable _ DT_Bool (RkBool b)). reflexivity. Qed.
  Lemma S_int z : scalar_step (EInt z).
  Proof. apply (S_keyable _ DT_Int (RkInt64 z)). reflexivity. Qed.
  Lemma S_posint n : scalar_step (EPosInt n).
  Proof. apply (S_keyable _ DT_Int (RkUint64 n)). reflexivity. Qed.
  Lemma S_bigint z : scalar_step (EBigInt (Some z)).
  Proof. apply (S_keyable _ DT_Int (RkBigInt z)). reflexivity. Qed.
  Lemma S_uid b : scalar_step (EUid b).
  Proof. apply (S_keyable _ DT_UID (RkBytes b)). reflexivity. Qed.
  Lemma S_time t : time_token_valid t = true -> scalar_step (ETime t).
  Proof. intro Ht. apply (S_keyable _ DT_Time (RkTime t)). intro c. unfold rstep. rewrite Ht. reflexivity. Qed.
  Lemma S_float b : scalar_step (EFloat b).
  Proof.
    destruct (f64_is_nan b) eqn:Hn.
    - apply (S_nonkeyable _ (ENan (negb (f64_quiet_bit b))) DT_Nan). intro c. unfold rstep. rewrite Hn. reflexivity.
    - apply (S_nonkeyable _ (EFloat b) DT_Float). intro c. unfold rstep. rewrite Hn. reflexivity.
  Qed.
  Lemma S_bigfloat f : scalar_step (EBigFloat (Some f)).
  Proof. apply (S_nonkeyable _ (EBigFloat (Some f)) DT_Float). reflexivity. Qed.
  Lemma S_decimal x : scalar_step (EDecimal x).
  Proof.
    destruct x.
    - apply (S_nonkeyable _ (EDecimal (DFin neg coef exp)) DT_Float). reflexivity.
    - apply (S_nonkeyable _ (EDecimal (DInf neg)) DT_Float). reflexivity.
    - apply (S_nonkeyable _ (ENan false) DT_Nan). reflexivity.
    - apply (S_nonkeyable _ (ENan true) DT_Nan). reflexivity.
  Qed.
  Lemma S_bigdecimal x : scalar_step (EBigDecimal (Some x)).
  Proof.
    destruct x.
    - apply (S_nonkeyable _ (EBigDecimal (Some (DFin neg coef exp))) DT_Float). reflexivity.
    - apply (S_nonkeyable _ (EBigDecimal (Some (DInf neg))) DT_Float). reflexivity.
    - apply (S_nonkeyable _ (ENan false) DT_Nan). reflexivity.
    - apply (S_nonkeyable _ (ENan true) DT_Nan). reflexivity.
  Qed.

  Lemma S_array t n data :
    array_api_ok t = true -> validate_full_array_any rc t n data = true -> assert_array_type t Allow_Any = true ->
    scalar_step (EArray t n data).
  Proof.
    intros Hapi Hval Hty r dt k ex ks stk d o Hp Hr Ho. eexists. unfold rstep. rewrite Hapi.
    rewrite notify_ok by assumption. cbn [obind]. unfold call_current, call_fuel.
    positions r Hp;
      cbn [call_rule exec_prims exec_prim dispatch cur U E e_rule a_arrty a_count a_data array_args mask_value];
      rewrite ?Hty, Hval; reflexivity.
  Qed.

  Lemma S_media mt data :
    utf8_valid mt = true -> media_type_valid mt = true ->
    validate_full_array_any rc AT_Media (blen data) data = true ->
    scalar_step (EMedia mt data).
  Proof.
    intros Hmt Hmv Hval r dt k ex ks stk d o Hp Hr Ho. eexists. unfold rstep. rewrite Hmt, Hmv. cbn [negb andb].
    rewrite notify_ok by assumption. cbn [obind]. unfold call_current, call_fuel.
    positions r Hp;
      cbn [call_rule exec_prims exec_prim dispatch cur U E e_rule a_arrty a_count a_data array_args mask_value];
      rewrite ?Hval; reflexivity.
  Qed.

  Lemma S_string t data :
    array_api_ok t = true -> validate_full_array_stringlike rc t data = true -> assert_array_type t Allow_Any = true ->
    scalar_step (EStringArray t data).
  Proof.
    intros Hapi Hval Hty r dt k ex ks stk d o Hp Hr Ho. eexists. unfold rstep. rewrite Hapi.
    rewrite notify_ok by assumption. cbn [obind]. unfold call_current, call_fuel.
    positions r Hp;
      cbn [call_rule exec_prims exec_prim dispatch cur U E e_rule a_arrty a_count a_data array_args mask_value];
      rewrite ?Hty, Hval; reflexivity.
  Qed.

  (* ---- containers ---- *)
  Lemma S_open e m r' dt' ex' :
    (forall c, rstep rc c e = match simple rc true m c with Some c1 => Some (c1, [e]) | None => None end) ->
    (forall r, pos r -> forall c, call_rule call_fuel rc r m no_args c
                                  = match begin_container rc r' dt' ex' c with Some c1 => Some c1 | None => None end) ->
    forall r dt n ex ks stk d o, pos r -> room n ex -> o + 1 <= max_object_count rc -> d + 1 <= max_container_depth rc ->
      rstep rc (U (E r dt n ex ks) stk d o) e
      = Some (U (E r' dt' 0 ex' []) (E r dt (n + 1) ex ks :: stk) (d + 1) (o + 1), [e]).
  Proof.
    intros He Hcall r dt n ex ks stk d o Hp Hr Ho Hd. rewrite He. unfold simple. rewrite notify_ok by assumption.
    cbn [obind]. unfold call_current. cbn [cur U E e_rule]. rewrite (Hcall r Hp).
    unfold begin_container. cbn [depth U].
    replace (max_container_depth rc <? d + 1) with false by (symmetry; apply N.ltb_ge; exact Hd).
    reflexivity.
  Qed.

  Lemma S_list : forall r dt n ex ks stk d o, pos r -> room n ex -> o + 1 <= max_object_count rc -> d + 1 <= max_container_depth rc ->
      rstep rc (U (E r dt n ex ks) stk d o) EList
      = Some (U (E RList DT_List 0 None []) (E r dt (n + 1) ex ks :: stk) (d + 1) (o + 1), [EList]).
  Proof. apply (S_open EList MList); [reflexivity|]. intros r Hp c. positions r Hp; reflexivity. Qed.
  Lemma S_map : forall r dt n ex ks stk d o, pos r -> room n ex -> o + 1 <= max_object_count rc -> d + 1 <= max_container_depth rc ->
      rstep rc (U (E r dt n ex ks) stk d o) EMap
      = Some (U (E RMapKey DT_Map 0 None []) (E r dt (n + 1) ex ks :: stk) (d + 1) (o + 1), [EMap]).
  Proof. apply (S_open EMap MMap); [reflexivity|]. intros r Hp c. positions r Hp; reflexivity. Qed.
  Lemma S_node : forall r dt n ex ks stk d o, pos r -> room n ex -> o + 1 <= max_object_count rc -> d + 1 <= max_container_depth rc ->
      rstep rc (U (E r dt n ex ks) stk d o) ENode
      = Some (U (E RNode DT_List 0 None []) (E r dt (n + 1) ex ks :: stk) (d + 1) (o + 1), [ENode]).
  Proof. apply (S_open ENode MNode); [reflexivity|]. intros r Hp c. positions r Hp; reflexivity. Qed.

  Lemma S_record id cnt :
    validate_identifier rc id = true -> alookup id (rectypes c0) = Some cnt ->
    forall r dt n ex ks stk d o, pos r -> room n ex -> o + 1 <= max_object_count rc -> d + 1 <= max_container_depth rc ->
      rstep rc (U (E r dt n ex ks) stk d o) (ERecord id)
      = Some (U (E RRecord DT_Record 0 (Some cnt) []) (E r dt (n + 1) ex ks :: stk) (d + 1) (o + 1), [ERecord id]).
  Proof.
    intros Hid Hlook r dt n ex ks stk d o Hp Hr Ho Hd. unfold rstep. rewrite notify_ok by assumption.
    cbn [obind]. rewrite Hid. unfold call_current, call_fuel.
    positions r Hp;
      cbn [call_rule exec_prims exec_prim dispatch cur U E e_rule a_id with_id rectypes];
      rewrite Hlook; unfold begin_container; cbn [depth U];
      replace (max_container_depth rc <? d + 1) with false by (symmetry; apply N.ltb_ge; exact Hd);
      reflexivity.
  Qed.

  (* the end of a list, a map (at a key position) or a record with all its values *)
  Lemma S_end fr fdt n fex fks r dt n' ex ks stk d o :
    fr = RList \/ fr = RMapKey \/ fr = RRecord -> (fdt =? DT_RecordType) = false ->
    match fex with Some x => n = x | None => True end -> pos r ->
    rstep rc (U (E fr fdt n fex fks) (E r dt n' ex ks :: stk) (d + 1) o) EEnd
    = Some (U (E (next r) dt n' ex ks) stk d o, [EEnd]).
  Proof.
    intros Hfr Hdt Hex Hp. unfold rstep, call_current, call_fuel.
    assert (Hcall : call_rule 6 rc fr MEnd no_args (U (E fr fdt n fex fks) (E r dt n' ex ks :: stk) (d + 1) o)
                    = Some (U (E (next r) dt n' ex ks) stk d o)).
    { assert (Hend : end_container (call_rule 5 rc) true (U (E fr fdt n fex fks) (E r dt n' ex ks :: stk) (d + 1) o)
                     = Some (U (E (next r) dt n' ex ks) stk d o)).
      { unfold end_container. cbn [depth cur U E e_expected e_count e_dtype].
        replace (d + 1 =? 0) with false by (symmetry; apply N.eqb_neq; lia).
        replace (match fex with Some x => negb (n =? x) | None => false end) with false
          by (destruct fex as [x|]; [subst x; rewrite N.eqb_refl; reflexivity | reflexivity]).
        rewrite Hdt. unfold end_container_like, set_depth. cbn [depth cur stack U E e_dtype unstack_rule set_cur set_stack e_rule].
        rewrite N.add_sub.
        positions r Hp; reflexivity. }
      destruct Hfr as [->|[->| ->]];
        (match goal with |- call_rule 6 rc ?fr MEnd no_args ?c = _ =>
           change (call_rule 6 rc fr MEnd no_args c)
             with (match end_container (call_rule 5 rc) true c with Some c1 => Some c1 | None => None end) end);
        rewrite Hend; reflexivity. }
    cbn [cur U E e_rule]. rewrite Hcall. reflexivity.
  Qed.

  (* map keys *)
  Lemma S_key e dt' k n ks stk d o :
    (forall c, rstep rc c e = match keyable rc dt' k c with Some c1 => Some (c1, [e]) | None => None end) ->
    existsb (nkey_eqb (norm_key k)) ks = false -> o + 1 <= max_object_count rc ->
    rstep rc (U (E RMapKey DT_Map n None ks) stk d o) e
    = Some (U (E RMapValue DT_Map (n + 1) None (norm_key k :: ks)) stk d (o + 1), [e]).
  Proof.
    intros He Hfresh Ho. rewrite He. unfold keyable. rewrite notify_ok by (try exact I; assumption). cbn [obind].
    unfold call_current, call_fuel.
    cbn [call_rule exec_prims exec_prim dispatch cur U E e_rule a_key].
    unfold notify_key. cbn [cur U E e_keys]. rewrite Hfresh. reflexivity.
  Qed.

  Lemma S_key_string s n ks stk d o :
    validate_full_array_stringlike rc AT_String s = true ->
    existsb (nkey_eqb (NkString s)) ks = false -> o + 1 <= max_object_count rc ->
    rstep rc (U (E RMapKey DT_Map n None ks) stk d o) (EStringArray AT_String s)
    = Some (U (E RMapValue DT_Map (n + 1) None (NkString s :: ks)) stk d (o + 1), [EStringArray AT_String s]).
  Proof.
    intros Hval Hfresh Ho. unfold rstep. change (array_api_ok AT_String) with true. cbv iota.
    rewrite notify_ok by (try exact I; assumption). cbn [obind].
    unfold call_current, call_fuel.
    cbn [call_rule exec_prims exec_prim dispatch cur U E e_rule a_arrty a_data array_args].
    change (assert_array_type AT_String Allow_Keyable) with true. cbn [andb]. rewrite Hval.
    unfold key_from_array. change (AT_String =? AT_String) with true. cbv iota.
    unfold notify_key. cbn [cur U E e_keys norm_key]. rewrite Hfresh. reflexivity.
  Qed.

  (* ---- values ---- *)
  Variable cfg : icfg.
  (* the validator has seen the record types of the configuration *)
  Hypothesis Hrt : forall sid r, find_record (c_records cfg) sid = Some r ->
    alookup (rt_name r) (rectypes c0) = Some (N.of_nat (length (decl_keys cfg r))).

  (* the events [es] are one value, acceptable d containers deep *)
  Definition ev_ok (d : N) (es : list event) : Prop :=
    forall r dt n ex ks stk o, pos r -> room n ex -> o + weight es <= max_object_count rc ->
      steps rc (U (E r dt n ex ks) stk d o) es = Some (U (E (next r) dt (n + 1) ex ks) stk d (o + weight es)).

  Lemma scalar_ev e d : scalar_step e -> is_end e = false -> ev_ok d [e].
  Proof.
    intros H He r dt n ex ks stk o Hp Hr Ho. cbn [weight] in *. rewrite He in *.
    replace (o + (1 + 0)) with (o + 1) in * by lia.
    destruct (H r dt n ex ks stk d o Hp Hr Ho) as [out Hs]. cbn [steps]. rewrite Hs. reflexivity.
  Qed.

  Lemma len_cons {A} (x : A) l : len (x :: l) = len l + 1.
  Proof. unfold len. cbn [length]. lia. Qed.

  (* children of a list, of a node after its value, or of a record *)
  Lemma children_run fr fdt fex d chunks :
    pos fr -> next fr = fr -> Forall (ev_ok d) chunks ->
    forall n ks stk o,
      match fex with Some x => n + len chunks <= x | None => True end ->
      o + weight (concat chunks) <= max_object_count rc ->
      steps rc (U (E fr fdt n fex ks) stk d o) (concat chunks)
      = Some (U (E fr fdt (n + len chunks) fex ks) stk d (o + weight (concat chunks))).
  Proof.
    intros Hp Hn H. induction H as [|c chunks Hc H IH]; intros n ks stk o Hex Ho.
    - cbn [concat steps weight]. unfold len. cbn [length]. rewrite !N.add_0_r. reflexivity.
    - cbn [concat] in *. rewrite weight_app in Ho. rewrite steps_app. rewrite len_cons in *.
      rewrite (Hc fr fdt n fex ks stk o Hp) by (first [lia | destruct fex; cbn [room]; [lia | exact I]]).
      rewrite Hn. rewrite IH by (first [lia | destruct fex; [lia | exact I]]).
      rewrite weight_app. f_equal. f_equal; [f_equal|]; lia.
  Qed.

  Lemma C_list d chunks :
    d + 1 <= max_container_depth rc -> Forall (ev_ok (d + 1)) chunks ->
    ev_ok d (EList :: concat chunks ++ [EEnd]).
  Proof.
    intros Hd H r dt n ex ks stk o Hp Hr Ho.
    cbn [weight is_end] in *. rewrite weight_app in *. cbn [weight is_end] in *.
    cbn [steps]. rewrite S_list by (try assumption; lia).
    rewrite steps_app. rewrite (children_run RList DT_List None (d + 1) chunks I eq_refl H) by (try exact I; lia).
    cbn [steps]. rewrite S_end by (auto; reflexivity).
    f_equal. f_equal. lia.
  Qed.

  Lemma C_node d c1 chunks :
    d + 1 <= max_container_depth rc -> ev_ok (d + 1) c1 -> Forall (ev_ok (d + 1)) chunks ->
    ev_ok d (ENode :: c1 ++ concat chunks ++ [EEnd]).
  Proof.
    intros Hd H1 H r dt n ex ks stk o Hp Hr Ho.
    cbn [weight is_end] in *. rewrite !weight_app in *. cbn [weight is_end] in *.
    cbn [steps]. rewrite S_node by (try assumption; lia).
    rewrite steps_app. rewrite (H1 RNode DT_List 0 None [] _ _ I I) by lia. cbn [next].
    rewrite steps_app. rewrite (children_run RList DT_List None (d + 1) chunks I eq_refl H) by (try exact I; lia).
    cbn [steps]. rewrite S_end by (auto; reflexivity).
    f_equal. f_equal. lia.
  Qed.

  Lemma C_record d id chunks :
    d + 1 <= max_container_depth rc -> validate_identifier rc id = true ->
    alookup id (rectypes c0) = Some (len chunks) -> Forall (ev_ok (d + 1)) chunks ->
    ev_ok d (ERecord id :: concat chunks ++ [EEnd]).
  Proof.
    intros Hd Hid Hl H r dt n ex ks stk o Hp Hr Ho.
    cbn [weight is_end] in *. rewrite weight_app in *. cbn [weight is_end] in *.
    cbn [steps]. rewrite (S_record id (len chunks)) by (try assumption; lia).
    rewrite steps_app.
    rewrite (children_run RRecord DT_Record (Some (len chunks)) (d + 1) chunks I eq_refl H) by (try lia).
    cbn [steps]. rewrite S_end by (auto; try reflexivity; cbn; lia).
    f_equal. f_equal. lia.
  Qed.

  (* map entries: a key event that adds the key [nk], then the events of the value *)
  Definition key_step (d : N) (ke : event) (nk : nkey) : Prop :=
    is_end ke = false /\
    forall n ks stk o, existsb (nkey_eqb nk) ks = false -> o + 1 <= max_object_count rc ->
      rstep rc (U (E RMapKey DT_Map n None ks) stk d o) ke
      = Some (U (E RMapValue DT_Map (n + 1) None (nk :: ks)) stk d (o + 1), [ke]).
  Definition entry_ok (d : N) (en : event * nkey * list event) : Prop :=
    key_step d (fst (fst en)) (snd (fst en)) /\ ev_ok d (snd en).
  Definition entry_events (en : event * nkey * list event) : list event := fst (fst en) :: snd en.

  Lemma entries_run d ens :
    Forall (entry_ok d) ens ->
    forall n ks stk o,
      keys_fresh ks (map (fun en => snd (fst en)) ens) = true ->
      o + weight (flat_map entry_events ens) <= max_object_count rc ->
      exists n' ks',
        steps rc (U (E RMapKey DT_Map n None ks) stk d o) (flat_map entry_events ens)
        = Some (U (E RMapKey DT_Map n' None ks') stk d (o + weight (flat_map entry_events ens))).
  Proof.
    intro H. induction H as [|[[ke nk] ves] ens [[Hke Hk] Hv] H IH]; intros n ks stk o Hf Ho.
    - exists n, ks. cbn [flat_map steps weight]. rewrite N.add_0_r. reflexivity.
    - cbn [flat_map entry_events fst snd map keys_fresh] in *.
      apply andb_true_iff in Hf as [Hf1 Hf2]. apply negb_true_iff in Hf1.
      unfold entry_events in *. cbn [fst snd] in *. cbn [weight app] in Ho. rewrite Hke in Ho. rewrite weight_app in Ho.
      cbn [app steps]. rewrite Hk by (try assumption; lia).
      rewrite steps_app. rewrite (Hv RMapValue DT_Map (n + 1) None (nk :: ks) stk (o + 1) I I) by lia.
      cbn [next].
      destruct (IH (n + 1 + 1) (nk :: ks) stk (o + 1 + weight ves) Hf2) as [n' [ks' Hs]]; [lia|].
      exists n', ks'. rewrite Hs. cbn [weight]. rewrite Hke, weight_app. f_equal. f_equal. lia.
  Qed.

  Lemma C_map d ens :
    d + 1 <= max_container_depth rc -> Forall (entry_ok (d + 1)) ens ->
    keys_fresh [] (map (fun en => snd (fst en)) ens) = true ->
    ev_ok d (EMap :: flat_map entry_events ens ++ [EEnd]).
  Proof.
    intros Hd H Hf r dt n ex ks stk o Hp Hr Ho.
    cbn [weight is_end] in *. rewrite weight_app in *. cbn [weight is_end] in *.
    cbn [steps]. rewrite S_map by (try assumption; lia).
    rewrite steps_app.
    destruct (entries_run (d + 1) ens H 0 [] (E r dt (n + 1) ex ks :: stk) (o + 1) Hf) as [n' [ks' Hs]]; [lia|].
    rewrite Hs. cbn [steps]. rewrite S_end by (auto; reflexivity).
    f_equal. f_equal. lia.
  Qed.

  (* ---- leaves ---- *)
  Lemma array_bits_at_of k : array_bits (at_of k) = Some (8 * N.of_nat (width_of k)).
  Proof. destruct k; reflexivity. Qed.
  Lemma width_bounds k : 1 <= N.of_nat (width_of k) <= 8.
  Proof. destruct k; cbn [width_of]; lia. Qed.

  Lemma elem_byte_count_bytes w n :
    1 <= w -> n * (8 * w) < two64 -> elem_byte_count (8 * w) n = n * w.
  Proof.
    intros Hw Hlt. unfold elem_byte_count.
    replace (8 * w =? 1) with false by (symmetry; apply N.eqb_neq; lia). cbn [andb].
    rewrite N.mod_small by exact Hlt.
    replace (n * (8 * w)) with (n * w * 8) by lia. apply N.div_mul. lia.
  Qed.

  Lemma blen_num_bytes k es : blen (num_bytes k es) = len es * N.of_nat (width_of k).
  Proof.
    unfold blen, len, num_bytes. induction es as [|z es IH]; cbn [flat_map length]; [lia|].
    rewrite app_length. unfold elem_bytes at 1. rewrite le_encode_length. lia.
  Qed.

  Lemma pack_loop_length v i n : length (pack_bools_loop v i n) = n.
  Proof. revert i. induction n as [|n IH]; intro i; cbn [pack_bools_loop length]; [reflexivity | rewrite IH; reflexivity]. Qed.

  Lemma L_num d sk k es : vok rc cfg d (VNum sk k es) = true -> ev_ok d (plain cfg (VNum sk k es)).
  Proof.
    intro H. cbn [vok] in H. apply andb_true_iff in H as [H1 H2]. apply N.ltb_lt in H1.
    apply scalar_ev; [|reflexivity]. apply S_array.
    - destruct k; reflexivity.
    - unfold validate_full_array_any.
      replace (is_stringlike_validated (at_of k)) with false by (destruct k; reflexivity).
      rewrite array_bits_at_of. rewrite H2. rewrite blen_num_bytes.
      pose proof (width_bounds k) as Hw.
      rewrite elem_byte_count_bytes by (try lia; unfold two64 in *; nia). rewrite N.eqb_refl. reflexivity.
    - destruct k; reflexivity.
  Qed.

  Lemma L_bools d sk l : vok rc cfg d (VBools sk l) = true -> ev_ok d (plain cfg (VBools sk l)).
  Proof.
    intro H. cbn [vok] in H. apply andb_true_iff in H as [_ H2].
    apply scalar_ev; [|reflexivity]. apply S_array; [reflexivity| |reflexivity].
    unfold validate_full_array_any. change (is_stringlike_validated AT_Bit) with false. cbv iota.
    change (array_bits AT_Bit) with (Some 1). cbv iota. rewrite H2.
    unfold blen, pack_bools. rewrite pack_loop_length, N2Nat.id. unfold bool_byte_count. rewrite N.eqb_refl. reflexivity.
  Qed.

  Lemma L_string d s : vok rc cfg d (VString s) = true -> ev_ok d (plain cfg (VString s)).
  Proof.
    intro H. cbn [vok] in H. apply scalar_ev; [|reflexivity]. apply S_string; [reflexivity | exact H | reflexivity].
  Qed.
  Lemma L_url d z s : vok rc cfg d (VUrl z s) = true -> ev_ok d (plain cfg (VUrl z s)).
  Proof.
    intro H. cbn [vok] in H. apply scalar_ev; [|reflexivity]. apply S_string; [reflexivity | exact H | reflexivity].
  Qed.
  Lemma L_media d z mt data : vok rc cfg d (VMedia z mt data) = true -> ev_ok d (plain cfg (VMedia z mt data)).
  Proof.
    intro H. cbn [vok] in H. apply andb_true_iff in H as [H H3]. apply andb_true_iff in H as [H1 H2]. apply N.ltb_lt in H2.
    apply andb_true_iff in H1 as [H1 H1v].
    apply scalar_ev; [|reflexivity]. apply S_media; [exact H1|exact H1v|].
    unfold validate_full_array_any. change (is_stringlike_validated AT_Media) with false. cbv iota.
    change (array_bits AT_Media) with (Some (8 * 1)). cbv iota. rewrite H3.
    rewrite elem_byte_count_bytes by (unfold two64 in *; lia). rewrite N.mul_1_r, N.eqb_refl. reflexivity.
  Qed.

  (* ---- map keys ---- *)
  Lemma key_of_step : forall k rk d,
    key_of k = Some rk -> vok rc cfg d k = true ->
    exists ke, plain cfg k = [ke] /\ key_step d ke (norm_key rk).
  Proof.
    apply (gval_ind' (fun k => forall rk d, key_of k = Some rk -> vok rc cfg d k = true ->
                                exists ke, plain cfg k = [ke] /\ key_step d ke (norm_key rk)));
      try (intros; cbn [key_of] in *; discriminate).
    - intros b rk d H _. injection H as <-. exists (EBool b). split; [reflexivity|]. split; [reflexivity|].
      intros n ks stk o Hf Ho. apply (S_key _ DT_Bool (RkBool b)); [reflexivity | exact Hf | exact Ho].
    - intros z rk d H _. injection H as <-. exists (EInt z). split; [reflexivity|]. split; [reflexivity|].
      intros n ks stk o Hf Ho. apply (S_key _ DT_Int (RkInt64 z)); [reflexivity | exact Hf | exact Ho].
    - intros x rk d H _. injection H as <-. exists (EPosInt x). split; [reflexivity|]. split; [reflexivity|].
      intros n ks stk o Hf Ho. apply (S_key _ DT_Int (RkUint64 x)); [reflexivity | exact Hf | exact Ho].
    - intros s rk d H Hv. injection H as <-. exists (EStringArray AT_String s). split; [reflexivity|]. split; [reflexivity|].
      intros n ks stk o Hf Ho. apply S_key_string; [exact Hv | exact Hf | exact Ho].
    - intros p IH rk d H Hv. apply (IH rk d H Hv).
    - intros p IH rk d H Hv. apply (IH rk d H Hv).
    - intros z t rk d H Hv. injection H as <-. exists (ETime t). split; [reflexivity|]. split; [reflexivity|].
      cbn [vok] in Hv.
      intros n ks stk o Hf Ho. apply (S_key _ DT_Time (RkTime t)); [intro c; unfold rstep; rewrite Hv; reflexivity | exact Hf | exact Ho].
    - intros z x rk d H _. injection H as <-. exists (EBigInt (Some x)). split; [reflexivity|]. split; [reflexivity|].
      intros n ks stk o Hf Ho. apply (S_key _ DT_Int (RkBigInt x)); [reflexivity | exact Hf | exact Ho].
    - intros b rk d H _. injection H as <-. exists (EUid b). split; [reflexivity|]. split; [reflexivity|].
      intros n ks stk o Hf Ho. apply (S_key _ DT_UID (RkBytes b)); [reflexivity | exact Hf | exact Ho].
  Qed.

  (* ---- fewer enclosing containers is easier ---- *)
  Lemma forallb_impl {A} (f g : A -> bool) l :
    Forall (fun x => f x = true -> g x = true) l -> forallb f l = true -> forallb g l = true.
  Proof.
    intro H. induction H as [|x l Hx H IH]; cbn [forallb]; [trivial|].
    intro E. apply andb_true_iff in E as [E1 E2]. rewrite (Hx E1), (IH E2). reflexivity.
  Qed.

  Lemma leb_mono d d' m : d <= d' -> (d' + 1 <=? m) = true -> (d + 1 <=? m) = true.
  Proof. intros H E. apply N.leb_le in E. apply N.leb_le. lia. Qed.

  Lemma vok_mono : forall v d d', d <= d' -> vok rc cfg d' v = true -> vok rc cfg d v = true.
  Proof.
    apply (gval_ind' (fun v => forall d d', d <= d' -> vok rc cfg d' v = true -> vok rc cfg d v = true));
      try (intros; cbn [vok] in *; assumption).
    - intros a es IH d d' Hd H. cbn [vok] in *. apply andb_true_iff in H as [H1 H2].
      rewrite (leb_mono d d' _ Hd H1). cbn [andb].
      revert H2. apply forallb_impl. eapply Forall_impl; [|exact IH]. intros x Hx. apply Hx. lia.
    - intros es IH d d' Hd H. cbn [vok] in *. apply andb_true_iff in H as [H1 H2].
      rewrite (leb_mono d d' _ Hd H1). cbn [andb].
      revert H2. apply forallb_impl. eapply Forall_impl; [|exact IH]. intros x Hx. apply Hx. lia.
    - intros a kvs IH d d' Hd H. cbn [vok] in *. apply andb_true_iff in H as [H H3]. apply andb_true_iff in H as [H1 H2].
      rewrite (leb_mono d d' _ Hd H1), H3. cbn [andb]. rewrite andb_true_r.
      revert H2. apply forallb_impl. eapply Forall_impl; [|exact IH]. intros kv [Hk Hv] E.
      apply andb_true_iff in E as [E E3]. apply andb_true_iff in E as [E1 E2].
      rewrite E1, (Hk (d + 1) (d' + 1)), (Hv (d + 1) (d' + 1)) by (assumption || lia). reflexivity.
    - intros a p IH d d' Hd H. cbn [vok] in *. apply (IH d d' Hd H).
    - intros p IH d d' Hd H. cbn [vok] in *. apply (IH d d' Hd H).
    - intros p IH d d' Hd H. cbn [vok] in *. apply (IH d d' Hd H).
    - intros sid fs IH d d' Hd H. cbn [vok] in *. apply andb_true_iff in H as [H H3]. apply andb_true_iff in H as [H1 H2].
      rewrite (leb_mono d d' _ Hd H1), H3. cbn [andb]. rewrite andb_true_r.
      revert H2. apply forallb_impl. eapply Forall_impl; [|exact IH]. intros iv Hx. apply Hx. lia.
    - intros x ch IHx IHc d d' Hd H. cbn [vok] in *. apply andb_true_iff in H as [H H3]. apply andb_true_iff in H as [H1 H2].
      rewrite (leb_mono d d' _ Hd H1), (IHx (d + 1) (d' + 1)) by (assumption || lia). cbn [andb].
      destruct ch; try exact H3.
      specialize (IHc (d) (d') Hd). cbn [vok] in IHc.
      (* children of the node: from the slice's own monotonicity at one level less *)
      assert (Hs : forall m, (m + 1 <=? max_container_depth rc) && forallb (vok rc cfg (m + 1)) elems = true ->
                             forallb (vok rc cfg (m + 1)) elems = true)
        by (intros m E; apply andb_true_iff in E as [_ E]; exact E).
      apply Hs. apply IHc. rewrite H1, H3. reflexivity.
  Qed.

  (* ---- the main induction ---- *)
  Definition child_v (c : gval) : Prop := forall d, vok rc cfg d c = true -> ev_ok d (plain cfg c).
  Definition Pv (v : gval) : Prop :=
    (forall d, vok rc cfg d v = true ->
       ev_ok d (plain cfg v) /\ Forall (fun it : item => ev_ok (d + 1) (snd it)) (items_of cfg v))
    /\ match v with VSlice _ es => Forall child_v es | _ => True end.

  Lemma Pv_children es : Forall Pv es -> Forall child_v es.
  Proof. intro H. eapply Forall_impl; [|exact H]. intros c [Hc _] d Hd. apply (Hc d Hd). Qed.

  Lemma children_ok d es :
    Forall child_v es -> forallb (vok rc cfg d) es = true -> Forall (ev_ok d) (map (plain cfg) es).
  Proof.
    intros H Hd. induction H as [|c es Hc H IH]; cbn [map]; [constructor|].
    cbn [forallb] in Hd. apply andb_true_iff in Hd as [Hd1 Hd2].
    constructor; [apply Hc; exact Hd1 | apply IH; exact Hd2].
  Qed.

  Lemma Forall_ins_by {A} (P : A -> Prop) key x l : P x -> Forall P l -> Forall P (ins_by key x l).
  Proof.
    intros Hx H. induction H as [|y l Hy H IH]; cbn [ins_by]; [constructor; [exact Hx | constructor]|].
    destruct (key x <=? key y)%Z; constructor; try assumption. constructor; assumption.
  Qed.
  Lemma Forall_kept {A} (P : gitem A -> Prop) l : Forall P l -> Forall P (kept_items l).
  Proof.
    intro H. unfold kept_items, sorted_items.
    assert (Hs : Forall P (sort_by gitem_order l)).
    { induction H as [|x l Hx H IH]; cbn [sort_by fold_right]; [constructor | apply Forall_ins_by; assumption]. }
    clear H. induction Hs as [|x s Hx Hs IH]; cbn [filter]; [constructor|].
    destruct (snd (fst x)); [constructor|]; assumption.
  Qed.

  Lemma Forall_declared {A} (P : gitem A -> Prop) l : Forall P l -> Forall P (declared_items cfg l).
  Proof.
    intro H. unfold declared_items, sorted_items.
    assert (Hs : Forall P (sort_by gitem_order l)).
    { induction H as [|x l Hx H IH]; cbn [sort_by fold_right]; [constructor | apply Forall_ins_by; assumption]. }
    clear H. induction Hs as [|x s Hx Hs IH]; cbn [filter]; [constructor|].
    destruct (should_include cfg (fst (fst x)) false false); [constructor|]; assumption.
  Qed.

  Lemma gofs_ok d fs :
    Forall (fun iv => Pv (snd iv)) fs -> forallb (fun iv => vok rc cfg (d + 1) (snd iv)) fs = true ->
    Forall (fun it : item => ev_ok (d + 1) (snd it)) (gofs cfg fs).
  Proof.
    intros H Hd. induction H as [|[i x] fs [Hx _] H IH]; [constructor|].
    cbn [forallb snd] in Hd. apply andb_true_iff in Hd as [Hd1 Hd2]. cbn [snd] in Hx.
    cbn [gofs]. apply Forall_app. split; [|apply IH; exact Hd2].
    destruct (extractable i); [|constructor].
    destruct (flattened i x).
    - apply (Hx d). apply (vok_mono x d (d + 1)); [lia | exact Hd1].
    - constructor; [|constructor]. cbn [snd]. apply (Hx (d + 1) Hd1).
  Qed.

  Lemma map_entries d kvs :
    Forall (fun kv => Pv (fst kv) /\ Pv (snd kv)) kvs ->
    forallb (fun kv => is_some (key_of (fst kv)) && vok rc cfg d (fst kv) && vok rc cfg d (snd kv)) kvs = true ->
    exists ens,
      flat_map (fun kv => plain cfg (fst kv) ++ plain cfg (snd kv)) kvs = flat_map entry_events ens
      /\ Forall (entry_ok d) ens
      /\ map (fun en => snd (fst en)) ens = map (fun kv => key_norm (fst kv)) kvs.
  Proof.
    intros H Hd. induction H as [|[k v] kvs [_ [Hv _]] H IH].
    - exists []. repeat split; constructor.
    - cbn [forallb fst snd] in Hd. apply andb_true_iff in Hd as [Hd1 Hd2].
      apply andb_true_iff in Hd1 as [Hd1 Hdv]. apply andb_true_iff in Hd1 as [Hsome Hdk]. cbn [snd] in Hv.
      destruct (IH Hd2) as [ens [E1 [E2 E3]]].
      destruct (key_of k) as [rk|] eqn:Hk; [|discriminate].
      destruct (key_of_step k rk d Hk Hdk) as [ke [Hpk Hks]].
      exists ((ke, norm_key rk, plain cfg v) :: ens). repeat split.
      + cbn [flat_map fst snd]. unfold entry_events at 1. cbn [fst snd]. rewrite Hpk, E1. reflexivity.
      + constructor; [|exact E2]. split; [exact Hks | apply (Hv d Hdv)].
      + cbn [map fst snd]. unfold key_norm at 1. rewrite Hk, E3. reflexivity.
  Qed.

  Lemma flat_concat_map {A} (f : A -> list event) l : flat_map f l = concat (map f l).
  Proof. induction l as [|x l IH]; cbn; [reflexivity | rewrite IH; reflexivity]. Qed.

  Lemma valid_all : forall v, Pv v.
  Proof.
    apply gval_ind'.
    - intro b. split; [|exact I]. intros d _. split; [apply scalar_ev; [apply S_bool | reflexivity] | constructor].
    - intro z. split; [|exact I]. intros d _. split; [apply scalar_ev; [apply S_int | reflexivity] | constructor].
    - intro n. split; [|exact I]. intros d _. split; [apply scalar_ev; [apply S_posint | reflexivity] | constructor].
    - intro w. split; [|exact I]. intros d _. split; [apply scalar_ev; [apply S_float | reflexivity] | constructor].
    - intro b. split; [|exact I]. intros d _. split; [apply scalar_ev; [apply S_float | reflexivity] | constructor].
    - intro s. split; [|exact I]. intros d H. split; [apply L_string; exact H | constructor].
    - intros sk k es. split; [|exact I]. intros d H. split; [apply L_num; exact H | constructor].
    - intros sk l. split; [|exact I]. intros d H. split; [apply L_bools; exact H | constructor].
    - (* VSlice *) intros a es H. pose proof (Pv_children es H) as Hc. split; [|exact Hc].
      intros d Hd. cbn [vok] in Hd. apply andb_true_iff in Hd as [Hd1 Hd2]. apply N.leb_le in Hd1.
      split; [|constructor]. rewrite plain_list, flat_concat_map.
      apply C_list; [exact Hd1 | apply children_ok; assumption].
    - split; [|exact I]. intros d _. split; [apply scalar_ev; [apply S_null | reflexivity] | constructor].
    - (* VArray *) intros es H. pose proof (Pv_children es H) as Hc. split; [|exact I].
      intros d Hd. cbn [vok] in Hd. apply andb_true_iff in Hd as [Hd1 Hd2]. apply N.leb_le in Hd1.
      split; [|constructor]. rewrite plain_array, flat_concat_map.
      apply C_list; [exact Hd1 | apply children_ok; assumption].
    - (* VMap *) intros a kvs H. split; [|exact I]. intros d Hd. cbn [vok] in Hd.
      apply andb_true_iff in Hd as [Hd Hd3]. apply andb_true_iff in Hd as [Hd1 Hd2]. apply N.leb_le in Hd1.
      split; [|constructor]. rewrite plain_map.
      destruct (map_entries (d + 1) kvs H Hd2) as [ens [E1 [E2 E3]]].
      rewrite E1. apply C_map; [exact Hd1 | exact E2 | rewrite E3; exact Hd3].
    - split; [|exact I]. intros d _. split; [apply scalar_ev; [apply S_null | reflexivity] | constructor].
    - intros a p [Hp _]. split; [|exact I]. intros d Hd. split; [apply (Hp d Hd) | constructor].
    - split; [|exact I]. intros d _. split; [apply scalar_ev; [apply S_null | reflexivity] | constructor].
    - intros p [Hp _]. split; [|exact I]. intros d Hd. split; [apply (Hp d Hd) | constructor].
    - intros p [Hp _]. split; [|exact I]. intros d Hd. split; [apply (Hp d Hd) | constructor].
    - split; [|exact I]. intros d _. split; [apply scalar_ev; [apply S_null | reflexivity] | constructor].
    - (* VStruct *) intros sid fs H. split; [|exact I]. intros d Hd. cbn [vok] in Hd.
      apply andb_true_iff in Hd as [Hd Hd3]. apply andb_true_iff in Hd as [Hd1 Hd2]. apply N.leb_le in Hd1.
      pose proof (gofs_ok d fs H Hd2) as Hits.
      rewrite items_struct. split; [|exact Hits].
      pose proof (Forall_kept _ _ Hits) as Hk.
      pose proof (Forall_declared _ _ Hits) as Hdecl.
      rewrite plain_struct. unfold kept_names, record_names in Hd3. rewrite items_struct in Hd3.
      destruct (find_record (c_records cfg) sid) as [r|] eqn:Hf.
      + apply andb_true_iff in Hd3 as [Hid Hlen]. apply Nat.eqb_eq in Hlen. rewrite map_length in Hlen.
        unfold record_events. rewrite flat_concat_map.
        apply C_record; [exact Hd1 | exact Hid | | ].
        * rewrite (Hrt sid r Hf). rewrite <- Hlen. unfold len. f_equal. f_equal. symmetry. apply map_length.
        * clear Hlen. induction Hdecl as [|x K Hx Hdecl IH]; cbn [map]; constructor; assumption.
      + apply andb_true_iff in Hd3 as [Hnames Hfresh].
        unfold struct_events.
        set (K := kept_items (gofs cfg fs)) in *.
        set (ens := map (fun it : item => (EStringArray AT_String (field_name cfg (fst (fst it))), NkString (field_name cfg (fst (fst it))), snd it)) K).
        assert (E1 : flat_map (fun it : finfo * bool * list event => EStringArray AT_String (field_name cfg (fst (fst it))) :: snd it) K
                     = flat_map entry_events ens).
        { subst ens. clear. induction K as [|x K IH]; [reflexivity|]. cbn [flat_map map]. rewrite IH. reflexivity. }
        rewrite E1. apply C_map; [exact Hd1 | | ].
        * subst ens. clear E1 Hfresh. induction Hk as [|x K Hx Hk IH]; cbn [map]; [constructor|].
          cbn [map forallb] in Hnames. apply andb_true_iff in Hnames as [Hn1 Hn2].
          constructor; [|apply IH; exact Hn2].
          split; [|exact Hx]. cbn [fst snd]. split; [reflexivity|].
          intros n ks stk o Hfr Ho. apply S_key_string; [exact Hn1 | exact Hfr | exact Ho].
        * subst ens. rewrite map_map. cbn [fst snd]. rewrite map_map in Hfresh. exact Hfresh.
    - intros z t. split; [|exact I]. intros d H. cbn [vok] in H. split; [apply scalar_ev; [apply S_time; exact H | reflexivity] | constructor].
    - intros z t. split; [|exact I]. intros d H. split; [apply (L_url d z t H) | constructor].
    - intros z x. split; [|exact I]. intros d _. split; [apply scalar_ev; [apply S_bigint | reflexivity] | constructor].
    - intros z x. split; [|exact I]. intros d _. split; [apply scalar_ev; [apply S_bigfloat | reflexivity] | constructor].
    - intros z x. split; [|exact I]. intros d _. split; [apply scalar_ev; [apply S_bigdecimal | reflexivity] | constructor].
    - intros z x. split; [|exact I]. intros d _. split; [apply scalar_ev; [apply S_decimal | reflexivity] | constructor].
    - intro b. split; [|exact I]. intros d _. split; [apply scalar_ev; [apply S_uid | reflexivity] | constructor].
    - intros z mt dt. split; [|exact I]. intros d H. split; [apply (L_media d z mt dt H) | constructor].
    - (* VNode *) intros x ch [Hx _] [_ Hch]. split; [|exact I]. intros d Hd. cbn [vok] in Hd.
      apply andb_true_iff in Hd as [Hd Hd3]. apply andb_true_iff in Hd as [Hd1 Hd2]. apply N.leb_le in Hd1.
      split; [|constructor].
      set (es := match ch with VSlice _ es => es | _ => [] end).
      assert (Hes : Forall child_v es) by (subst es; destruct ch; try constructor; exact Hch).
      assert (Hdes : forallb (vok rc cfg (d + 1)) es = true) by (subst es; destruct ch; try reflexivity; exact Hd3).
      assert (Hp : plain cfg (VNode x ch) = ENode :: plain cfg x ++ concat (map (plain cfg) es) ++ [EEnd])
        by (subst es; rewrite <- flat_concat_map; destruct ch; reflexivity).
      rewrite Hp. apply C_node; [exact Hd1 | apply (Hx (d + 1) Hd2) | apply children_ok; assumption].
    - (* VEdge *) intros a b c _ _ _. split; [|exact I]. intros d Hd. discriminate Hd.
  Qed.

End Valid.

(* ---- the head of the document and whole documents ---- *)

Section ValidDoc.
  Variable rc : rcfg.
  Variable cfg : icfg.

  (* contexts of a document: everything but these six fields stays as in init_rctx *)
  Definition W (rts : list (bytes * N)) (rname : bytes) (cu : entry) (stk : list entry) (d o : N) : rctx :=
    {| cur := cu; stack := stk; depth := d; objects := o; rectypes := rts; rectype_name := rname;
       arr_type := 0; more_chunks := false; built := []; arr_total := 0; chunk_expected := 0; chunk_actual := 0;
       utf8_rem := []; arr_validator := VNothing; marker_id := []; marked := []; fwd := []; refcount := 0 |}.
  Definition TL : entry := E RTopLevel DT_Invalid 0 None [].

  Lemma W_U rts rname cu stk d o cu0 stk0 d0 o0 :
    W rts rname cu stk d o = U (W rts rname cu0 stk0 d0 o0) cu stk d o.
  Proof. reflexivity. Qed.

  Lemma bytes_eqb_refl b : bytes_eqb b b = true.
  Proof. apply bytes_eqb_eq. reflexivity. Qed.

  Lemma alookup_aremove_other n k l : bytes_eqb n k = false -> alookup n (aremove k l) = alookup n l.
  Proof.
    intro H. induction l as [|[k' v'] l IH]; [reflexivity|]. cbn [aremove alookup].
    destruct (bytes_eqb k k') eqn:E.
    - apply bytes_eqb_eq in E. subst k'. rewrite H. exact IH.
    - cbn [alookup]. rewrite IH. reflexivity.
  Qed.
  Lemma alookup_aset_same k v l : alookup k (aset k v l) = Some v.
  Proof. unfold aset. cbn [alookup]. rewrite bytes_eqb_refl. reflexivity. Qed.
  Lemma alookup_aset_other n k v l : bytes_eqb n k = false -> alookup n (aset k v l) = alookup n l.
  Proof. intro H. unfold aset. cbn [alookup]. rewrite H. apply alookup_aremove_other. exact H. Qed.

  (* the keys of one record type *)
  Lemma rectype_keys_run rts name keys :
    forall n ks o,
      forallb (string_ok rc) keys = true -> keys_fresh ks (map NkString keys) = true ->
      o + len keys <= max_object_count rc ->
      steps rc (W rts name (E RRecordType DT_RecordType n None ks) [TL] 1 o) (map (fun k => EStringArray AT_String k) keys)
      = Some (W rts name (E RRecordType DT_RecordType (n + len keys) None (rev (map NkString keys) ++ ks)) [TL] 1 (o + len keys)).
  Proof.
    induction keys as [|k keys IH]; intros n ks o Hs Hf Ho.
    - cbn [map steps rev app]. unfold len. cbn [length]. rewrite !N.add_0_r. reflexivity.
    - cbn [map forallb keys_fresh] in *. rewrite len_cons in *.
      apply andb_true_iff in Hs as [Hs1 Hs2]. apply andb_true_iff in Hf as [Hf1 Hf2]. apply negb_true_iff in Hf1.
      cbn [steps]. unfold rstep. change (array_api_ok AT_String) with true. cbv iota.
      rewrite (W_U rts name _ _ _ _ TL [] 0 0).
      rewrite notify_ok by (try exact I; lia). cbn [obind]. unfold call_current, call_fuel.
      cbn [call_rule exec_prims exec_prim dispatch cur U E e_rule a_arrty a_data array_args].
      change (assert_array_type AT_String Allow_Keyable) with true. cbn [andb].
      change (validate_full_array_stringlike rc AT_String k) with (string_ok rc k). rewrite Hs1.
      unfold key_from_array. change (AT_String =? AT_String) with true. cbv iota.
      unfold notify_key. cbn [cur U E e_keys norm_key]. rewrite Hf1.
      match goal with |- steps rc ?c _ = _ =>
        change c with (W rts name (E RRecordType DT_RecordType (n + 1) None (NkString k :: ks)) [TL] 1 (o + 1)) end.
      rewrite IH by (try assumption; lia).
      cbn [rev]. rewrite <- app_assoc. cbn [app]. f_equal. f_equal; [f_equal|]; lia.
  Qed.

  Lemma rectype_run r rts rname o :
    validate_identifier rc (rt_name r) = true -> alookup (rt_name r) rts = None ->
    forallb (string_ok rc) (decl_keys cfg r) = true -> keys_fresh [] (map NkString (decl_keys cfg r)) = true ->
    1 <= max_container_depth rc -> o + 1 + len (decl_keys cfg r) <= max_object_count rc ->
    steps rc (W rts rname TL [] 0 o) (rectype_events cfg r)
    = Some (W (aset (rt_name r) (len (decl_keys cfg r)) rts) (rt_name r) TL [] 0 (o + 1 + len (decl_keys cfg r))).
  Proof.
    intros Hid Hnone Hs Hf Hd Ho. unfold rectype_events. set (keys := decl_keys cfg r) in *. set (name := rt_name r) in *.
    cbn [steps].
    (* the record type begins *)
    assert (H1 : rstep rc (W rts rname TL [] 0 o) (ERecordType name)
                 = Some (W rts name (E RRecordType DT_RecordType 0 None []) [TL] 1 (o + 1), [ERecordType name])).
    { unfold TL. unfold rstep, notify_new_object. cbn [cur W E e_count e_expected objects andb].
      replace (max_object_count rc <? o + 1) with false by (symmetry; apply N.ltb_ge; lia).
      cbn [obind]. rewrite Hid. unfold call_current, call_fuel.
      cbn [call_rule exec_prims exec_prim dispatch cur set_objects set_cur e_rule stack W E].
      unfold begin_container. cbn [depth set_objects set_cur W].
      replace (max_container_depth rc <? 0 + 1) with false by (symmetry; apply N.ltb_ge; lia).
      reflexivity. }
    rewrite H1. rewrite steps_app.
    rewrite (rectype_keys_run rts name keys 0 [] (o + 1)) by (try assumption; lia).
    (* the record type ends *)
    cbn [steps]. unfold rstep, call_current, call_fuel. cbn [cur W E e_rule].
    match goal with |- match (match call_rule 6 rc RRecordType MEnd no_args ?c with _ => _ end) with _ => _ end = _ =>
      assert (H3 : call_rule 6 rc RRecordType MEnd no_args c
                   = Some (W (aset name (0 + len keys) rts) name TL [] 0 (o + 1 + len keys))) end.
    { match goal with |- call_rule 6 rc RRecordType MEnd no_args ?c = _ =>
        change (call_rule 6 rc RRecordType MEnd no_args c)
          with (match end_container (call_rule 5 rc) false c with Some c1 => Some c1 | None => None end) end.
      unfold end_container. cbn [depth cur W E e_expected e_count e_dtype rectype_name rectypes].
      change (1 =? 0) with false. change (DT_RecordType =? DT_RecordType) with true. cbv iota.
      rewrite Hnone. reflexivity. }
    rewrite H3. rewrite N.add_0_l. reflexivity.
  Qed.

  Definition inv_seen (seen : list bytes) (rts : list (bytes * N)) : Prop :=
    forall n, existsb (bytes_eqb n) seen = false -> alookup n rts = None.

  Definition rt_ok (r : rectype) : bool :=
    validate_identifier rc (rt_name r) && forallb (string_ok rc) (decl_keys cfg r)
    && keys_fresh [] (map NkString (decl_keys cfg r)).

  Lemma weight_rectype r : weight (rectype_events cfg r) = 1 + len (decl_keys cfg r).
  Proof.
    unfold rectype_events. cbn [weight is_end]. rewrite weight_app. cbn [weight is_end].
    assert (H : forall ks, weight (map (fun k => EStringArray AT_String k) ks) = len ks).
    { induction ks as [|k ks IH]; [reflexivity|]. cbn [map weight is_end]. rewrite IH, len_cons. lia. }
    rewrite H. lia.
  Qed.

  Lemma header_run l :
    forall rts rname o seen,
      names_fresh seen (map rt_name l) = true -> inv_seen seen rts -> forallb rt_ok l = true ->
      1 <= max_container_depth rc -> o + weight (flat_map (rectype_events cfg) l) <= max_object_count rc ->
      exists rts' rname',
        steps rc (W rts rname TL [] 0 o) (flat_map (rectype_events cfg) l)
        = Some (W rts' rname' TL [] 0 (o + weight (flat_map (rectype_events cfg) l)))
        /\ (forall r, In r l -> alookup (rt_name r) rts' = Some (len (decl_keys cfg r)))
        /\ (forall n v, alookup n rts = Some v -> alookup n rts' = Some v).
  Proof.
    induction l as [|r l IH]; intros rts rname o seen Hn Hinv Hok Hd Ho.
    - exists rts, rname. cbn [flat_map steps weight]. rewrite N.add_0_r. repeat split; [intros r []| auto].
    - cbn [map names_fresh forallb flat_map] in *. rewrite weight_app, weight_rectype in *.
      apply andb_true_iff in Hn as [Hn1 Hn2]. apply negb_true_iff in Hn1.
      apply andb_true_iff in Hok as [Hr Hok]. unfold rt_ok in Hr.
      apply andb_true_iff in Hr as [Hr Hr3]. apply andb_true_iff in Hr as [Hr1 Hr2].
      pose proof (Hinv _ Hn1) as Hnone.
      rewrite steps_app. rewrite (rectype_run r rts rname o) by (try assumption; lia).
      set (rts1 := aset (rt_name r) (len (decl_keys cfg r)) rts).
      assert (Hinv1 : inv_seen (rt_name r :: seen) rts1).
      { intros n Hs. cbn [existsb] in Hs. apply orb_false_iff in Hs as [Hs1 Hs2].
        subst rts1. rewrite alookup_aset_other by exact Hs1. apply Hinv. exact Hs2. }
      destruct (IH rts1 (rt_name r) (o + 1 + len (decl_keys cfg r)) (rt_name r :: seen) Hn2 Hinv1 Hok Hd) as [rts' [rname' [Hs [Hl Hp]]]]; [lia|].
      exists rts', rname'. split; [|split].
      + rewrite Hs. f_equal. f_equal. lia.
      + intros x [<-|Hx]; [|apply Hl; exact Hx]. apply Hp. subst rts1. apply alookup_aset_same.
      + intros n v Hv. apply Hp. subst rts1.
        destruct (bytes_eqb n (rt_name r)) eqn:E.
        * apply bytes_eqb_eq in E. subst n. rewrite Hnone in Hv. discriminate.
        * rewrite alookup_aset_other by exact E. exact Hv.
  Qed.

  Lemma In_ins_rt x y l : In x (ins_rt y l) <-> x = y \/ In x l.
  Proof.
    induction l as [|z l IH]; cbn [ins_rt In].
    - split; [intros [<-|[]]; left; reflexivity | intros [->|[]]; left; reflexivity].
    - destruct (bytes_ltb (rt_name z) (rt_name y)); cbn [In]; [rewrite IH|]; split; intro H; intuition congruence.
  Qed.
  Lemma In_sort_records x l : In x (sort_records l) <-> In x l.
  Proof.
    induction l as [|y l IH]; cbn [sort_records fold_right In]; [tauto|].
    fold (sort_records l). rewrite In_ins_rt, IH. split; intro H; intuition congruence.
  Qed.

  (* iterate_valid *)
  Theorem iterate_valid root :
    expected_version rc = 0 -> c_recursion cfg = false -> head_ok rc cfg = true ->
    match root with
    | Some v => vok rc cfg 0 v = true /\ weight (rectypes_events cfg ++ plain cfg v) <= max_object_count rc
    | None => 1 <= max_object_count rc
    end ->
    accepts_document rc (iterate cfg root) = true.
  Proof.
    intros Hver Hrec Hhead Hroot.
    assert (Hbegin : forall rest, steps rc init_rctx (EBeginDoc :: EVersion 0 :: rest) = steps rc (W [] [] TL [] 0 0) rest).
    { intro rest. cbn [steps].
      change (rstep rc init_rctx EBeginDoc) with (Some (set_rule init_rctx RVersion, [EBeginDoc])). cbv iota beta.
      unfold rstep, call_current, call_fuel. cbn [call_rule exec_prims exec_prim dispatch cur set_rule set_cur init_rctx mk_entry e_rule a_version].
      rewrite Hver. reflexivity. }
    destruct root as [v|].
    - destruct Hroot as [Hv Hw].
      unfold iterate, iterate_outcome, value_outcome. rewrite Hrec. cbn [fst].
      unfold head_ok in Hhead. apply andb_true_iff in Hhead as [Hhead H3]. apply andb_true_iff in Hhead as [H1 H2].
      apply N.leb_le in H1.
      assert (Hok : forallb rt_ok (sort_records (c_records cfg)) = true).
      { apply forallb_forall. intros r Hr. apply (proj1 (In_sort_records _ _)) in Hr. rewrite forallb_forall in H3. apply (H3 r Hr). }
      rewrite weight_app in Hw. unfold rectypes_events in *.
      destruct (header_run (sort_records (c_records cfg)) [] [] 0 [] H2 (fun n _ => eq_refl) Hok H1) as [rts' [rname' [Hs [Hl _]]]]; [lia|].
      rewrite N.add_0_l in Hs.
      set (c0 := W rts' rname' TL [] 0 0).
      assert (Hrt : forall sid r, find_record (c_records cfg) sid = Some r ->
                                  alookup (rt_name r) (rectypes c0) = Some (N.of_nat (length (decl_keys cfg r)))).
      { intros sid r Hf. apply find_record_In in Hf. apply (proj2 (In_sort_records _ _)) in Hf. apply (Hl r Hf). }
      destruct (valid_all rc c0 cfg Hrt v) as [Hval _]. destruct (Hval 0 Hv) as [Hev _].
      set (hw := weight (flat_map (rectype_events cfg) (sort_records (c_records cfg)))) in *.
      specialize (Hev RTopLevel DT_Invalid 0 None [] [] hw I I Hw).
      eapply accepts_steps.
      + rewrite Hbegin. rewrite steps_app, Hs. rewrite steps_app.
        change (W rts' rname' TL [] 0 hw) with (U c0 TL [] 0 hw).
        unfold TL at 1. rewrite Hev. cbn [steps next]. reflexivity.
      + reflexivity.
    - unfold iterate, iterate_outcome. cbn [fst].
      eapply accepts_steps.
      + rewrite Hbegin. cbn [steps].
        change (W [] [] TL [] 0 0) with (U (W [] [] TL [] 0 0) TL [] 0 0). unfold TL at 2.
        destruct (S_null rc (W [] [] TL [] 0 0) RTopLevel DT_Invalid 0 None [] [] 0 0 I I) as [out Hn]; [lia|].
        rewrite Hn. cbn [next]. reflexivity.
      + reflexivity.
  Qed.
End ValidDoc.

(* ========================================================================= *)
(* Part 3b: with recursion support the iteration runs to completion             *)

Section Completes.
  Variable cfg : icfg.
  Variable dups : list N.

  Definition total (em : emitter) : Prop := forall s, exists es s', em s = (es, Some s').

  Lemma total_emit es : total (emit es).
  Proof. intro s. exists es, s. reflexivity. Qed.
  Lemma total_seq a b : total a -> total b -> total (seq_em a b).
  Proof.
    intros Ha Hb s. unfold seq_em. destruct (Ha s) as [e1 [s1 ->]]. destruct (Hb s1) as [e2 [s2 ->]].
    exists (e1 ++ e2), s2. reflexivity.
  Qed.
  Lemma total_seq_all l : Forall total l -> total (seq_all l).
  Proof. intro H. induction H as [|a l Ha H IH]; cbn [seq_all]; [apply total_emit | apply total_seq; assumption]. Qed.
  Lemma total_with_ref a body : total body -> total (with_ref dups a body).
  Proof.
    intros Hb s. unfold with_ref. destruct (existsb (N.eqb a) dups); [|apply Hb].
    destruct (named_find a (named s)) as [n|].
    - eexists. eexists. reflexivity.
    - match goal with |- context [body ?s0] => destruct (Hb s0) as [e [s' ->]] end.
      eexists. eexists. reflexivity.
  Qed.

  Fixpoint rgofs (fs : list (finfo * gval)) : list ritem :=
    match fs with
    | [] => []
    | (i, x) :: r =>
        (if extractable i then
           if flattened i x then snd (rwalk cfg dups x)
           else [(i, should_include cfg i (is_empty x) (is_value_zero x), fst (rwalk cfg dups x))]
         else []) ++ rgofs r
    end.
  Lemma ritems_struct sid fs : snd (rwalk cfg dups (VStruct sid fs)) = rgofs fs.
  Proof.
    cbn [rwalk snd].
    induction fs as [|[i x] r IH]; [reflexivity|]. cbn [rgofs]. rewrite <- IH. reflexivity.
  Qed.
  Lemma rwalk_struct sid fs :
    fst (rwalk cfg dups (VStruct sid fs))
    = match find_record (c_records cfg) sid with
      | Some r => record_em cfg (rt_name r) (rgofs fs)
      | None => struct_em cfg (rgofs fs)
      end.
  Proof. rewrite <- (ritems_struct sid fs). reflexivity. Qed.

  Definition Pt (v : gval) : Prop :=
    total (fst (rwalk cfg dups v))
    /\ Forall (fun it : ritem => total (snd it)) (snd (rwalk cfg dups v))
    /\ match v with VSlice _ es => Forall (fun c => total (fst (rwalk cfg dups c))) es | _ => True end.

  Lemma Pt_children es : Forall Pt es -> Forall (fun c => total (fst (rwalk cfg dups c))) es.
  Proof. intro H. eapply Forall_impl; [|exact H]. intros c [Hc _]. exact Hc. Qed.
  Lemma total_children es :
    Forall (fun c => total (fst (rwalk cfg dups c))) es -> Forall total (map (fun x => fst (rwalk cfg dups x)) es).
  Proof. intro H. induction H as [|x es Hx H IH]; cbn [map]; constructor; assumption. Qed.

  Lemma completes_all : forall v, Pt v.
  Proof.
    apply gval_ind'; try (intros; split; [apply total_emit | split; [constructor | exact I]]).
    - (* VSlice *) intros a es H. pose proof (Pt_children es H) as Hc. split; [|split; [constructor | exact Hc]].
      cbn [rwalk fst].
      apply total_with_ref. apply total_seq; [apply total_emit|]. apply total_seq; [|apply total_emit].
      apply total_seq_all. apply total_children. exact Hc.
    - (* VArray *) intros es H. pose proof (Pt_children es H) as Hc. split; [|split; [constructor | exact I]].
      cbn [rwalk fst].
      apply total_seq; [apply total_emit|]. apply total_seq; [|apply total_emit].
      apply total_seq_all. apply total_children. exact Hc.
    - (* VMap *) intros a kvs H. split; [|split; [constructor | exact I]]. cbn [rwalk fst].
      apply total_with_ref. apply total_seq; [apply total_emit|]. apply total_seq; [|apply total_emit].
      apply total_seq_all. induction H as [|kv kvs [[Hk _] [Hv _]] H IH]; cbn [map]; constructor; [|exact IH].
      apply total_seq; assumption.
    - (* VPtr *) intros a p [Hp _]. split; [|split; [constructor | exact I]]. cbn [rwalk fst]. apply total_with_ref. exact Hp.
    - (* VOPtr *) intros p [Hp _]. split; [|split; [constructor | exact I]]. exact Hp.
    - (* VIface *) intros p [Hp _]. split; [|split; [constructor | exact I]]. exact Hp.
    - (* VStruct *) intros sid fs H.
      assert (Hits : Forall (fun it : ritem => total (snd it)) (rgofs fs)).
      { induction H as [|[i x] fs [Hx [Hi _]] H IH]; [constructor|]. cbn [rgofs snd] in *.
        apply Forall_app. split; [|exact IH].
        destruct (extractable i); [|constructor]. destruct (flattened i x); [exact Hi|].
        constructor; [exact Hx | constructor]. }
      split; [|split; [rewrite ritems_struct; exact Hits | exact I]].
      rewrite rwalk_struct. destruct (find_record (c_records cfg) sid) as [r|].
      + unfold record_em. apply total_seq; [apply total_emit|]. apply total_seq; [|apply total_emit].
        apply total_seq_all. pose proof (Forall_declared cfg _ _ Hits) as Hd.
        induction Hd as [|x K Hx Hd IH]; cbn [map]; constructor; assumption.
      + unfold struct_em. apply total_seq; [apply total_emit|]. apply total_seq; [|apply total_emit].
        apply total_seq_all. pose proof (Forall_kept _ _ Hits) as Hk.
        induction Hk as [|x K Hx Hk IH]; cbn [map]; constructor; [|exact IH].
        apply total_seq; [apply total_emit | exact Hx].
    - (* VNode *) intros x ch [Hx _] [_ [_ Hch]]. split; [|split; [constructor | exact I]]. cbn [rwalk fst].
      apply total_seq; [apply total_emit|]. apply total_seq; [exact Hx|]. apply total_seq; [|apply total_emit].
      destruct ch; try apply total_emit.
      apply total_seq_all. apply total_children. exact Hch.
    - (* VEdge *) intros a b c [Ha _] [Hb _] [Hc _]. split; [|split; [constructor | exact I]]. cbn [rwalk fst].
      apply total_seq; [apply total_emit|]. apply total_seq; [exact Ha|]. apply total_seq; assumption.
  Qed.

  (* whatever the value and the configuration, the iteration ends with the end of the document *)
  Theorem iterate_completes_value v : exists es s', fst (rwalk cfg dups v) st0 = (es, Some s').
  Proof. destruct (completes_all v) as [H _]. apply H. Qed.
  Theorem completes_from v s : exists es s', fst (rwalk cfg dups v) s = (es, Some s').
  Proof. destruct (completes_all v) as [H _]. apply H. Qed.
End Completes.

Theorem iterate_completes cfg root : snd (iterate_outcome cfg root) = true.
Proof.
  destruct root as [v|]; [|reflexivity].
  unfold iterate_outcome, value_outcome. destruct (c_recursion cfg); [|reflexivity].
  unfold recursive. destruct (iterate_completes_value cfg (dups_of v) v) as [es [s' ->]]. reflexivity.
Qed.

(* the first document of a reused iterator is the document of a fresh one *)
Lemma iterate_outcome_from_0 cfg root :
  let '(es, ok, _) := iterate_outcome_from 0 cfg root in iterate_outcome cfg root = (es, ok).
Proof.
  destruct root as [v|]; [|reflexivity].
  unfold iterate_outcome_from, iterate_outcome, value_outcome.
  destruct (c_recursion cfg); [|reflexivity].
  unfold recursive_from, recursive, st0.
  destruct (fst (rwalk cfg (dups_of v) v) {| named := []; next_marker := 0 |}) as [es [s|]]; reflexivity.
Qed.

(* a later document (first marker name n) completes like the first one *)
Lemma iterate_outcome_from_completes n cfg root :
  let '(_, ok, _) := iterate_outcome_from n cfg root in ok = true.
Proof.
  destruct root as [v|]; [|reflexivity].
  unfold iterate_outcome_from. destruct (c_recursion cfg); [|reflexivity].
  unfold recursive_from.
  destruct (completes_from cfg (dups_of v) v {| named := []; next_marker := n |}) as [es [s' ->]]. reflexivity.
Qed.

(* ========================================================================= *)
(* Part 4: the property in full, its refutations, the fragment that holds     *)

(* For any supported value and configuration: the iteration completes, the validator accepts the
   events, and the events describe exactly the value (with recursion support: after replacing
   references by what they refer to, for values without cycles). *)
Definition full_property : Prop :=
  forall (rc : rcfg) (cfg : icfg) (root : option gval),
    expected_version rc = 0 -> head_ok rc cfg = true -> records_ok cfg = true ->
    match root with
    | Some v => supported rc cfg 0 v = true
                /\ (c_recursion cfg = false -> acyclic [] v = true)
                /\ weight (iterate cfg root) <= max_object_count rc
    | None => 1 <= max_object_count rc
    end ->
    snd (iterate_outcome cfg root) = true
    /\ accepts_document rc (iterate cfg root) = true
    /\ (if c_recursion cfg
        then match root with
             | Some v => acyclic [] v = true -> described_rec (iterate cfg root) = Some (canon cfg v)
             | None => True
             end
        else read_doc (iterate cfg root) = Some (canon_root cfg root)).

Definition cfg_plain : icfg := mkCfg true false OEmpty [].
Definition cfg_rec : icfg := mkCfg true true OEmpty [].

(* an instance of the full property at the default limits *)
Definition instance_holds (cfg : icfg) (v : gval) : Prop :=
  snd (iterate_outcome cfg (Some v)) = true
  /\ accepts_document default_rcfg (iterate cfg (Some v)) = true
  /\ (if c_recursion cfg
      then acyclic [] v = true -> described_rec (iterate cfg (Some v)) = Some (canon cfg v)
      else read_doc (iterate cfg (Some v)) = Some (canon cfg v)).

Lemma full_instance cfg v :
  full_property -> head_ok default_rcfg cfg = true -> records_ok cfg = true ->
  supported default_rcfg cfg 0 v = true -> acyclic [] v = true ->
  weight (iterate cfg (Some v)) <= max_object_count default_rcfg ->
  instance_holds cfg v.
Proof.
  intros F H1 H2 H3 H4 H5. apply (F default_rcfg cfg (Some v) eq_refl H1 H2). auto.
Qed.

Ltac refute_with cfg v :=
  let F := fresh in
  intro F;
  assert (Hi : instance_holds cfg v) by (apply (full_instance cfg v F); vm_compute; congruence);
  destruct Hi as [Hc [Ha Hd]]; vm_compute in Hc, Ha, Hd;
  try discriminate Hc; try discriminate Ha; try (specialize (Hd eq_refl)); try discriminate Hd; try congruence.

(* repaired (/repo 734b6c6): []bool longer than 8 — the witness of the former defect, pinned *)
Definition w_bool9 : gval := VBools SSlice [false; false; false; false; false; false; false; false; true].
Lemma bool9_described :
  iterate cfg_plain (Some w_bool9) = [EBeginDoc; EVersion 0; EArray AT_Bit 9 [0; 1]; EEndDoc]
  /\ read_doc (iterate cfg_plain (Some w_bool9)) = Some (canon cfg_plain w_bool9)
  /\ canon cfg_plain w_bool9 = DBits [false; false; false; false; false; false; false; false; true].
Proof. repeat split; vm_compute; reflexivity. Qed.

(* defect: types.Edge gets no end-container event *)
Definition w_edge : gval := VEdge (VIface (VInt 1)) (VIface (VInt 2)) (VIface (VInt 3)).
Lemma edge_rejected :
  supported default_rcfg cfg_plain 0 w_edge = true
  /\ accepts_document default_rcfg (iterate cfg_plain (Some w_edge)) = false.
Proof. split; vm_compute; reflexivity. Qed.
Lemma full_refuted_edge : ~ full_property.
Proof. refute_with cfg_plain w_edge. Qed.

(* repaired (/repo 8413af6): a record carries its empty fields too — the former witness, pinned *)
Definition f_a : finfo := mkF [65] true false ODefault 9223372036854775807%Z.
Definition f_b : finfo := mkF [66] true false ODefault 9223372036854775807%Z.
Definition cfg_record : icfg := mkCfg true false OEmpty [mkRT [114] 1 [(f_a, VInt 0); (f_b, VString [])]].
Definition w_record : gval := VStruct 1 [(f_a, VInt 1); (f_b, VString [])].
Lemma record_accepted :
  iterate cfg_record (Some w_record)
  = [EBeginDoc; EVersion 0; ERecordType [114]; EStringArray AT_String [97]; EStringArray AT_String [98]; EEnd;
     ERecord [114]; EInt 1; EStringArray AT_String []; EEnd; EEndDoc]
  /\ accepts_document default_rcfg (iterate cfg_record (Some w_record)) = true
  /\ read_doc (iterate cfg_record (Some w_record))
     = Some (DMap [(DString [97], DScalar (EInt 1)); (DString [98], DString [])])
  /\ canon cfg_record w_record = DMap [(DString [97], DScalar (EInt 1)); (DString [98], DString [])].
Proof. repeat split; vm_compute; reflexivity. Qed.

(* defect: a signalling float32 NaN is emitted quiet *)
Definition w_snan : gval := VF32 2141192193.          (* 0x7fa00001 *)
Lemma snan_quieted :
  read_doc (iterate cfg_plain (Some w_snan)) = Some (DScalar (EFloat 9222246137484804096))   (* 0x7ffc000020000000 *)
  /\ canon cfg_plain w_snan = DScalar (EFloat 9219994337671118848).                           (* 0x7ff4000020000000 *)
Proof. split; vm_compute; reflexivity. Qed.
Lemma full_refuted_float32_snan : ~ full_property.
Proof. refute_with cfg_plain w_snan. Qed.

(* recursion support *)
(* repaired (/repo 7f07b92): an array iterated as a list no longer panics — the former witness, pinned *)
Definition w_array : gval := VArray [VString [97]].
Lemma array_completes :
  iterate_outcome cfg_rec (Some w_array)
  = ([EBeginDoc; EVersion 0; EList; EStringArray AT_String [97]; EEnd; EEndDoc], true)
  /\ accepts_document default_rcfg (iterate cfg_rec (Some w_array)) = true
  /\ described_rec (iterate cfg_rec (Some w_array)) = Some (canon cfg_rec w_array).
Proof. repeat split; vm_compute; reflexivity. Qed.

(* a shared pointer to a shared pointer: marker directly followed by a marker *)
Definition w_ptrptr : gval :=
  VSlice 1 [VIface (VPtr 2 (VPtr 3 (VInt 0))); VIface (VPtr 2 (VPtr 3 (VInt 0))); VIface (VPtr 3 (VInt 0))].
Lemma ptrptr_rejected :
  iterate cfg_rec (Some w_ptrptr)
  = [EBeginDoc; EVersion 0; EList; EMarker [48]; EMarker [49]; EInt 0; ERefLocal [48]; ERefLocal [49]; EEnd; EEndDoc]
  /\ accepts_document default_rcfg (iterate cfg_rec (Some w_ptrptr)) = false.
Proof. split; vm_compute; reflexivity. Qed.
Lemma full_refuted_marker_on_marker : ~ full_property.
Proof. refute_with cfg_rec w_ptrptr. Qed.

(* repaired (/repo 192c5da, validator): a marked container inside a marked container — the former
   witness, pinned, and a two-element cycle *)
Definition f_n : finfo := mkF [78] true false ONever 9223372036854775807%Z.
Definition w_inner : gval := VPtr 2 (VStruct 1 [(f_n, VNilPtr)]).
Definition w_outer : gval := VPtr 3 (VStruct 1 [(f_n, w_inner)]).
Definition w_nested : gval := VSlice 1 [VIface w_outer; VIface w_outer; VIface w_inner].
(* a := &T{N: b}; b := &T{N: a}; the innermost occurrence of a is the back edge *)
Definition w_cycle : gval := VPtr 2 (VStruct 1 [(f_n, VPtr 3 (VStruct 1 [(f_n, VPtr 2 VNilPtr)]))]).
Lemma nested_markers_accepted :
  iterate cfg_rec (Some w_nested)
  = [EBeginDoc; EVersion 0; EList; EMarker [48]; EMap; EStringArray AT_String [110]; EMarker [49]; EMap;
     EStringArray AT_String [110]; ENull; EEnd; EEnd; ERefLocal [48]; ERefLocal [49]; EEnd; EEndDoc]
  /\ accepts_document default_rcfg (iterate cfg_rec (Some w_nested)) = true
  /\ described_rec (iterate cfg_rec (Some w_nested)) = Some (canon cfg_rec w_nested)
  /\ iterate cfg_rec (Some w_cycle)
     = [EBeginDoc; EVersion 0; EMarker [48]; EMap; EStringArray AT_String [110]; EMap; EStringArray AT_String [110];
        ERefLocal [48]; EEnd; EEnd; EEndDoc]
  /\ accepts_document default_rcfg (iterate cfg_rec (Some w_cycle)) = true.
Proof. repeat split; vm_compute; reflexivity. Qed.

(* two slices that start at the same address with different lengths are taken for one object *)
Definition w_same_base : gval :=
  VSlice 1 [VIface (VSlice 2 [VIface (VInt 1)]); VIface (VSlice 2 [VIface (VInt 1); VIface (VInt 2); VIface (VInt 3)])].
Lemma same_base_misdescribed :
  accepts_document default_rcfg (iterate cfg_rec (Some w_same_base)) = true
  /\ described_rec (iterate cfg_rec (Some w_same_base)) = Some (DList [DList [DScalar (EInt 1)]; DList [DScalar (EInt 1)]])
  /\ canon cfg_rec w_same_base = DList [DList [DScalar (EInt 1)]; DList [DScalar (EInt 1); DScalar (EInt 2); DScalar (EInt 3)]].
Proof. repeat split; vm_compute; reflexivity. Qed.
Lemma full_refuted_same_base_slices : ~ full_property.
Proof. refute_with cfg_rec w_same_base. Qed.

(* ---- the fragment that holds: no recursion support, [vok] and [descr] (no edge, no signalling float32 NaN) ---- *)

(* open: two fields of the flattened struct go by one name (an embedded struct's field shadowed by
   a field of the outer struct): the map gets the key twice and the validator refuses it.
   [supported] (like [vok]) demands distinct emitted names; the property stated without that
   demand is refuted here. *)
Definition full_property_any_names : Prop :=
  forall (rc : rcfg) (cfg : icfg) (root : option gval),
    expected_version rc = 0 -> head_ok rc cfg = true -> records_ok cfg = true ->
    match root with
    | Some v => supported_any_names rc cfg 0 v = true
                /\ (c_recursion cfg = false -> acyclic [] v = true)
                /\ weight (iterate cfg root) <= max_object_count rc
    | None => 1 <= max_object_count rc
    end ->
    snd (iterate_outcome cfg root) = true
    /\ accepts_document rc (iterate cfg root) = true
    /\ (if c_recursion cfg
        then match root with
             | Some v => acyclic [] v = true -> described_rec (iterate cfg root) = Some (canon cfg v)
             | None => True
             end
        else read_doc (iterate cfg root) = Some (canon_root cfg root)).

Lemma forallb_mono {A} (f g : A -> bool) l :
  Forall (fun x => f x = true -> g x = true) l -> forallb f l = true -> forallb g l = true.
Proof.
  intro H. induction H as [|x l Hx H IH]; [reflexivity|]. cbn [forallb]. intro E.
  apply andb_true_iff in E as [E1 E2]. rewrite (Hx E1), (IH E2). reflexivity.
Qed.

(* the demand is the only difference: every [supported] value is [supported_any_names] *)
Lemma supported_any_names_weaker rc cfg :
  forall v d, supported rc cfg d v = true -> supported_any_names rc cfg d v = true.
Proof.
  apply (gval_ind' (fun v => forall d, supported rc cfg d v = true -> supported_any_names rc cfg d v = true));
    try (intros; assumption).
  - (* VSlice *) intros a es H d E. cbn [supported supported_any_names] in *.
    apply andb_true_iff in E as [E1 E2]. rewrite E1. cbn [andb].
    apply (forallb_mono (supported rc cfg (d + 1))); [|exact E2].
    eapply Forall_impl; [|exact H]. intros x Hx. apply Hx.
  - (* VArray *) intros es H d E. cbn [supported supported_any_names] in *.
    apply andb_true_iff in E as [E1 E2]. rewrite E1. cbn [andb].
    apply (forallb_mono (supported rc cfg (d + 1))); [|exact E2].
    eapply Forall_impl; [|exact H]. intros x Hx. apply Hx.
  - (* VMap *) intros a kvs H d E. cbn [supported supported_any_names] in *.
    apply andb_true_iff in E as [E E3]. apply andb_true_iff in E as [E1 E2]. rewrite E1, E3. cbn [andb].
    rewrite andb_true_r.
    apply (forallb_mono (fun kv => is_some (key_of (fst kv)) && supported rc cfg (d + 1) (fst kv) && supported rc cfg (d + 1) (snd kv))); [|exact E2].
    eapply Forall_impl; [|exact H]. intros kv [Hk Hv] Ek.
    apply andb_true_iff in Ek as [Ek Ev]. apply andb_true_iff in Ek as [Ek0 Ek].
    rewrite Ek0, (Hk _ Ek), (Hv _ Ev). reflexivity.
  - (* VPtr *) intros a p H d E. cbn [supported supported_any_names] in *. apply H. exact E.
  - (* VOPtr *) intros p H d E. cbn [supported supported_any_names] in *. apply H. exact E.
  - (* VIface *) intros p H d E. cbn [supported supported_any_names] in *. apply H. exact E.
  - (* VStruct *) intros sid fs H d E. cbn [supported supported_any_names] in *.
    apply andb_true_iff in E as [E E3]. apply andb_true_iff in E as [E1 E2]. rewrite E1. cbn [andb].
    apply andb_true_iff. split.
    + apply (forallb_mono (fun iv => supported rc cfg (d + 1) (snd iv))); [|exact E2].
      eapply Forall_impl; [|exact H]. intros iv Hx. apply Hx.
    + destruct (find_record (c_records cfg) sid); [exact E3|].
      apply andb_true_iff in E3 as [E3 _]. exact E3.
  - (* VNode *) intros x ch Hx Hch d E. cbn [supported supported_any_names] in *.
    apply andb_true_iff in E as [E E3]. apply andb_true_iff in E as [E1 E2]. rewrite E1, (Hx _ E2). cbn [andb].
    destruct ch; try reflexivity.
    specialize (Hch d). cbn [supported supported_any_names] in Hch. rewrite E1 in Hch. cbn [andb] in Hch.
    apply Hch. exact E3.
  - (* VEdge *) intros a b c Ha Hb Hc d E. cbn [supported supported_any_names] in *.
    repeat (apply andb_true_iff in E as [E ?]).
    rewrite E, (Ha _ ltac:(eassumption)), (Hb _ ltac:(eassumption)), (Hc _ ltac:(eassumption)).
    repeat match goal with H : _ = true |- _ => rewrite H end. reflexivity.
Qed.

(* ... so the statement without the demand is the stronger one *)
Lemma full_property_any_names_stronger : full_property_any_names -> full_property.
Proof.
  intros F rc cfg root Hv Hh Hr Hroot. apply (F rc cfg root Hv Hh Hr).
  destruct root as [v|]; [|exact Hroot]. destruct Hroot as [Hs Hrest].
  split; [apply supported_any_names_weaker; exact Hs | exact Hrest].
Qed.

Definition f_emb (n : bytes) (exported : bool) : finfo := mkF n exported true ODefault 9223372036854775807%Z.
(* struct{ A int; Inner } with type Inner struct{ A int }, A = 1 and Inner.A = 2 *)
Definition w_shadow : gval :=
  VStruct 1 [(f_a, VInt 1); (f_emb [73; 110; 110; 101; 114] true, VStruct 2 [(f_a, VInt 2)])].
Lemma shadow_rejected :
  supported_any_names default_rcfg cfg_plain 0 w_shadow = true
  /\ supported default_rcfg cfg_plain 0 w_shadow = false
  /\ iterate cfg_plain (Some w_shadow)
     = [EBeginDoc; EVersion 0; EMap; EStringArray AT_String [97]; EInt 1; EStringArray AT_String [97]; EInt 2; EEnd; EEndDoc]
  /\ rejected_at default_rcfg (iterate cfg_plain (Some w_shadow)) = Some 5
  /\ accepts_document default_rcfg (iterate cfg_plain (Some w_shadow)) = false.
Proof. repeat split; vm_compute; reflexivity. Qed.
Lemma full_refuted_duplicate_flattened_name : ~ full_property_any_names.
Proof.
  intro F.
  destruct (F default_rcfg cfg_plain (Some w_shadow) eq_refl eq_refl eq_refl) as [_ [Ha _]].
  - split; [vm_compute; reflexivity | split; [intros _; vm_compute; reflexivity | vm_compute; congruence]].
  - vm_compute in Ha. discriminate Ha.
Qed.

(* open: struct{ low; Z int } with type low struct{ P int }: Go promotes P, extractFields drops the
   embedded struct because its type name is lower-case; the events are valid but P is missing *)
Definition f_p : finfo := mkF [80] true false ODefault 9223372036854775807%Z.
Definition f_z : finfo := mkF [90] true false ODefault 9223372036854775807%Z.
Definition w_hidden : gval :=
  VStruct 1 [(f_emb [108; 111; 119] false, VStruct 2 [(f_p, VInt 1)]); (f_z, VInt 3)].
Lemma hidden_promoted_dropped :
  supported default_rcfg cfg_plain 0 w_hidden = true
  /\ descr cfg_plain w_hidden = false
  /\ iterate cfg_plain (Some w_hidden) = [EBeginDoc; EVersion 0; EMap; EStringArray AT_String [122]; EInt 3; EEnd; EEndDoc]
  /\ accepts_document default_rcfg (iterate cfg_plain (Some w_hidden)) = true
  /\ read_doc (iterate cfg_plain (Some w_hidden)) = Some (DMap [(DString [122], DScalar (EInt 3))])
  /\ canon cfg_plain w_hidden = DMap [(DString [112], DScalar (EInt 1)); (DString [122], DScalar (EInt 3))].
Proof. repeat split; vm_compute; reflexivity. Qed.
Lemma full_refuted_promoted_field_dropped : ~ full_property.
Proof. refute_with cfg_plain w_hidden. Qed.

Lemma weight_iterate_plain cfg v :
  c_recursion cfg = false ->
  weight (iterate cfg (Some v)) = 3 + weight (rectypes_events cfg ++ plain cfg v).
Proof.
  intro H. unfold iterate, iterate_outcome, value_outcome. rewrite H. cbn [fst weight is_end].
  rewrite !weight_app. cbn [weight is_end]. lia.
Qed.

Theorem partial_property :
  forall (rc : rcfg) (cfg : icfg) (root : option gval),
    expected_version rc = 0 -> head_ok rc cfg = true -> records_ok cfg = true ->
    c_recursion cfg = false ->
    match root with
    | Some v => vok rc cfg 0 v = true /\ descr cfg v = true
                /\ weight (iterate cfg root) <= max_object_count rc
    | None => 1 <= max_object_count rc
    end ->
    snd (iterate_outcome cfg root) = true
    /\ accepts_document rc (iterate cfg root) = true
    /\ read_doc (iterate cfg root) = Some (canon_root cfg root).
Proof.
  intros rc cfg root Hver Hhead Hrec Hnorec Hroot. split; [|split].
  - destruct root as [v|]; [|reflexivity]. unfold iterate_outcome, value_outcome. rewrite Hnorec. reflexivity.
  - apply iterate_valid; try assumption. destruct root as [v|]; [|exact Hroot].
    destruct Hroot as [Hv [_ Hw]]. split; [exact Hv|]. rewrite weight_iterate_plain in Hw by exact Hnorec. lia.
  - apply iterate_describes; try assumption. destruct root as [v|]; [|exact I]. apply Hroot.
Qed.

(* the hypotheses are satisfiable: a struct with tags, nested containers, a registered record *)
Definition f_name : finfo := mkF [85;115;101;114;73;68] true false ONever 1%Z.            (* UserID, order 1 *)
Definition f_list : finfo := mkF [76] true false OEmpty 9223372036854775807%Z.
Definition f_rec : finfo := mkF [82] true false ONever 9223372036854775807%Z.
Definition ex_cfg : icfg := mkCfg true false OEmpty [mkRT [114] 7 [(f_a, VInt 0); (f_b, VString [])]].
Definition ex_value : gval :=
  VStruct 1 [(f_list, VSlice 1 [VIface (VInt (-5)); VIface (VString [104; 105]); VNilIface;
                               VIface (VBools SSlice [true; false; true]);
                               VIface (VNum SSlice AI16 [-2; 300]%Z);
                               VIface (VMap 2 [(VString [107], VF64 4607182418800017408); (VString [108], VNilPtr)]);
                               VIface (VNode (VIface (VUint 1)) (VSlice 3 [VIface (VUint 2)]))]);
             (f_name, VUint 7);
             (f_rec, VStruct 7 [(f_a, VInt 1); (f_b, VString [])])].
Lemma example_in_fragment :
  head_ok default_rcfg ex_cfg = true /\ records_ok ex_cfg = true
  /\ vok default_rcfg ex_cfg 0 ex_value = true /\ descr ex_cfg ex_value = true
  /\ weight (iterate ex_cfg (Some ex_value)) <= max_object_count default_rcfg.
Proof. repeat split; vm_compute; congruence. Qed.
