(* C10: every accepted complete document whose keys are plain (no marker, reference or array in chunks where a map
   key or a field name of a record type is expected) is the flattening of a well-formed document tree (soundness
   of the validator with respect to the tree grammar of Model/RulesSpec.v, arrays delivered in chunks included). *)
From CE Require Import Model.Rules Model.RulesSpec Proofs.RulesPassthrough Proofs.RulesKeys Proofs.RulesInvariants Proofs.RulesStructure
  Proofs.RulesLimits Proofs.RulesChunks Proofs.RulesMarkers Proofs.RulesDocument Proofs.RulesComplete.
From Coq Require Import ZifyN ZifyNat ZifyBool.
Open Scope N_scope.

(* ------------------------------------------------------------------------- *)
(* Inverting one step                                                         *)
(* ------------------------------------------------------------------------- *)
Lemma nno_inv cfg c c1 :
  notify_new_object cfg true c = Some c1 -> room (cur c) /\ objects c + 1 <= max_object_count cfg /\ c1 = nno_state c.
Proof.
  unfold notify_new_object, room, nno_state, bump. intro H.
  destruct (e_expected (cur c)) as [x|]; cbn [andb] in H.
  - destruct (x <? e_count (cur c) + 1) eqn:X; [discriminate|].
    destruct (max_object_count cfg <? objects c + 1) eqn:Y; [discriminate|]. inv_some. repeat split; lia || reflexivity.
  - destruct (max_object_count cfg <? objects c + 1) eqn:Y; [discriminate|]. inv_some. repeat split; lia || reflexivity.
Qed.

(* an accepted event: its plan, and the method call on the rule in force *)
Lemma rstep_inv cfg c e c1 o :
  rstep cfg c e = Some (c1, o) ->
  exists pl, ev_plan cfg e = Some pl /\ o = [p_out pl] /\
    match p_nno pl with
    | Some true => room (cur c) /\ objects c + 1 <= max_object_count cfg /\
                   exec_prims cfg (call_rule 5 cfg) (e_rule (cur c)) (p_meth pl) (p_args pl) (dispatch (e_rule (cur c)) (p_meth pl)) (nno_state c) = Some c1
    | Some false => exists c0, notify_new_object cfg false c = Some c0 /\ call_current cfg (p_meth pl) (p_args pl) c0 = Some c1
    | None => exec_prims cfg (call_rule 5 cfg) (e_rule (cur c)) (p_meth pl) (p_args pl) (dispatch (e_rule (cur c)) (p_meth pl)) c = Some c1
    end.
Proof.
  rewrite rstep_plan. destruct (ev_plan cfg e) as [pl|]; [|discriminate].
  destruct (plan_step cfg pl c) as [c2|] eqn:S; [|discriminate]. intro H; inv_some. exists pl. split; [reflexivity|]. split; [reflexivity|].
  unfold plan_step in S. destruct (p_nno pl) as [[|]|].
  - destruct (notify_new_object cfg true c) as [c0|] eqn:N; [|discriminate]. destruct (nno_inv _ _ _ N) as [R [O ->]].
    split; [exact R|]. split; [exact O|]. exact S.
  - destruct (notify_new_object cfg false c) as [c0|] eqn:N; [|discriminate]. eauto.
  - exact S.
Qed.

Lemma rstep_det cfg c e c1 o c2 o2 : rstep cfg c e = Some (c1, o) -> rstep cfg c e = Some (c2, o2) -> c1 = c2.
Proof. intros H1 H2. rewrite H1 in H2. inv_some. reflexivity. Qed.

(* the events of the grammar: all *)
Notation alpha := grammar_event.

(* which methods a value rule does not reject *)
Definition value_meth (r : rule) (m : meth) : bool :=
  match m with
  | MPadding | MComment | MKeyableObject | MNonKeyableObject | MChildContainerEnded | MList | MMap | MEdge | MNode | MRecord
  | MRecordType | MMarker | MArray | MStringlikeArray | MArrayBegin => true
  | MNull => null_allowed r
  | MReferenceLocal => negb (rule_beq r RTopLevel)
  | MEnd => closable r
  | _ => false
  end.
Lemma value_meth_table :
  forallb (fun r => forallb (fun m => Bool.eqb (has_reject (dispatch r m)) (negb (value_meth r m))) all_meths) value_rules = true.
Proof. vm_compute. reflexivity. Qed.

Lemma value_meth_ok cfg call r m a c c1 :
  is_value_rule r = true -> exec_prims cfg call r m a (dispatch r m) c = Some c1 -> value_meth r m = true.
Proof.
  intros V E. apply in_value_rules in V. pose proof value_meth_table as T. rewrite forallb_forall in T. specialize (T r V).
  rewrite forallb_forall in T. specialize (T m (all_meths_complete m)).
  destruct (value_meth r m); [reflexivity|]. cbn [negb] in T. apply Bool.eqb_prop in T.
  rewrite exec_prims_reject in E by exact T. discriminate.
Qed.

(* events that deliver a value on their own *)
Definition leaf_event (e : event) : bool :=
  match e with
  | ENull | EBool _ | ETrue | EFalse | EPosInt _ | ENegInt _ | EInt _ | EBigInt _
  | EFloat _ | EBigFloat _ | EDecimal _ | EBigDecimal _ | ENan _ | EUid _ | ETime _ | EArray _ _ _ | EStringArray _ _
  | EMedia _ _ | ECustomBin _ _ | ECustomText _ _ => true
  | _ => false
  end.

Lemma leaf_event_plan cfg e pl :
  leaf_event e = true -> ev_plan cfg e = Some pl ->
  p_nno pl = Some true /\ (p_meth pl = MKeyableObject \/ p_meth pl = MNonKeyableObject \/ p_meth pl = MNull \/ p_meth pl = MArray \/ p_meth pl = MStringlikeArray).
Proof.
  destruct e as [| |v| |m t| |b| | |n|n|z|[z|]|bits|[bf|]|[| | |]|[[| | |]|]|s|b|s| | |id|id| | | |id|id|t cnt d|t d|mt d|ct d|ct d|t|mt|t ct|n m|d];
    cbn [leaf_event ev_plan]; intros L P; try discriminate L;
    repeat match goal with H : (if ?b then _ else _) = Some _ |- _ => destruct b; try discriminate H end;
    unfold mkplan in P; inv_some; cbn; tauto.
Qed.

Lemma leaf_wf_intro cfg ps e pl :
  leaf_event e = true -> ev_plan cfg e = Some pl ->
  (p_meth pl = MNull -> null_ok ps = true) ->
  (p_meth pl = MArray -> validate_full_array_any cfg (a_arrty (p_args pl)) (a_count (p_args pl)) (a_data (p_args pl)) = true /\
                         arr_guard ps (a_arrty (p_args pl)) = true) ->
  (p_meth pl = MStringlikeArray -> validate_full_array_stringlike cfg (a_arrty (p_args pl)) (a_data (p_args pl)) = true /\
                         arr_guard ps (a_arrty (p_args pl)) = true) ->
  leaf_wf cfg ps e = true.
Proof.
  unfold leaf_wf.
  destruct e as [| |v| |m t| |b| | |n|n|z|[z|]|bits|[bf|]|[| | |]|[[| | |]|]|s|b|s| | |id|id| | | |id|id|t cnt d|t d|mt d|ct d|ct d|t|mt|t ct|n m|d];
    cbn [leaf_event ev_plan leaf_ok is_null_event]; intros L P HN HA HS; try discriminate L;
    repeat match goal with H : (if ?b then _ else _) = Some _ |- _ => destruct b eqn:?; try discriminate H end;
    unfold mkplan in P; inv_some; cbn [p_meth p_args a_arrty a_count a_data array_args] in *;
    try match goal with H : negb _ = false |- _ => apply negb_false_iff in H; rewrite H end;
    rewrite ?orb_true_r, ?andb_true_r; try reflexivity;
    try (rewrite HN by reflexivity; reflexivity);
    try (destruct (HA eq_refl) as [X Y]; rewrite X, Y; reflexivity);
    try (destruct (HS eq_refl) as [X Y]; rewrite X, Y; reflexivity).
Qed.

(* what an accepted event does where a value may start *)
Inductive vstep (cfg : rcfg) (c : rctx) (e : event) (c1 : rctx) : Prop :=
| VS_trivia t : e = trivia_event t -> c1 = c -> vstep cfg c e c1
| VS_leaf : leaf_event e = true -> leaf_wf cfg (pos_of_rule (e_rule (cur c))) e = true ->
            view c1 = (adv_entry (cur c), stack c, depth c, objects c + 1, rectypes c, regs c) -> vstep cfg c e c1
| VS_begin m rc dt exp : begin_spec e = Some (m, rc, dt, exp) ->
            view c1 = (mk_entry rc dt exp, bump (cur c) :: stack c, depth c + 1, objects c + 1, rectypes c, regs c) -> vstep cfg c e c1
| VS_record id n : e = ERecord id -> validate_identifier cfg id = true -> alookup id (rectypes c) = Some n ->
            view c1 = (mk_entry RRecord DT_Record (Some n), bump (cur c) :: stack c, depth c + 1, objects c + 1, rectypes c, regs c) ->
            vstep cfg c e c1
| VS_end : e = EEnd -> closable (e_rule (cur c)) = true -> vstep cfg c e c1
| VS_rectype id : e = ERecordType id -> stack c = [] -> vstep cfg c e c1
| VS_marker id : e = EMarker id -> validate_identifier cfg id = true ->
            is_marker_entry (cur c1) id -> stack c1 = bump (cur c) :: stack c -> depth c1 = depth c -> objects c1 = objects c + 1 ->
            rectypes c1 = rectypes c -> regs c1 = regs c -> marker_id c1 = id -> vstep cfg c e c1
| VS_ref id : e = ERefLocal id -> validate_identifier cfg id = true -> e_rule (cur c) <> RTopLevel ->
            room (cur c) -> objects c + 1 <= max_object_count cfg -> vstep cfg c e c1
| VS_abegin t dt : is_array_begin e = true -> chunked_type e = Some t -> array_dtype t = Some dt ->
            arr_guard (pos_of_rule (e_rule (cur c))) t = true -> room (cur c) -> objects c + 1 <= max_object_count cfg ->
            c1 = abegin_state t dt (nno_state c) -> vstep cfg c e c1.

Lemma inv_abegin cfg c e c1 o :
  rstep cfg c e = Some (c1, o) -> is_value_rule (e_rule (cur c)) = true -> is_array_begin e = true -> vstep cfg c e c1.
Proof.
  intros H V AB. apply rstep_inv in H as [pl [P [_ Hc]]]. rewrite (abegin_plan cfg e AB) in P.
  destruct (chunked_type e) as [t|] eqn:CT; [|discriminate]. unfold mkplan in P. inv_some. cbn [p_nno p_meth p_args] in Hc.
  destruct Hc as [Rm [O Hc]]. rewrite (abegin_exec cfg _ _ t _ V) in Hc.
  destruct (arr_guard (pos_of_rule (e_rule (cur c))) t) eqn:G; [|discriminate].
  destruct (array_dtype t) as [dt|] eqn:AD; [|discriminate]. inv_some. eapply VS_abegin; eauto.
Qed.

Lemma inv_value cfg c e c1 o :
  rstep cfg c e = Some (c1, o) -> is_value_rule (e_rule (cur c)) = true -> alpha e = true -> vstep cfg c e c1.
Proof.
  intros H V A. pose proof H as H0.
  destruct (is_array_begin e) eqn:AB; [exact (inv_abegin cfg c e c1 o H0 V AB)|].
  apply rstep_inv in H as [pl [P [Ho Hc]]].
  assert (forall t, e = trivia_event t -> vstep cfg c e c1) as Triv.
  { intros t ->. apply (VS_trivia _ _ _ _ t); [reflexivity|].
    pose proof (step_trivia cfg c t (value_rule_trivia _ V)) as S. rewrite S in H0. inv_some. reflexivity. }
  destruct (leaf_event e) eqn:L.
  - (* a value in one event *)
    destruct (leaf_event_plan cfg e pl L P) as [Pn Pm]. rewrite Pn in Hc. destruct Hc as [Rm [O E]].
    pose proof (value_meth_ok _ _ _ _ _ _ _ V E) as VM.
    assert (In (p_meth pl) leaf_meths) as I by (cbn; intuition auto).
    assert (p_meth pl = MNull -> null_allowed (e_rule (cur c)) = true) as HN by (intro X; rewrite X in VM; exact VM).
    assert (forallb (guard_holds cfg (p_args pl)) (dispatch (e_rule (cur c)) (p_meth pl)) = true) as G.
    { pose proof V as V'. apply in_value_rules in V'.
      pose proof value_table as T. rewrite forallb_forall in T. specialize (T _ V').
      do 7 (apply andb_true_iff in T as [T _]). rewrite forallb_forall in T. specialize (T _ I).
      apply orb_true_iff in T as [T|T].
      { destruct (p_meth pl); try discriminate T. rewrite HN in T by reflexivity. discriminate. }
      apply andb_true_iff in T as [T1 _]. destruct (guarded_change (dispatch (e_rule (cur c)) (p_meth pl))) as [tgt|] eqn:GC; [|discriminate].
      eapply guarded_change_inv; eauto. }
    apply (leaf_cell_guards cfg _ _ (p_args pl) V I HN) in G as [GA GS].
    assert (leaf_wf cfg (pos_of_rule (e_rule (cur c))) e = true) as W by (eapply leaf_wf_intro; eauto).
    apply VS_leaf; [exact L | exact W|].
    destruct (step_leaf cfg c e _ eq_refl V W Rm O) as [c' [S V']]. rewrite (rstep_det _ _ _ _ _ _ _ H0 S). exact V'.
  - destruct e as [| |v| |m t| |b| | |n|n|z|[z|]|bits|[bf|]|d|[d|]|s|b|s| | |id|id| | | |id|id|t cnt d|t d|mt d|ct d|ct d|t|mt|t ct|n m|d];
      try discriminate L; try discriminate AB; cbn [ev_plan] in P;
      repeat match goal with H : (if ?b then _ else _) = Some _ |- _ => destruct b eqn:?; try discriminate H end;
      unfold mkplan in P; inv_some; cbn [p_nno p_meth p_args] in Hc.
    all: try (apply (value_meth_ok _ _ _ _ _ _ _ V) in Hc; discriminate Hc).
    all: try (destruct Hc as [? [? Hc]]; pose proof (value_meth_ok _ _ _ _ _ _ _ V Hc) as VM).
    + apply (Triv TPad). reflexivity.
    + apply (Triv (TComment m t)). reflexivity.
    + (* EList *) apply (VS_begin _ _ _ _ MList RList DT_List None); [reflexivity|].
      destruct (step_begin cfg c EList _ _ _ _ _ eq_refl eq_refl V) as [c' [S V']]; try assumption; [|rewrite (rstep_det _ _ _ _ _ _ _ H0 S); exact V'].
      destruct (begin_cells _ V) as [C1 _]. rewrite C1 in Hc. cbn [exec_prims exec_prim] in Hc. unfold begin_container in Hc.
      destruct (max_container_depth cfg <? depth (nno_state c) + 1) eqn:X; [discriminate|]. cbn in X. lia.
    + (* EMap *) apply (VS_begin _ _ _ _ MMap RMapKey DT_Map None); [reflexivity|].
      destruct (step_begin cfg c EMap _ _ _ _ _ eq_refl eq_refl V) as [c' [S V']]; try assumption; [|rewrite (rstep_det _ _ _ _ _ _ _ H0 S); exact V'].
      destruct (begin_cells _ V) as [_ [C1 _]]. rewrite C1 in Hc. cbn [exec_prims exec_prim] in Hc. unfold begin_container in Hc.
      destruct (max_container_depth cfg <? depth (nno_state c) + 1) eqn:X; [discriminate|]. cbn in X. lia.
    + (* ERecordType *) destruct Hc as [c0 [N Hc]]. apply (VS_rectype _ _ _ _ id); [reflexivity|].
      unfold notify_new_object in N. inv_some.
      match type of Hc with call_current _ _ _ ?c0 = _ => rewrite (call_current_cell cfg _ _ c0 _ eq_refl) in Hc end.
      pose proof (value_meth_ok _ _ _ _ _ _ _ V Hc) as _.
      assert (dispatch (e_rule (cur c)) MRecordType = [PBeginRecordType]) as C1.
      { pose proof V as V'. apply in_value_rules in V'.
        assert (forallb (fun r => prims_eqb (dispatch r MRecordType) [PBeginRecordType]) value_rules = true) as T by (vm_compute; reflexivity).
        rewrite forallb_forall in T. apply prims_eqb_eq. apply T. exact V'. }
      rsimpl. rsimpl. cbn [e_rule] in Hc. rewrite C1 in Hc. cbn [exec_prims exec_prim] in Hc. rsimpl.
      destruct (stack c); [reflexivity | discriminate Hc].
    + (* ERecord *)
      destruct (begin_cells _ V) as [_ [_ [_ [_ C1]]]]. rewrite C1 in Hc. cbn [exec_prims exec_prim with_id a_id] in Hc.
      destruct (alookup id (rectypes (nno_state c))) as [n|] eqn:AL; [|discriminate]. unfold begin_container in Hc.
      destruct (max_container_depth cfg <? depth (nno_state c) + 1) eqn:X; [discriminate|]. cbn in X.
      apply (VS_record _ _ _ _ id n); [reflexivity | assumption | exact AL |].
      destruct (step_begin_record cfg c id _ n eq_refl V) as [c' [S V']]; try assumption; [lia|].
      rewrite (rstep_det _ _ _ _ _ _ _ H0 S). exact V'.
    + (* EEdge *) apply (VS_begin _ _ _ _ MEdge REdgeSource DT_Edge (Some 3)); [reflexivity|].
      destruct (step_begin cfg c EEdge _ _ _ _ _ eq_refl eq_refl V) as [c' [S V']]; try assumption; [|rewrite (rstep_det _ _ _ _ _ _ _ H0 S); exact V'].
      destruct (begin_cells _ V) as [_ [_ [C1 _]]]. rewrite C1 in Hc. cbn [exec_prims exec_prim] in Hc. unfold begin_container in Hc.
      destruct (max_container_depth cfg <? depth (nno_state c) + 1) eqn:X; [discriminate|]. cbn in X. lia.
    + (* ENode *) apply (VS_begin _ _ _ _ MNode RNode DT_List None); [reflexivity|].
      destruct (step_begin cfg c ENode _ _ _ _ _ eq_refl eq_refl V) as [c' [S V']]; try assumption; [|rewrite (rstep_det _ _ _ _ _ _ _ H0 S); exact V'].
      destruct (begin_cells _ V) as [_ [_ [_ [C1 _]]]]. rewrite C1 in Hc. cbn [exec_prims exec_prim] in Hc. unfold begin_container in Hc.
      destruct (max_container_depth cfg <? depth (nno_state c) + 1) eqn:X; [discriminate|]. cbn in X. lia.
    + (* EEnd *) apply VS_end; [reflexivity|]. pose proof (value_meth_ok _ _ _ _ _ _ _ V Hc) as VM. exact VM.
    + (* EMarker *)
      destruct (step_marker cfg c id _ eq_refl V) as [c' [S [M1 [E2 [E3 [E4 [E5 [G1 Mi]]]]]]]]; try assumption.
      rewrite <- (rstep_det _ _ _ _ _ _ _ H0 S) in *. eapply VS_marker; eauto.
    + (* ERefLocal *)
      apply (VS_ref _ _ _ _ id); try assumption; [reflexivity|]. intro X. rewrite X in VM. discriminate VM.
Qed.


(* the end of a container whose parent expects a value *)
Lemma inv_end cfg c c1 o p st :
  rstep cfg c EEnd = Some (c1, o) -> closable (e_rule (cur c)) = true -> stack c = p :: st -> is_value_rule (e_rule p) = true ->
  (e_dtype (cur c) =? DT_RecordType) = false ->
  match e_expected (cur c) with Some x => e_count (cur c) = x | None => True end /\ depth c <> 0 /\
  view c1 = (with_rule p (next_rule (e_rule p)), st, depth c - 1, objects c, rectypes c, regs c).
Proof.
  intros H Cl S V T. pose proof H as H0. apply rstep_inv in H as [pl [P [_ Hc]]]. cbn [ev_plan] in P. unfold mkplan in P. inv_some.
  cbn [p_nno p_meth p_args] in Hc. rewrite (end_cells _ Cl) in Hc. cbn [exec_prims exec_prim] in Hc. unfold end_container in Hc.
  destruct (depth c =? 0) eqn:D0; [discriminate|].
  destruct (match e_expected (cur c) with Some x => negb (e_count (cur c) =? x) | None => false end) eqn:X; [discriminate|].
  assert (match e_expected (cur c) with Some x => e_count (cur c) = x | None => True end) as X'.
  { destruct (e_expected (cur c)); [apply negb_false_iff in X; lia | exact I]. }
  assert (depth c <> 0) as D by lia. split; [exact X'|]. split; [exact D|].
  destruct (step_end cfg c p st (e_rule p) Cl S eq_refl V D X' T) as [c' [S' V']]. rewrite (rstep_det _ _ _ _ _ _ _ H0 S'). exact V'.
Qed.

(* keys *)
Definition key_meth (rk : rule) (m : meth) : bool :=
  match m with
  | MChildContainerEnded | MPadding | MComment | MKeyableObject | MEnd | MArray | MStringlikeArray | MArrayBegin => true
  | MMarker | MReferenceLocal => rule_beq rk RMapKey
  | _ => false
  end.
Lemma key_meth_table :
  forallb (fun rk => forallb (fun m => Bool.eqb (has_reject (dispatch rk m)) (negb (key_meth rk m))) all_meths) [RMapKey; RRecordType] = true.
Proof. vm_compute. reflexivity. Qed.

Lemma keyable_types t : assert_array_type t Allow_Keyable = (t =? AT_String) || (t =? AT_ResourceID).
Proof.
  destruct (N.ltb_spec t 22) as [L|L].
  - assert (In t (nseq 0 22)) as I by (apply nseq_In; lia).
    assert (forallb (fun t => Bool.eqb (assert_array_type t Allow_Keyable) ((t =? AT_String) || (t =? AT_ResourceID))) (nseq 0 22) = true) as T
      by (vm_compute; reflexivity).
    rewrite forallb_forall in T. apply Bool.eqb_prop. apply T. exact I.
  - unfold assert_array_type, array_dtype. assert (nth_error array_type_to_data_type (N.to_nat t) = None) as ->.
    { apply nth_error_None. cbn [length array_type_to_data_type]. lia. }
    unfold AT_String, AT_ResourceID. destruct (N.eqb_spec t 1); [lia|]. destruct (N.eqb_spec t 2); [lia|]. reflexivity.
Qed.

Inductive kstep (cfg : rcfg) (c : rctx) (tgt : option rule) (e : event) (c1 : rctx) : Prop :=
| KS_trivia t : e = trivia_event t -> c1 = c -> kstep cfg c tgt e c1
| KS_key k : key_ok cfg e = true -> key_of e = Some k -> existsb (nkey_eqb (norm_key k)) (e_keys (cur c)) = false ->
             view c1 = (keyed (cur c) k tgt, stack c, depth c, objects c + 1, rectypes c, regs c) -> kstep cfg c tgt e c1
| KS_end : e = EEnd -> kstep cfg c tgt e c1
| KS_marker id : e = EMarker id -> e_rule (cur c) = RMapKey -> kstep cfg c tgt e c1
| KS_ref id : e = ERefLocal id -> e_rule (cur c) = RMapKey -> kstep cfg c tgt e c1
| KS_abegin : is_array_begin e = true -> kstep cfg c tgt e c1.

Lemma inv_key cfg c e c1 o rk tgt :
  rstep cfg c e = Some (c1, o) -> e_rule (cur c) = rk -> rk = RMapKey \/ rk = RRecordType -> key_rule rk tgt -> alpha e = true ->
  kstep cfg c tgt e c1.
Proof.
  intros H R RK KR A. pose proof H as H0.
  destruct (is_array_begin e) eqn:AB; [apply KS_abegin; exact AB|].
  apply rstep_inv in H as [pl [P [Ho Hc]]].
  assert (trivia_rule (e_rule (cur c)) = true) as TR by (rewrite R; destruct RK as [E|E]; rewrite E; reflexivity).
  assert (forall t, e = trivia_event t -> kstep cfg c tgt e c1) as Triv.
  { intros t ->. apply (KS_trivia _ _ _ _ _ t); [reflexivity|]. pose proof (step_trivia cfg c t TR) as S. rewrite S in H0. inv_some. reflexivity. }
  assert (forall call m a c0 c2, exec_prims cfg call rk m a (dispatch rk m) c0 = Some c2 -> key_meth rk m = true) as KM.
  { intros call m a c0 c2 E. pose proof key_meth_table as T. rewrite forallb_forall in T.
    assert (In rk [RMapKey; RRecordType]) as I by (destruct RK as [E0|E0]; rewrite E0; cbn; tauto). specialize (T rk I).
    rewrite forallb_forall in T. specialize (T m (all_meths_complete m)). destruct (key_meth rk m); [reflexivity|].
    cbn [negb] in T. apply Bool.eqb_prop in T. rewrite exec_prims_reject in E by exact T. discriminate. }
  destruct KR as [C1 [C2 C3]]. rewrite R in Hc.
  assert (forall k, key_of e = Some k -> key_ok cfg e = true -> room (cur c) -> objects c + 1 <= max_object_count cfg ->
                    existsb (nkey_eqb (norm_key k)) (e_keys (cur c)) = false -> kstep cfg c tgt e c1) as Key.
  { intros k K KO Rm O Fr. apply (KS_key _ _ _ _ _ k); try assumption.
    destruct (step_key_gen cfg c e k rk tgt R (conj C1 (conj C2 C3)) KO K Fr Rm O) as [c' [S V']].
    rewrite (rstep_det _ _ _ _ _ _ _ H0 S). exact V'. }
  destruct e as [| |v| |m t| |b| | |n|n|z|[z|]|bits|[bf|]|d|[d|]|s|b|s| | |id|id| | | |id|id|t cnt d|t d|mt d|ct d|ct d|t|mt|t ct|n m|d];
    try discriminate AB; cbn [ev_plan] in P;
    repeat match goal with H : (if ?b then _ else _) = Some _ |- _ => destruct b eqn:?; try discriminate H end;
    unfold mkplan in P; inv_some; cbn [p_nno p_meth p_args] in Hc.
  all: try (apply KM in Hc; discriminate Hc).
  all: try (destruct Hc as [? [? Hc]]; pose proof (KM _ _ _ _ _ Hc) as VM; try discriminate VM).
  all: try (apply (Triv TPad); reflexivity).
  all: try (apply (Triv (TComment m t)); reflexivity).
  all: try (apply KS_end; reflexivity).
  all: try (eapply KS_marker; [reflexivity | cbn [key_meth] in VM; apply rule_beq_true in VM; congruence]).
  all: try (eapply KS_ref; [reflexivity | cbn [key_meth] in VM; apply rule_beq_true in VM; congruence]).
  (* keyable scalars *)
  all: try (rewrite C1 in Hc; cbn [exec_prims exec_prim key_args a_key] in Hc; unfold notify_key in Hc;
            match type of Hc with context [existsb ?f ?l] => destruct (existsb f l) eqn:Fr; [discriminate Hc|] end;
            eapply Key; [reflexivity
                        | first [reflexivity | unfold key_ok; cbn [key_of]; match goal with H : negb _ = false |- _ => apply negb_false_iff in H; exact H end]
                        | assumption | assumption | exact Fr]).
  - (* a record type where a key is expected *)
    destruct Hc as [c0 [N Hc]]. unfold notify_new_object in N. inv_some.
    match type of Hc with call_current _ _ _ ?c0 = _ => rewrite (call_current_cell cfg _ _ c0 _ eq_refl) in Hc end.
    cbn [e_rule cur set_objects set_cur] in Hc. apply KM in Hc. destruct RK as [E|E]; rewrite E in Hc; discriminate Hc.
  - (* a string / resource id delivered as an array *)
    rewrite C3 in Hc. cbn [exec_prims exec_prim array_args a_arrty a_count a_data] in Hc.
    destruct (assert_array_type t Allow_Keyable && validate_full_array_any cfg t cnt d) eqn:G; [|discriminate Hc].
    apply andb_true_iff in G as [G1 G2]. rewrite keyable_types in G1. unfold key_from_array, notify_key in Hc.
    destruct (t =? AT_String) eqn:T1.
    + match type of Hc with context [existsb ?f ?l] => destruct (existsb f l) eqn:Fr; [discriminate Hc|] end.
      apply (Key (RkString d)); try assumption; [cbn [key_of]; rewrite T1; reflexivity | unfold key_ok; cbn [key_of]; rewrite T1; exact G2].
    + destruct (t =? AT_ResourceID) eqn:T2; [|discriminate G1].
      match type of Hc with context [existsb ?f ?l] => destruct (existsb f l) eqn:Fr; [discriminate Hc|] end.
      apply (Key (RkRid d)); try assumption; [cbn [key_of]; rewrite T1, T2; reflexivity | unfold key_ok; cbn [key_of]; rewrite T1, T2; exact G2].
  - (* ... or as a string-like array *)
    rewrite C2 in Hc. cbn [exec_prims exec_prim array_args a_arrty a_count a_data] in Hc.
    destruct (assert_array_type t Allow_Keyable && validate_full_array_stringlike cfg t d) eqn:G; [|discriminate Hc].
    apply andb_true_iff in G as [G1 G2]. rewrite keyable_types in G1. unfold key_from_array, notify_key in Hc.
    destruct (t =? AT_String) eqn:T1.
    + match type of Hc with context [existsb ?f ?l] => destruct (existsb f l) eqn:Fr; [discriminate Hc|] end.
      apply (Key (RkString d)); try assumption; [cbn [key_of]; rewrite T1; reflexivity | unfold key_ok; cbn [key_of]; rewrite T1; exact G2].
    + destruct (t =? AT_ResourceID) eqn:T2; [|discriminate G1].
      match type of Hc with context [existsb ?f ?l] => destruct (existsb f l) eqn:Fr; [discriminate Hc|] end.
      apply (Key (RkRid d)); try assumption; [cbn [key_of]; rewrite T1, T2; reflexivity | unfold key_ok; cbn [key_of]; rewrite T1, T2; exact G2].
  - (* media and custom arrays are not keyable *)
    exfalso. rewrite C3 in Hc. cbn [exec_prims exec_prim array_args a_arrty a_count a_data] in Hc.
    assert (assert_array_type AT_Media Allow_Keyable = false) as Z by (vm_compute; reflexivity). rewrite Z in Hc. discriminate Hc.
  - exfalso. rewrite C3 in Hc. cbn [exec_prims exec_prim array_args a_arrty a_count a_data] in Hc.
    assert (assert_array_type AT_CustomBinary Allow_Keyable = false) as Z by (vm_compute; reflexivity). rewrite Z in Hc. discriminate Hc.
  - exfalso. rewrite C2 in Hc. cbn [exec_prims exec_prim array_args a_arrty a_count a_data] in Hc.
    assert (assert_array_type AT_CustomText Allow_Keyable = false) as Z by (vm_compute; reflexivity). rewrite Z in Hc. discriminate Hc.
Qed.

(* ------------------------------------------------------------------------- *)
(* Inverting the steps at a marker                                            *)
(* ------------------------------------------------------------------------- *)
Lemma mark_object_inv cfg dt c c' mk fw :
  mark_object cfg dt c = Some c' -> Reg c mk fw ->
  id_mem (marker_id c) mk = false /\ refcount c + 1 <= max_local_reference_count cfg.
Proof.
  unfold mark_object. intros H [R1 _].
  destruct (max_local_reference_count cfg <? refcount c + 1) eqn:X; [discriminate|].
  destruct (alookup (marker_id c) (marked c)) eqn:A; [discriminate|]. split; [|lia].
  apply id_mem_false. intro I. apply R1 in I. apply alookup_none in A. contradiction.
Qed.

(* which methods the marker rule does not reject *)
Definition marker_meth (m : meth) : bool :=
  match m with
  | MChildContainerEnded | MPadding | MKeyableObject | MNonKeyableObject | MNull | MList | MMap | MRecord | MEdge | MNode
  | MArray | MStringlikeArray | MArrayBegin => true
  | _ => false
  end.
Lemma marker_meth_table :
  forallb (fun m => Bool.eqb (has_reject (dispatch RMarkedObjectAnyType m)) (negb (marker_meth m))) all_meths = true.
Proof. vm_compute. reflexivity. Qed.
Lemma marker_meth_ok cfg call m a c c1 :
  exec_prims cfg call RMarkedObjectAnyType m a (dispatch RMarkedObjectAnyType m) c = Some c1 -> marker_meth m = true.
Proof.
  intro E. pose proof marker_meth_table as T. rewrite forallb_forall in T. specialize (T m (all_meths_complete m)).
  destruct (marker_meth m); [reflexivity|]. cbn [negb] in T. apply Bool.eqb_prop in T.
  rewrite exec_prims_reject in E by exact T. discriminate.
Qed.

(* the value handed to the parent rule, then the marker registered: what success means *)
Lemma marked_tail_inv cfg c1 p st r m' a' dt mk fw cz :
  stack c1 = p :: st -> e_rule p = r -> is_value_rule r = true -> In m' leaf_meths ->
  match unstack_rule c1 with
  | Some c2 => match call_rule 5 cfg (e_rule (cur c2)) m' a' c2 with
               | Some c3 => match mark_object cfg dt c3 with Some c4 => Some c4 | None => None end
               | None => None
               end
  | None => None
  end = Some cz ->
  Reg c1 mk fw ->
  (m' = MNull -> null_allowed r = true) /\ forallb (guard_holds cfg a') (dispatch r m') = true /\
  id_mem (marker_id c1) mk = false /\ refcount c1 + 1 <= max_local_reference_count cfg.
Proof.
  intros S R V M H Rg. rewrite (unstack_cons _ _ _ S) in H.
  destruct (call_rule 5 cfg (e_rule (cur (set_cur (set_stack c1 st) p))) m' a' (set_cur (set_stack c1 st) p)) as [c3|] eqn:CR; [|discriminate].
  rewrite (call_rule_cell 4 cfg (set_cur (set_stack c1 st) p) r m' a') in CR by exact R.
  pose proof (value_meth_ok _ _ _ _ _ _ _ V CR) as VM.
  assert (m' = MNull -> null_allowed r = true) as HN by (intro X; rewrite X in VM; exact VM).
  assert (forallb (guard_holds cfg a') (dispatch r m') = true) as G.
  { pose proof V as V'. apply in_value_rules in V'.
    pose proof value_table as T. rewrite forallb_forall in T. specialize (T _ V').
    do 7 (apply andb_true_iff in T as [T _]). rewrite forallb_forall in T. specialize (T _ M).
    apply orb_true_iff in T as [T|T].
    { destruct m'; try discriminate T. rewrite HN in T by reflexivity. discriminate. }
    apply andb_true_iff in T as [T1 _]. destruct (guarded_change (dispatch r m')) as [tgt|] eqn:GC; [|discriminate].
    eapply guarded_change_inv; eauto. }
  split; [exact HN|]. split; [exact G|].
  rewrite (value_cell_exec cfg 4 r m' a' _ V M HN G) in CR by exact R. inv_some.
  destruct (mark_object cfg dt _) as [c4|] eqn:MO; [|discriminate].
  apply (mark_object_inv _ _ _ _ mk fw) in MO; [exact MO | exact Rg].
Qed.

Lemma markable_intro cfg e pl :
  leaf_event e = true -> ev_plan cfg e = Some pl ->
  (p_meth pl = MArray \/ p_meth pl = MStringlikeArray -> assert_array_type (a_arrty (p_args pl)) Allow_Markable = true) ->
  markable (VLeaf e) = true.
Proof.
  destruct e as [| |v| |m t| |b| | |n|n|z|[z|]|bits|[bf|]|[| | |]|[[| | |]|]|s|b|s| | |id|id| | | |id|id|t cnt d|t d|mt d|ct d|ct d|t|mt|t ct|n m|d];
    cbn [leaf_event ev_plan markable]; intros L P H; try discriminate L; try reflexivity;
    (destruct (array_api_ok t); [|discriminate P]); unfold mkplan in P; inv_some; cbn [p_meth p_args a_arrty array_args] in H; apply H; auto.
Qed.

(* what an accepted event does right after a marker: the marker entry [id] is in force, [p] expects the value *)
Inductive mstep (cfg : rcfg) (c : rctx) (id : bytes) (p : entry) (st : list entry) (mk fw : list bytes) (e : event) (c1 : rctx) : Prop :=
| MS_pad : e = EPadding -> c1 = c -> mstep cfg c id p st mk fw e c1
| MS_leaf : leaf_event e = true -> leaf_wf cfg (pos_of_rule (e_rule p)) e = true -> markable (VLeaf e) = true ->
            id_mem id mk = false ->
            cur c1 = with_rule p (next_rule (e_rule p)) -> stack c1 = st -> depth c1 = depth c -> rectypes c1 = rectypes c ->
            Reg c1 (id :: mk) (id_remove id fw) -> mstep cfg c id p st mk fw e c1
| MS_begin m rc dt exp : begin_spec e = Some (m, rc, dt, exp) ->
            view c1 = (mk_entry rc dt exp, bump (cur c) :: stack c, depth c + 1, objects c + 1, rectypes c, regs c) ->
            mstep cfg c id p st mk fw e c1
| MS_record rid n : e = ERecord rid -> validate_identifier cfg rid = true -> alookup rid (rectypes c) = Some n ->
            view c1 = (mk_entry RRecord DT_Record (Some n), bump (cur c) :: stack c, depth c + 1, objects c + 1, rectypes c, regs c) ->
            mstep cfg c id p st mk fw e c1
| MS_abegin t dt : is_array_begin e = true -> chunked_type e = Some t -> array_dtype t = Some dt ->
            assert_array_type t Allow_Markable = true -> arr_guard (pos_of_rule (e_rule p)) t = true ->
            objects c + 1 <= max_object_count cfg -> c1 = abegin_state t dt (nno_state c) -> mstep cfg c id p st mk fw e c1.

Lemma inv_marked cfg c e c1 o id p st mk fw :
  rstep cfg c e = Some (c1, o) -> is_marker_entry (cur c) id -> stack c = p :: st -> is_value_rule (e_rule p) = true ->
  marker_id c = id -> Reg c mk fw -> alpha e = true -> mstep cfg c id p st mk fw e c1.
Proof.
  intros H ME S V Mi Rg A. pose proof H as H0. pose proof ME as [M1 [M2 M3]].
  destruct (is_array_begin e) eqn:AB.
  { apply rstep_inv in H as [pl [P [_ Hc]]]. rewrite (abegin_plan cfg e AB) in P.
    destruct (chunked_type e) as [t|] eqn:CT; [|discriminate]. unfold mkplan in P. injection P as <-. cbn [p_nno p_meth p_args] in Hc.
    destruct Hc as [Rm [O Hc]]. rewrite M1, abegin_marker_cell in Hc. cbn [exec_prims exec_prim array_args a_arrty mask_value] in Hc.
    destruct (assert_array_type t Allow_Markable) eqn:AM; [|discriminate Hc].
    change (stack (nno_state c)) with (stack c) in Hc. rewrite S, call_rule_S, (abegin_exec cfg _ _ t _ V) in Hc.
    destruct (arr_guard (pos_of_rule (e_rule p)) t) eqn:G; [|discriminate Hc].
    destruct (array_dtype t) as [dt|] eqn:AD; [|discriminate Hc]. injection Hc as <-. eapply MS_abegin; eauto. }
  apply rstep_inv in H as [pl [P [Ho Hc]]].
  destruct (leaf_event e) eqn:L.
  - (* a value in one event *)
    destruct (leaf_event_plan cfg e pl L P) as [Pn Pm]. rewrite Pn in Hc. destruct Hc as [Rm [O E]]. rewrite M1 in E.
    pose proof marker_cells as T. do 7 (apply andb_true_iff in T as [T _]).
    apply andb_true_iff in T as [T T5]. apply andb_true_iff in T as [T T4]. apply andb_true_iff in T as [T T3].
    apply andb_true_iff in T as [T1 T2]. apply prims_eqb_eq in T1, T2, T3, T4, T5.
    assert (Reg (nno_state c) mk fw) as Rg1 by exact Rg.
    assert (stack (nno_state c) = p :: st) as S1 by exact S.
    assert (marker_id (nno_state c) = id) as Mi1 by exact Mi.
    assert (refcount (nno_state c) = refcount c) as Rc1 by reflexivity.
    assert (leaf_wf cfg (pos_of_rule (e_rule p)) e = true -> markable (VLeaf e) = true -> id_mem id mk = false ->
            refcount c + 1 <= max_local_reference_count cfg -> mstep cfg c id p st mk fw e c1) as Fin.
    { intros W Mk Nm Rc.
      destruct (step_marked_leaf cfg c e id p st _ mk fw ME S eq_refl V Mi W Mk O Rg Nm Rc) as [c' [S' [F1 [F2 [F3 [F4 [F5 [F6 F7]]]]]]]].
      rewrite (rstep_det _ _ _ _ _ _ _ H0 S'). apply MS_leaf; assumption. }
    destruct Pm as [M|[M|[M|[M|M]]]].
    + (* keyable *)
      rewrite M, T1 in E. cbn [exec_prims exec_prim] in E.
      destruct (marked_tail_inv cfg (nno_state c) p st _ MKeyableObject (p_args pl) (a_dtype (p_args pl)) mk fw c1 S1 eq_refl V) as [HN [G [Nm Rc]]];
        [cbn; tauto | exact E | exact Rg1 |].
      rewrite Mi1 in Nm. rewrite Rc1 in Rc. apply Fin; try assumption.
      * eapply leaf_wf_intro; eauto; intro X; rewrite M in X; discriminate X.
      * eapply markable_intro; eauto. intros [X|X]; rewrite M in X; discriminate X.
    + (* non-keyable *)
      rewrite M, T2 in E. cbn [exec_prims exec_prim] in E.
      destruct (marked_tail_inv cfg (nno_state c) p st _ MKeyableObject (with_key (p_args pl) (Some (RkString []))) (a_dtype (p_args pl)) mk fw c1 S1 eq_refl V) as [HN [G [Nm Rc]]];
        [cbn; tauto | exact E | exact Rg1 |].
      rewrite Mi1 in Nm. rewrite Rc1 in Rc. apply Fin; try assumption.
      * eapply leaf_wf_intro; eauto; intro X; rewrite M in X; discriminate X.
      * eapply markable_intro; eauto. intros [X|X]; rewrite M in X; discriminate X.
    + (* null *)
      rewrite M, T3 in E. cbn [exec_prims exec_prim] in E.
      destruct (marked_tail_inv cfg (nno_state c) p st _ MNull (p_args pl) DT_Null mk fw c1 S1 eq_refl V) as [HN [G [Nm Rc]]];
        [cbn; tauto | exact E | exact Rg1 |].
      rewrite Mi1 in Nm. rewrite Rc1 in Rc. apply Fin; try assumption.
      * eapply leaf_wf_intro; [exact L | exact P | intros _; exact (HN eq_refl) | intro X; rewrite M in X; discriminate X | intro X; rewrite M in X; discriminate X].
      * eapply markable_intro; eauto. intros [X|X]; rewrite M in X; discriminate X.
    + (* array *)
      rewrite M, T4 in E. cbn [exec_prims exec_prim mask_value] in E.
      destruct (assert_array_type (a_arrty (p_args pl)) Allow_Markable) eqn:AM; [|discriminate E].
      destruct (array_dtype (a_arrty (p_args pl))) as [dt|] eqn:AD.
      2:{ unfold assert_array_type in AM. rewrite AD in AM. discriminate AM. }
      destruct (marked_tail_inv cfg (nno_state c) p st _ MArray (p_args pl) dt mk fw c1 S1 eq_refl V) as [HN [G [Nm Rc]]];
        [cbn; tauto | exact E | exact Rg1 |].
      rewrite Mi1 in Nm. rewrite Rc1 in Rc.
      apply (leaf_cell_guards cfg _ _ (p_args pl) V) in G as [GA GS]; [|cbn; tauto | intro X; discriminate X].
      apply Fin; try assumption.
      * eapply leaf_wf_intro; eauto; intro X; rewrite M in X; discriminate X.
      * eapply markable_intro; eauto.
    + (* string-like array *)
      rewrite M, T5 in E. cbn [exec_prims exec_prim mask_value] in E.
      destruct (assert_array_type (a_arrty (p_args pl)) Allow_Markable) eqn:AM; [|discriminate E].
      destruct (array_dtype (a_arrty (p_args pl))) as [dt|] eqn:AD.
      2:{ unfold assert_array_type in AM. rewrite AD in AM. discriminate AM. }
      destruct (marked_tail_inv cfg (nno_state c) p st _ MStringlikeArray (p_args pl) dt mk fw c1 S1 eq_refl V) as [HN [G [Nm Rc]]];
        [cbn; tauto | exact E | exact Rg1 |].
      rewrite Mi1 in Nm. rewrite Rc1 in Rc.
      apply (leaf_cell_guards cfg _ _ (p_args pl) V) in G as [GA GS]; [|cbn; tauto | intro X; discriminate X].
      apply Fin; try assumption.
      * eapply leaf_wf_intro; eauto; intro X; rewrite M in X; discriminate X.
      * eapply markable_intro; eauto.
  - subst id. destruct marker_container_cells as [K1 [K2 [K3 [K4 [K5 _]]]]].
    destruct e as [| |v| |m t| |b| | |n|n|z|[z|]|bits|[bf|]|d|[d|]|s|b|s| | |id0|id0| | | |id0|id0|t cnt d|t d|mt d|ct d|ct d|t|mt|t ct|n m|d];
      try discriminate L; try discriminate AB; cbn [ev_plan] in P;
      repeat match goal with H : (if ?b then _ else _) = Some _ |- _ => destruct b eqn:?; try discriminate H end;
      unfold mkplan in P; inv_some; cbn [p_nno p_meth p_args] in Hc.
    all: try (rewrite M1 in Hc; apply marker_meth_ok in Hc; discriminate Hc).
    all: try (destruct Hc as [Rm [O Hc]]; rewrite M1 in Hc; pose proof (marker_meth_ok _ _ _ _ _ _ Hc) as VM; try discriminate VM).
    + (* padding *)
      apply MS_pad; [reflexivity|]. pose proof (step_marker_pad cfg c _ ME) as S'. rewrite S' in H0. inv_some. reflexivity.
    + (* EList *) apply (MS_begin _ _ _ _ _ _ _ _ _ MList RList DT_List None); [reflexivity|].
      destruct (step_marked_begin cfg c EList _ p st _ _ _ _ _ eq_refl ME S eq_refl V O) as [c' [S' V']]; [|rewrite (rstep_det _ _ _ _ _ _ _ H0 S'); exact V'].
      destruct (begin_cells _ V) as [C1 _]. rewrite K1 in Hc. cbn [exec_prims exec_prim] in Hc.
      change (stack (nno_state c)) with (stack c) in Hc. rewrite S, call_rule_S, C1 in Hc. cbn [exec_prims exec_prim] in Hc.
      unfold begin_container in Hc. destruct (max_container_depth cfg <? depth (nno_state c) + 1) eqn:X; [discriminate|]. cbn in X. lia.
    + (* EMap *) apply (MS_begin _ _ _ _ _ _ _ _ _ MMap RMapKey DT_Map None); [reflexivity|].
      destruct (step_marked_begin cfg c EMap _ p st _ _ _ _ _ eq_refl ME S eq_refl V O) as [c' [S' V']]; [|rewrite (rstep_det _ _ _ _ _ _ _ H0 S'); exact V'].
      destruct (begin_cells _ V) as [_ [C1 _]]. rewrite K2 in Hc. cbn [exec_prims exec_prim] in Hc.
      change (stack (nno_state c)) with (stack c) in Hc. rewrite S, call_rule_S, C1 in Hc. cbn [exec_prims exec_prim] in Hc.
      unfold begin_container in Hc. destruct (max_container_depth cfg <? depth (nno_state c) + 1) eqn:X; [discriminate|]. cbn in X. lia.
    + (* ERecordType *) exfalso. destruct Hc as [c0 [N Hc]]. unfold notify_new_object in N.
      assert (match e_expected (cur c) with Some x => false && (x <? e_count (cur c)) | None => false end = false) as Z
        by (destruct (e_expected (cur c)); reflexivity).
      cbv zeta in N. rewrite Z in N. destruct (max_object_count cfg <? objects c + 1); [discriminate|]. inv_some.
      match type of Hc with call_current _ _ _ ?c0 = _ => rewrite (call_current_cell cfg _ _ c0 RMarkedObjectAnyType) in Hc by (rsimpl; exact M1) end.
      apply marker_meth_ok in Hc. discriminate Hc.
    + (* ERecord *)
      rewrite K3 in Hc. cbn [exec_prims exec_prim] in Hc.
      destruct (begin_cells _ V) as [_ [_ [_ [_ C1]]]].
      change (stack (nno_state c)) with (stack c) in Hc. rewrite S, call_rule_S, C1 in Hc. cbn [exec_prims exec_prim with_id a_id] in Hc.
      destruct (alookup id0 (rectypes (nno_state c))) as [n|] eqn:AL; [|discriminate]. unfold begin_container in Hc.
      destruct (max_container_depth cfg <? depth (nno_state c) + 1) eqn:X; [discriminate|]. cbn in X.
      apply (MS_record _ _ _ _ _ _ _ _ _ id0 n); [reflexivity | assumption | exact AL |].
      destruct (step_marked_begin_record cfg c id0 _ p st _ n ME S eq_refl V) as [c' [S' V']]; try assumption; [lia|].
      rewrite (rstep_det _ _ _ _ _ _ _ H0 S'). exact V'.
    + (* EEdge *) apply (MS_begin _ _ _ _ _ _ _ _ _ MEdge REdgeSource DT_Edge (Some 3)); [reflexivity|].
      destruct (step_marked_begin cfg c EEdge _ p st _ _ _ _ _ eq_refl ME S eq_refl V O) as [c' [S' V']]; [|rewrite (rstep_det _ _ _ _ _ _ _ H0 S'); exact V'].
      rewrite K4 in Hc. cbn [exec_prims exec_prim] in Hc.
      unfold begin_container in Hc. destruct (max_container_depth cfg <? depth (nno_state c) + 1) eqn:X; [discriminate|]. cbn in X. lia.
    + (* ENode *) apply (MS_begin _ _ _ _ _ _ _ _ _ MNode RNode DT_List None); [reflexivity|].
      destruct (step_marked_begin cfg c ENode _ p st _ _ _ _ _ eq_refl ME S eq_refl V O) as [c' [S' V']]; [|rewrite (rstep_det _ _ _ _ _ _ _ H0 S'); exact V'].
      rewrite K5 in Hc. cbn [exec_prims exec_prim] in Hc.
      unfold begin_container in Hc. destruct (max_container_depth cfg <? depth (nno_state c) + 1) eqn:X; [discriminate|]. cbn in X. lia.
Qed.

(* the end of a marked container: [me] is the marker's entry, [p] the entry that expects the value *)
Lemma inv_end_marked cfg c c1 o me id p st mk fw :
  rstep cfg c EEnd = Some (c1, o) -> closable (e_rule (cur c)) = true -> stack c = me :: p :: st -> is_marker_entry me id ->
  is_value_rule (e_rule p) = true -> (e_dtype (cur c) =? DT_RecordType) = false -> N.land (e_dtype (cur c)) Allow_Any <> 0 ->
  Reg c mk fw ->
  match e_expected (cur c) with Some x => e_count (cur c) = x | None => True end /\ depth c <> 0 /\ id_mem id mk = false /\
  cur c1 = with_rule p (next_rule (e_rule p)) /\ stack c1 = st /\ depth c1 = depth c - 1 /\ rectypes c1 = rectypes c /\
  Reg c1 (id :: mk) (id_remove id fw).
Proof.
  intros H Cl S ME V T Dt Rg. pose proof H as H0. pose proof ME as [M1 [M2 M3]].
  apply rstep_inv in H as [pl [P [_ Hc]]]. cbn [ev_plan] in P. unfold mkplan in P. inv_some.
  cbn [p_nno p_meth p_args] in Hc. rewrite (end_cells _ Cl) in Hc. cbn [exec_prims exec_prim] in Hc. unfold end_container in Hc.
  destruct (depth c =? 0) eqn:D0; [discriminate|].
  destruct (match e_expected (cur c) with Some x => negb (e_count (cur c) =? x) | None => false end) eqn:X; [discriminate|].
  assert (match e_expected (cur c) with Some x => e_count (cur c) = x | None => True end) as X'.
  { destruct (e_expected (cur c)); [apply negb_false_iff in X; lia | exact I]. }
  assert (depth c <> 0) as D by lia.
  destruct marker_container_cells as [_ [_ [_ [_ [_ K]]]]].
  rewrite T in Hc. unfold end_container_like, unstack_rule in Hc. rsimpl. rewrite S in Hc. rsimpl. rewrite M1, call_rule_S, K in Hc.
  cbn [exec_prims exec_prim with_dtype a_dtype] in Hc. rsimpl. unfold entry_marker_id in Hc. rewrite M3 in Hc.
  match type of Hc with context [mark_object cfg ?dt ?c3] => destruct (mark_object cfg dt c3) as [c4|] eqn:MO; [|discriminate Hc];
    apply (mark_object_inv _ _ _ _ mk fw) in MO; [|exact Rg] end.
  destruct MO as [Nm Rc]. cbn [marker_id set_markers] in Nm. rsimpl.
  destruct (step_end_marked cfg c me id p st _ mk fw Cl S ME eq_refl V D X' T Dt Rg Nm Rc) as [c' [S' [F1 [F2 [F3 [F4 [F5 [F6 F7]]]]]]]].
  rewrite (rstep_det _ _ _ _ _ _ _ H0 S'). do 7 (split; [assumption|]). exact F7.
Qed.

(* ------------------------------------------------------------------------- *)
(* Parsing an accepted run                                                    *)
(* ------------------------------------------------------------------------- *)
Definition is_trivia (e : event) : bool := match e with EPadding | EComment _ _ => true | _ => false end.
Definition is_rectype (e : event) : bool := match e with ERecordType _ => true | _ => false end.
Definition is_end (e : event) : bool := match e with EEnd => true | _ => false end.

Lemma is_trivia_spec e : is_trivia e = true -> exists t, e = trivia_event t.
Proof. destruct e; try discriminate; intros _; [exists TPad | exists (TComment multi text)]; reflexivity. Qed.
Lemma trivia_is_trivia t : is_trivia (trivia_event t) = true.
Proof. destruct t; reflexivity. Qed.
Lemma is_end_spec e : is_end e = true -> e = EEnd.
Proof. destruct e; try discriminate; reflexivity. Qed.
Lemma is_rectype_spec e : is_rectype e = true -> exists id, e = ERecordType id.
Proof. destruct e; try discriminate. eauto. Qed.

Lemma flatten_nonempty v : flatten v <> [].
Proof. destruct v; cbn; discriminate. Qed.
Lemma flatten_length v : (1 <= length (flatten v))%nat.
Proof. pose proof (flatten_nonempty v). destruct (flatten v); [contradiction | cbn; lia]. Qed.

Lemma steps_cons_inv cfg c e es cf :
  steps cfg c (e :: es) = Some cf -> exists c1 o, rstep cfg c e = Some (c1, o) /\ steps cfg c1 es = Some cf.
Proof. cbn [steps]. destruct (rstep cfg c e) as [[c1 o]|]; [eauto | discriminate]. Qed.

(* no marker and no reference where a map key is expected, on the run of [es] from [c] *)
Definition NKM (cfg : rcfg) (c : rctx) (es : list event) : Prop :=
  forall p e r c', es = p ++ e :: r -> steps cfg c p = Some c' -> not_a_plain_key e = true ->
                   e_rule (cur c') <> RMapKey /\ e_rule (cur c') <> RRecordType.

Lemma NKM_app cfg c a b c1 : NKM cfg c (a ++ b) -> steps cfg c a = Some c1 -> NKM cfg c1 b.
Proof.
  intros H S p e r c' E Sp M. apply (H (a ++ p) e r c'); [rewrite E, app_assoc; reflexivity | rewrite steps_app, S; exact Sp | exact M].
Qed.
Lemma NKM_cons cfg c e es c1 o : NKM cfg c (e :: es) -> rstep cfg c e = Some (c1, o) -> NKM cfg c1 es.
Proof. intros H R. apply (NKM_app cfg c [e] es c1 H). cbn [steps]. rewrite R. reflexivity. Qed.
Lemma NKM_head cfg c e es : NKM cfg c (e :: es) -> not_a_plain_key e = true -> e_rule (cur c) <> RMapKey /\ e_rule (cur c) <> RRecordType.
Proof. intros H M. apply (H [] e es c); [reflexivity | reflexivity | exact M]. Qed.

(* the value is complete: the entry in force counts it and moves on *)
Definition Done (c c1 : rctx) : Prop :=
  cur c1 = adv_entry (cur c) /\ stack c1 = stack c /\ depth c1 = depth c /\ rectypes c1 = rectypes c.

(* the head of the list, where a value is expected: not the end of the container if the rule in force could
   take one, not trivia there either (trivia before the end of a container belongs to the container), and at
   document level neither trivia nor a record type (they belong to the document) *)
Definition head_ok (c : rctx) (es : list event) : Prop :=
  match es with
  | [] => True
  | h :: _ => (closable (e_rule (cur c)) = true -> is_end h = false /\ is_trivia h = false) /\
              (stack c = [] -> is_trivia h = false /\ is_rectype h = false)
  end.

Definition item_rule (r : rule) : Prop := r = RList \/ r = RRecord \/ r = REdgeDestination.

(* how a container begins: the rule, type and arity of its entry *)
Definition begins (cfg : rcfg) (rts : list (bytes * N)) (e : event) (rc : rule) (dt : N) (exp : option N) : Prop :=
  (exists m, begin_spec e = Some (m, rc, dt, exp)) \/
  (exists rid n, e = ERecord rid /\ validate_identifier cfg rid = true /\ alookup rid rts = Some n /\
                 rc = RRecord /\ dt = DT_Record /\ exp = Some n).

Section Parse.
  Variable cfg : rcfg.
  Notation Alpha es := (Forall (fun e => alpha e = true) es).

  (* a value *)
  Definition PV (n : nat) : Prop :=
    forall es c cf mk fw, (length es <= n)%nat -> steps cfg c es = Some cf -> e_rule (cur cf) = RTerminal ->
      Alpha es -> NKM cfg c es -> is_value_rule (e_rule (cur c)) = true -> head_ok c es ->
      depth c <= max_container_depth cfg -> Reg c mk fw ->
      exists v rest c1 mk' fw', es = flatten v ++ rest /\ wf_val cfg (rectypes c) (pos_of_rule (e_rule (cur c))) v = true /\
        steps cfg c (flatten v) = Some c1 /\ Done c c1 /\ steps cfg c1 rest = Some cf /\
        depth c + height v <= max_container_depth cfg /\
        reg_val v (mk, fw) = Some (mk', fw') /\ Reg c1 mk' fw' /\ (e_rule (cur c) = RTopLevel -> top_ok v = true).

  (* the items of a list, a record, a node; the destination of an edge *)
  Definition PI (n : nat) : Prop :=
    forall es c cf mk fw, (length es <= n)%nat -> steps cfg c es = Some cf -> e_rule (cur cf) = RTerminal ->
      Alpha es -> NKM cfg c es -> item_rule (e_rule (cur c)) -> stack c <> [] ->
      depth c <= max_container_depth cfg -> Reg c mk fw ->
      exists items close rest c2 mk' fw',
        es = flat_map flatten items ++ map trivia_event close ++ EEnd :: rest /\
        forallb (wf_val cfg (rectypes c) (pos_of_rule (e_rule (cur c)))) items = true /\
        steps cfg c (flat_map flatten items ++ map trivia_event close) = Some c2 /\
        stack c2 = stack c /\ depth c2 = depth c /\ rectypes c2 = rectypes c /\
        e_rule (cur c2) = e_rule (cur c) /\ e_dtype (cur c2) = e_dtype (cur c) /\ e_expected (cur c2) = e_expected (cur c) /\
        e_count (cur c2) = e_count (cur c) + N.of_nat (length items) /\
        steps cfg c2 (EEnd :: rest) = Some cf /\
        depth c + list_max (map height items) <= max_container_depth cfg /\
        reg_list items (mk, fw) = Some (mk', fw') /\ Reg c2 mk' fw'.

  (* the entries of a map *)
  Definition PE (n : nat) : Prop :=
    forall es c cf mk fw, (length es <= n)%nat -> steps cfg c es = Some cf -> e_rule (cur cf) = RTerminal ->
      Alpha es -> NKM cfg c es -> e_rule (cur c) = RMapKey -> e_expected (cur c) = None -> stack c <> [] ->
      depth c <= max_container_depth cfg -> Reg c mk fw ->
      exists entries close rest c2 mk' fw',
        es = flat_map entry_events entries ++ map trivia_event close ++ EEnd :: rest /\
        forallb (fun en => let '(_, k, v) := en in key_ok cfg k && wf_val cfg (rectypes c) PPlain v) entries = true /\
        nkeys_distinct (map (fun en => let '(_, k, _) := en in nkey_of k) entries) = true /\
        (forall tv k v nk, In (tv, k, v) entries -> nkey_of k = Some nk -> existsb (nkey_eqb nk) (e_keys (cur c)) = false) /\
        steps cfg c (flat_map entry_events entries ++ map trivia_event close) = Some c2 /\
        stack c2 = stack c /\ depth c2 = depth c /\ rectypes c2 = rectypes c /\
        e_rule (cur c2) = RMapKey /\ e_dtype (cur c2) = e_dtype (cur c) /\ e_expected (cur c2) = None /\
        steps cfg c2 (EEnd :: rest) = Some cf /\
        depth c + list_max (map (fun en => let '(_, _, v) := en in height v) entries) <= max_container_depth cfg /\
        reg_entries entries (mk, fw) = Some (mk', fw') /\ Reg c2 mk' fw'.

  (* the value a marker is put on: the marker's entry [id] is in force, [p] expects the value *)
  Definition PM (n : nat) : Prop :=
    forall es c cf id p st mk fw, (length es <= n)%nat -> steps cfg c es = Some cf -> e_rule (cur cf) = RTerminal ->
      Alpha es -> NKM cfg c es -> is_marker_entry (cur c) id -> stack c = p :: st -> is_value_rule (e_rule p) = true ->
      marker_id c = id -> depth c <= max_container_depth cfg -> Reg c mk fw ->
      exists pads v rest c1 mk' fw',
        es = repeat EPadding pads ++ flatten v ++ rest /\ markable v = true /\
        wf_val cfg (rectypes c) (pos_of_rule (e_rule p)) v = true /\
        steps cfg c (repeat EPadding pads ++ flatten v) = Some c1 /\
        cur c1 = with_rule p (next_rule (e_rule p)) /\ stack c1 = st /\ depth c1 = depth c /\ rectypes c1 = rectypes c /\
        steps cfg c1 rest = Some cf /\ depth c + height v <= max_container_depth cfg /\
        reg_val v (mk, fw) = Some (mk', fw') /\ id_mem id mk' = false /\ Reg c1 (id :: mk') (id_remove id fw').

  (* a container from its begin event (accepted, leading to [c1]) to just before its end event *)
  Definition PB (n : nat) : Prop :=
    forall e rc dt exp es c1 cf mk fw, (length es <= n)%nat -> steps cfg c1 es = Some cf -> e_rule (cur cf) = RTerminal ->
      Alpha es -> NKM cfg c1 es -> begins cfg (rectypes c1) e rc dt exp -> cur c1 = mk_entry rc dt exp -> stack c1 <> [] ->
      depth c1 <= max_container_depth cfg -> Reg c1 mk fw ->
      exists v body rest c2 mk' fw' h,
        es = body ++ EEnd :: rest /\ flatten v = e :: body ++ [EEnd] /\
        (forall ps, wf_val cfg (rectypes c1) ps v = true) /\ markable v = true /\ top_ok v = true /\
        steps cfg c1 body = Some c2 /\ stack c2 = stack c1 /\ depth c2 = depth c1 /\ rectypes c2 = rectypes c1 /\
        closable (e_rule (cur c2)) = true /\ e_dtype (cur c2) = dt /\
        steps cfg c2 (EEnd :: rest) = Some cf /\ height v = 1 + h /\ depth c1 + h <= max_container_depth cfg /\
        reg_val v (mk, fw) = Some (mk', fw') /\ Reg c2 mk' fw'.
End Parse.

(* ------------------------------------------------------------------------- *)
(* The parse lemmas                                                           *)
(* ------------------------------------------------------------------------- *)
Section ParseProofs.
  Variable cfg : rcfg.
  Notation Alpha es := (Forall (fun e => alpha e = true) es).

  Lemma tail_eq {A} (a b : list A) e r : a ++ b ++ e :: r = (a ++ b ++ [e]) ++ r.
  Proof. rewrite <- !app_assoc. reflexivity. Qed.
  Lemma tail_steps {A} (a b : list A) e : a ++ b ++ [e] = (a ++ b) ++ [e].
  Proof. rewrite <- !app_assoc. reflexivity. Qed.

  Lemma end_count_ok c c1 o :
    rstep cfg c EEnd = Some (c1, o) -> closable (e_rule (cur c)) = true ->
    match e_expected (cur c) with Some x => e_count (cur c) = x | None => True end.
  Proof.
    intros H Cl. apply rstep_inv in H as [pl [P [_ Hc]]]. cbn [ev_plan] in P. unfold mkplan in P. inv_some.
    cbn [p_nno p_meth p_args] in Hc. rewrite (end_cells _ Cl) in Hc. cbn [exec_prims exec_prim] in Hc. unfold end_container in Hc.
    destruct (depth c =? 0); [discriminate|].
    destruct (match e_expected (cur c) with Some x => negb (e_count (cur c) =? x) | None => false end) eqn:X; [discriminate|].
    destruct (e_expected (cur c)); [apply negb_false_iff in X; lia | exact I].
  Qed.

  Lemma suffix_facts (a rest es : list event) n c c1 :
    es = a ++ rest -> (length es <= n)%nat -> Alpha es -> NKM cfg c es -> steps cfg c a = Some c1 ->
    (length rest <= n)%nat /\ Alpha rest /\ NKM cfg c1 rest.
  Proof.
    intros -> L A K S. split; [rewrite app_length in L; lia|]. split; [apply Forall_app in A; tauto|].
    exact (NKM_app cfg c a rest c1 K S).
  Qed.

  Lemma head_ok_inner c es : closable (e_rule (cur c)) = false -> stack c <> [] -> head_ok c es.
  Proof. intros NC NS. destruct es; [exact I|]. cbn [head_ok]. split; [rewrite NC; discriminate | intro X; contradiction]. Qed.

  Lemma begins_dt rts e rc dt exp :
    begins cfg rts e rc dt exp -> (dt =? DT_RecordType) = false /\ N.land dt Allow_Any <> 0.
  Proof.
    destruct any_dtypes as [A1 [A2 [A3 [A4 _]]]].
    intros [[m B] | [rid [k [-> [_ [_ [-> [-> ->]]]]]]]]; [|split; [reflexivity | exact A4]].
    destruct e; try discriminate B; cbn [begin_spec] in B; inv_some; (split; [reflexivity | assumption]).
  Qed.

  (* the end event of a container whose begin event was accepted in state [c] *)
  Lemma close_inv c c2 rest cf mk fw :
    is_value_rule (e_rule (cur c)) = true -> stack c2 = bump (cur c) :: stack c -> depth c2 = depth c + 1 ->
    rectypes c2 = rectypes c -> Reg c2 mk fw -> closable (e_rule (cur c2)) = true -> (e_dtype (cur c2) =? DT_RecordType) = false ->
    steps cfg c2 (EEnd :: rest) = Some cf ->
    exists c3, steps cfg c2 [EEnd] = Some c3 /\ Done c c3 /\ steps cfg c3 rest = Some cf /\ Reg c3 mk fw.
  Proof.
    intros V S D Rt Rg Cl T H. apply steps_cons_inv in H as [c3 [o [R S3]]].
    destruct (inv_end cfg c2 c3 o (bump (cur c)) (stack c) R Cl S V T) as [X [D0 V3]].
    apply view_core in V3 as [V3 G3]. unfold core in V3. inversion V3 as [[E1 E2 E3 E4 E5]].
    exists c3. split; [cbn [steps]; rewrite R; reflexivity|]. split; [|split; [exact S3 | exact (Reg_regs _ _ _ _ G3 Rg)]].
    unfold Done. rewrite E1, E2, E3, E5. repeat split; try assumption. lia.
  Qed.

  Lemma PB_of n : PV cfg n -> PI cfg n -> PE cfg n -> PB cfg n.
  Proof.
    intros HV HI HE e rc dt exp es c1 cf mk fw L S T A K Bg E1 NS Dp Rg.
    destruct Bg as [[m B] | [rid [k [-> [Vi [Al [-> [-> ->]]]]]]]].
    - destruct e; try discriminate B; cbn [begin_spec] in B; inv_some.
      + (* list *)
        destruct (HI es c1 cf mk fw L S T A K) as [items [close [rest [c2 [mk' [fw' [E [W [S2 [U1 [U2 [U3 [U5 [U6 [U7 [U8 [S3 [Hh [Rl Rg2]]]]]]]]]]]]]]]]]]];
          [rewrite E1; left; reflexivity | exact NS | exact Dp | exact Rg |].
        exists (VList items close), (flat_map flatten items ++ map trivia_event close), rest, c2, mk', fw', (list_max (map height items)).
        cbn [flatten wf_val height top_ok markable].
        split; [rewrite E, <- app_assoc; reflexivity|]. split; [rewrite <- app_assoc; reflexivity|].
        split; [intros _; rewrite E1 in W; exact W|]. split; [reflexivity|]. split; [reflexivity|]. split; [exact S2|].
        split; [exact U1|]. split; [exact U2|]. split; [exact U3|]. split; [rewrite U5, E1; reflexivity|].
        split; [rewrite U6, E1; reflexivity|]. split; [exact S3|]. split; [reflexivity|]. split; [exact Hh|].
        split; [rewrite reg_val_list; exact Rl | exact Rg2].
      + (* map *)
        destruct (HE es c1 cf mk fw L S T A K) as [entries [close [rest [c2 [mk' [fw' [E [W [Dk [Fr [S2 [U1 [U2 [U3 [U5 [U6 [U7 [S3 [Hh [Rl Rg2]]]]]]]]]]]]]]]]]]]];
          [rewrite E1; reflexivity | rewrite E1; reflexivity | exact NS | exact Dp | exact Rg |].
        exists (VMap entries close), (flat_map entry_events entries ++ map trivia_event close), rest, c2, mk', fw',
          (list_max (map (fun en : list trivia * event * val => let '(_, _, v) := en in height v) entries)).
        cbn [flatten wf_val height top_ok markable].
        change (flat_map (fun en : list trivia * event * val => let '(tv, k, v) := en in map trivia_event tv ++ k :: flatten v) entries)
          with (flat_map entry_events entries).
        split; [rewrite E, <- app_assoc; reflexivity|]. split; [rewrite <- app_assoc; reflexivity|].
        split; [intros _; rewrite W, Dk; reflexivity|]. split; [reflexivity|]. split; [reflexivity|]. split; [exact S2|].
        split; [exact U1|]. split; [exact U2|]. split; [exact U3|]. split; [rewrite U5; reflexivity|].
        split; [rewrite U6, E1; reflexivity|]. split; [exact S3|]. split; [reflexivity|]. split; [exact Hh|].
        split; [rewrite reg_val_map; exact Rl | exact Rg2].
      + (* edge *)
        destruct (HV es c1 cf mk fw L S T A K) as [s [rest1 [c2 [mk1 [fw1 [F1 [W1 [S1 [D1 [S1' [Hh1 [Rl1 [Rg1 _]]]]]]]]]]]]];
          [rewrite E1; reflexivity | apply head_ok_inner; [rewrite E1; reflexivity | exact NS] | exact Dp | exact Rg |].
        destruct D1 as [D11 [D12 [D13 D14]]].
        destruct (suffix_facts _ _ _ _ _ _ F1 L A K S1) as [L1 [A1 K1]].
        destruct (HV rest1 c2 cf mk1 fw1 L1 S1' T A1 K1) as [d [rest2 [c3 [mk2 [fw2 [F2 [W2 [S2 [D2 [S2' [Hh2 [Rl2 [Rg2 _]]]]]]]]]]]]];
          [rewrite D11, E1; reflexivity | apply head_ok_inner; [rewrite D11, E1; reflexivity | rewrite D12; exact NS]
           | rewrite D13; exact Dp | exact Rg1 |].
        destruct D2 as [D21 [D22 [D23 D24]]].
        destruct (suffix_facts _ _ _ _ _ _ F2 L1 A1 K1 S2) as [L2 [A2 K2]].
        destruct (HI rest2 c3 cf mk2 fw2 L2 S2' T A2 K2) as [items [close [rest [c4 [mk' [fw' [E [W [S3 [U1 [U2 [U3 [U5 [U6 [U7 [U8 [S4 [Hh [Rl Rg4]]]]]]]]]]]]]]]]]]];
          [rewrite D21, D11, E1; right; right; reflexivity | rewrite D22, D12; exact NS | rewrite D23, D13; exact Dp | exact Rg2 |].
        pose proof S4 as S4'. apply steps_cons_inv in S4' as [c5 [o5 [R5 _]]].
        assert (closable (e_rule (cur c4)) = true) as Cl4 by (rewrite U5, D21, D11, E1; reflexivity).
        pose proof (end_count_ok _ _ _ R5 Cl4) as X. rewrite U7, U8, D21, D11, E1 in X.
        assert (2 + N.of_nat (length items) = 3) as X' by exact X. clear X.
        destruct items as [|t [|t2 items]]; cbn [length] in X'; try lia. clear X'.
        cbn [flat_map forallb map list_max fold_right reg_list] in *. rewrite app_nil_r in *. rewrite andb_true_r in W.
        exists (VEdge s d t close), (flatten s ++ flatten d ++ flatten t ++ map trivia_event close), rest, c4, mk', fw',
          (N.max (height s) (N.max (height d) (height t))).
        cbn [flatten wf_val height top_ok markable].
        split; [rewrite F1, F2, E, <- !app_assoc; reflexivity|]. split; [rewrite <- !app_assoc; reflexivity|].
        split.
        { intros _. rewrite E1 in W1. cbn [mk_entry e_rule pos_of_rule] in W1. rewrite D11, E1 in W2. cbn in W2.
          rewrite D21, D11, E1 in W. cbn in W. rewrite D24, D14 in W. rewrite D14 in W2. rewrite W1, W2, W. reflexivity. }
        split; [reflexivity|]. split; [reflexivity|].
        split; [rewrite steps_app, S1, steps_app, S2; exact S3|].
        split; [congruence|]. split; [congruence|]. split; [congruence|]. split; [exact Cl4|].
        split; [rewrite U6, D21, D11, E1; reflexivity|]. split; [exact S4|]. split; [reflexivity|].
        split; [rewrite D23, D13 in Hh; rewrite D13 in Hh2; clear - Hh Hh1 Hh2; lia|].
        split; [|exact Rg4]. cbn [reg_val]. rewrite Rl1, Rl2. destruct (reg_val t (mk2, fw2)) as [s3|]; [exact Rl | discriminate Rl].
      + (* node *)
        destruct (HV es c1 cf mk fw L S T A K) as [v0 [rest1 [c2 [mk1 [fw1 [F1 [W1 [S1 [D1 [S1' [Hh1 [Rl1 [Rg1 _]]]]]]]]]]]]];
          [rewrite E1; reflexivity | apply head_ok_inner; [rewrite E1; reflexivity | exact NS] | exact Dp | exact Rg |].
        destruct D1 as [D11 [D12 [D13 D14]]].
        destruct (suffix_facts _ _ _ _ _ _ F1 L A K S1) as [L1 [A1 K1]].
        destruct (HI rest1 c2 cf mk1 fw1 L1 S1' T A1 K1) as [items [close [rest [c4 [mk' [fw' [E [W [S3 [U1 [U2 [U3 [U5 [U6 [U7 [U8 [S4 [Hh [Rl Rg4]]]]]]]]]]]]]]]]]]];
          [rewrite D11, E1; left; reflexivity | rewrite D12; exact NS | rewrite D13; exact Dp | exact Rg1 |].
        exists (VNode v0 items close), (flatten v0 ++ flat_map flatten items ++ map trivia_event close), rest, c4, mk', fw',
          (N.max (height v0) (list_max (map height items))).
        cbn [flatten wf_val height top_ok markable].
        split; [rewrite F1, E, <- !app_assoc; reflexivity|]. split; [rewrite <- !app_assoc; reflexivity|].
        split.
        { intros _. rewrite E1 in W1. cbn [mk_entry e_rule pos_of_rule] in W1. rewrite D11, E1 in W. cbn in W. rewrite D14 in W.
          rewrite W1, W. reflexivity. }
        split; [reflexivity|]. split; [reflexivity|].
        split; [rewrite steps_app, S1; exact S3|].
        split; [congruence|]. split; [congruence|]. split; [congruence|]. split; [rewrite U5, D11, E1; reflexivity|].
        split; [rewrite U6, D11, E1; reflexivity|]. split; [exact S4|]. split; [reflexivity|].
        split; [rewrite D13 in Hh; clear - Hh Hh1; lia|].
        split; [rewrite reg_val_node, Rl1; exact Rl | exact Rg4].
    - (* record *)
      destruct (HI es c1 cf mk fw L S T A K) as [items [close [rest [c2 [mk' [fw' [E [W [S2 [U1 [U2 [U3 [U5 [U6 [U7 [U8 [S3 [Hh [Rl Rg2]]]]]]]]]]]]]]]]]]];
        [rewrite E1; right; left; reflexivity | exact NS | exact Dp | exact Rg |].
      pose proof S3 as S3'. apply steps_cons_inv in S3' as [c5 [o5 [R5 _]]].
      assert (closable (e_rule (cur c2)) = true) as Cl2 by (rewrite U5, E1; reflexivity).
      pose proof (end_count_ok _ _ _ R5 Cl2) as X. rewrite U7, U8, E1 in X.
      assert (0 + N.of_nat (length items) = k) as X' by exact X. clear X.
      exists (VRecord rid items close), (flat_map flatten items ++ map trivia_event close), rest, c2, mk', fw', (list_max (map height items)).
      cbn [flatten wf_val height top_ok markable].
      split; [rewrite E, <- app_assoc; reflexivity|]. split; [rewrite <- app_assoc; reflexivity|].
      split.
      { intros _. rewrite E1 in W. cbn [mk_entry e_rule pos_of_rule] in W. rewrite Vi, Al.
        assert (N.of_nat (length items) =? k = true) as -> by (apply N.eqb_eq; lia). cbn [andb]. exact W. }
      split; [reflexivity|]. split; [reflexivity|]. split; [exact S2|].
      split; [exact U1|]. split; [exact U2|]. split; [exact U3|]. split; [exact Cl2|].
      split; [rewrite U6, E1; reflexivity|]. split; [exact S3|]. split; [reflexivity|]. split; [exact Hh|].
      split; [rewrite reg_val_record; exact Rl | exact Rg2].
  Qed.


  Lemma is_marker_entry_bump e id : is_marker_entry e id -> is_marker_entry (bump e) id.
  Proof. intros [H1 [H2 H3]]. repeat split; assumption. Qed.

  Lemma PV_step n : PV cfg n -> PB cfg n -> PM cfg n -> PV cfg (S n).
  Proof.
    intros HV HB HM es c cf mk fw L S T A K V Hd Dp Rg.
    destruct es as [|e es'].
    { cbn in S. inv_some. rewrite T in V. discriminate V. }
    pose proof (NKM_head _ _ _ _ K) as Kh.
    apply steps_cons_inv in S as [c1 [o [R S']]].
    pose proof (Forall_inv A) as Ae. pose proof (Forall_inv_tail A) as Aes. pose proof (NKM_cons _ _ _ _ _ _ K R) as K'.
    cbn [length] in L. assert (length es' <= n)%nat as L' by lia.
    pose proof (rstep_depth_bound _ _ _ _ _ R Dp) as Dp1.
    destruct (inv_value cfg c e c1 o R V Ae)
      as [t E1 E2 | Lf W Vw | m rc dt exp B Vw | rid k E1 Vi Al Vw | E1 Cl | id E1 St | id E1 Vi ME S1 D1 O1 R1 G1 Mi | id E1 Vi NTp Rm O | t dt AB CT AD G Rm O Ec1].
    - (* trivia *)
      subst e c1. cbn [head_ok] in Hd. destruct Hd as [Hd1 Hd2].
      assert (closable (e_rule (cur c)) = false) as NC.
      { destruct (closable (e_rule (cur c))); [|reflexivity]. destruct (Hd1 eq_refl) as [_ X]. rewrite trivia_is_trivia in X. discriminate X. }
      assert (stack c <> []) as NS.
      { intro X. destruct (Hd2 X) as [Y _]. rewrite trivia_is_trivia in Y. discriminate Y. }
      destruct (HV es' c cf mk fw L' S' T Aes K' V) as [v [rest [c2 [mk' [fw' [E [W [S2 [D2 [S3 [Hh [Rl [Rg2 Tk]]]]]]]]]]]]]; [apply head_ok_inner; assumption | exact Dp | exact Rg |].
      exists (VT t v), rest, c2, mk', fw'. cbn [flatten wf_val height top_ok reg_val]. split; [rewrite E; reflexivity|]. split; [exact W|].
      split; [cbn [steps]; rewrite R; exact S2|]. split; [exact D2|]. split; [exact S3|]. split; [exact Hh|]. split; [exact Rl|].
      split; [exact Rg2 | exact Tk].
    - (* a value in one event *)
      apply view_core in Vw as [Vw Gw]. unfold core in Vw. inversion Vw as [[E1 E2 E3 E4 E5]].
      exists (VLeaf e), es', c1, mk, fw. cbn [flatten wf_val height top_ok app reg_val]. split; [reflexivity|]. split; [exact W|].
      split; [cbn [steps]; rewrite R; reflexivity|]. split; [unfold Done; auto|]. split; [exact S'|]. split; [lia|]. split; [reflexivity|].
      split; [exact (Reg_regs _ _ _ _ Gw Rg) | reflexivity].
    - (* a container *)
      apply view_core in Vw as [Vw Gw]. unfold core in Vw. inversion Vw as [[E1 E2 E3 E4 E5]].
      assert (begins cfg (rectypes c1) e rc dt exp) as Bg by (left; exists m; exact B).
      destruct (begins_dt _ _ _ _ _ Bg) as [Dn1 Dn2].
      destruct (HB e rc dt exp es' c1 cf mk fw L' S' T Aes K' Bg E1) as [v [body [rest [c2 [mk' [fw' [h [E [Fv [W [Mkb [Tk [S2 [U1 [U2 [U3 [Cl2 [Dt2 [S3 [Hv [Hh [Rl Rg2]]]]]]]]]]]]]]]]]]]]]];
        [rewrite E2; discriminate | exact Dp1 | exact (Reg_regs _ _ _ _ Gw Rg) |].
      destruct (close_inv c c2 rest cf mk' fw' V) as [c3 [S4 [D3 [S5 Rg3]]]]; try congruence.
      exists v, rest, c3, mk', fw'.
      split; [rewrite Fv, E; cbn [app]; f_equal; rewrite <- app_assoc; reflexivity|].
      split; [first [apply W | rewrite <- E5; apply W | rewrite E5; apply W]|].
      split; [rewrite Fv; cbn [steps]; rewrite R, steps_app, S2; exact S4|]. split; [exact D3|]. split; [exact S5|].
      split; [rewrite Hv; rewrite E3 in Hh; clear - Hh; lia|]. split; [exact Rl|]. split; [exact Rg3 | intros _; exact Tk].
    - (* a record *)
      subst e. apply view_core in Vw as [Vw Gw]. unfold core in Vw. inversion Vw as [[E1 E2 E3 E4 E5]].
      assert (begins cfg (rectypes c1) (ERecord rid) RRecord DT_Record (Some k)) as Bg.
      { right. exists rid, k. rewrite E5. repeat split; assumption. }
      destruct (begins_dt _ _ _ _ _ Bg) as [Dn1 Dn2].
      destruct (HB _ _ _ _ es' c1 cf mk fw L' S' T Aes K' Bg E1) as [v [body [rest [c2 [mk' [fw' [h [E [Fv [W [Mkb [Tk [S2 [U1 [U2 [U3 [Cl2 [Dt2 [S3 [Hv [Hh [Rl Rg2]]]]]]]]]]]]]]]]]]]]]];
        [rewrite E2; discriminate | exact Dp1 | exact (Reg_regs _ _ _ _ Gw Rg) |].
      destruct (close_inv c c2 rest cf mk' fw' V) as [c3 [S4 [D3 [S5 Rg3]]]]; try congruence.
      exists v, rest, c3, mk', fw'.
      split; [rewrite Fv, E; cbn [app]; f_equal; rewrite <- app_assoc; reflexivity|].
      split; [first [apply W | rewrite <- E5; apply W | rewrite E5; apply W]|].
      split; [rewrite Fv; cbn [steps]; rewrite R, steps_app, S2; exact S4|]. split; [exact D3|]. split; [exact S5|].
      split; [rewrite Hv; rewrite E3 in Hh; clear - Hh; lia|]. split; [exact Rl|]. split; [exact Rg3 | intros _; exact Tk].
    - (* the end of a container: excluded by the head condition *)
      subst e. cbn [head_ok] in Hd. destruct Hd as [Hd1 _]. destruct (Hd1 Cl) as [X _]. discriminate X.
    - (* a record type: excluded by the head condition *)
      subst e. cbn [head_ok] in Hd. destruct Hd as [_ Hd2]. destruct (Hd2 St) as [_ X]. discriminate X.
    - (* a marker *)
      subst e.
      destruct (HM es' c1 cf id (bump (cur c)) (stack c) mk fw L' S' T Aes K' ME S1 V Mi) as [pads [v [rest [c2 [mk' [fw' [E [Mkb [W [S2 [F1 [F2 [F3 [F4 [S3 [Hh [Rl [Nm Rg2]]]]]]]]]]]]]]]]]];
        [rewrite D1; exact Dp | exact (Reg_regs _ _ _ _ G1 Rg) |].
      exists (VMarked id pads v), rest, c2, (id :: mk'), (id_remove id fw'). cbn [flatten wf_val height top_ok reg_val].
      split; [rewrite E; cbn [app]; rewrite <- app_assoc; reflexivity|].
      split; [rewrite Vi, Mkb; rewrite R1 in W; exact W|].
      split; [cbn [steps]; rewrite R; exact S2|].
      split; [unfold Done; rewrite F1, F2, F3, F4, D1, R1; repeat split; reflexivity|]. split; [exact S3|].
      split; [rewrite D1 in Hh; exact Hh|]. split; [rewrite Rl, Nm; reflexivity|]. split; [exact Rg2 | reflexivity].
    - (* a reference *)
      subst e.
      destruct (step_ref cfg c id _ mk fw eq_refl V NTp Vi Rm O Rg) as [c' [S1 [F1 [F2 [F3 [F4 [F5 [F6 F7]]]]]]]].
      rewrite <- (rstep_det _ _ _ _ _ _ _ R S1) in *.
      exists (VRef id), es', c1, mk, (if id_mem id mk || id_mem id fw then fw else id :: fw).
      cbn [flatten wf_val height top_ok app reg_val]. split; [reflexivity|]. split; [exact Vi|].
      split; [cbn [steps]; rewrite R; reflexivity|]. split; [unfold Done; auto|]. split; [exact S'|]. split; [lia|].
      split; [destruct (id_mem id mk || id_mem id fw); reflexivity|]. split; [exact F7 | intro X; contradiction].
    - (* an array delivered in chunks *)
      subst c1.
      destruct (array_parse cfg t _ (length es') es' _ cf 0 (le_n _) S' T (abegin_AS t dt _)) as [chs [rest [E [W Lr]]]].
      assert (chunked_ok cfg (pos_of_rule (e_rule (cur c))) e chs = true) as CK by (unfold chunked_ok; rewrite CT, AD, G, W; reflexivity).
      destruct (chunked_steps cfg c e chs V CK Rm O) as [c' [Sc [Vc Gc]]].
      assert (steps cfg c' rest = Some cf) as Sr.
      { assert (steps cfg c ((e :: flat_map chunk_events chs) ++ rest) = Some cf) as X
          by (cbn [app steps]; rewrite R, <- E; exact S').
        rewrite steps_app, Sc in X. exact X. }
      unfold core in Vc. inversion Vc as [[E1 E2 E3 E4 E5]].
      exists (VChunked e chs), rest, c', mk, fw. cbn [flatten wf_val height top_ok reg_val].
      split; [rewrite E; reflexivity|]. split; [exact CK|]. split; [exact Sc|]. split; [unfold Done; auto|]. split; [exact Sr|].
      split; [lia|]. split; [reflexivity|]. split; [exact (Reg_regs _ _ _ _ Gc Rg) | reflexivity].
  Qed.


  Lemma PM_step n : PM cfg n -> PB cfg n -> PM cfg (S n).
  Proof.
    intros HM HB es c cf id p st mk fw L S T A K ME St V Mi Dp Rg.
    destruct es as [|e es'].
    { cbn in S. inv_some. destruct ME as [M1 _]. rewrite M1 in T. discriminate T. }
    apply steps_cons_inv in S as [c1 [o [R S']]].
    pose proof (Forall_inv A) as Ae. pose proof (Forall_inv_tail A) as Aes. pose proof (NKM_cons _ _ _ _ _ _ K R) as K'.
    cbn [length] in L. assert (length es' <= n)%nat as L' by lia.
    pose proof (rstep_depth_bound _ _ _ _ _ R Dp) as Dp1.
    destruct (inv_marked cfg c e c1 o id p st mk fw R ME St V Mi Rg Ae)
      as [E1 E2 | Lf W Mk Nm F1 F2 F3 F4 Rg1 | m rc dt exp B Vw | rid k E1 Vi Al Vw | t dt AB CT AD AM G O Ec1].
    - (* padding *)
      subst e c1.
      destruct (HM es' c cf id p st mk fw L' S' T Aes K' ME St V Mi Dp Rg) as [pads [v [rest [c2 [mk' [fw' [E [Mkb [W [S2 [F1 [F2 [F3 [F4 [S3 [Hh [Rl [Nm Rg2]]]]]]]]]]]]]]]]]].
      exists (S pads), v, rest, c2, mk', fw'. cbn [repeat app]. split; [rewrite E; reflexivity|]. split; [exact Mkb|]. split; [exact W|].
      split; [cbn [steps]; rewrite R; exact S2|]. do 4 (split; [assumption|]). split; [exact S3|]. split; [exact Hh|].
      split; [exact Rl|]. split; [exact Nm | exact Rg2].
    - (* a value in one event *)
      exists 0%nat, (VLeaf e), es', c1, mk, fw. cbn [repeat app flatten height reg_val].
      split; [reflexivity|]. split; [exact Mk|]. split; [exact W|]. split; [cbn [steps]; rewrite R; reflexivity|].
      do 4 (split; [assumption|]). split; [exact S'|]. split; [lia|]. split; [reflexivity|]. split; [exact Nm | exact Rg1].
    - (* a container *)
      apply view_core in Vw as [Vw Gw]. unfold core in Vw. inversion Vw as [[E1 E2 E3 E4 E5]].
      assert (begins cfg (rectypes c1) e rc dt exp) as Bg by (left; exists m; exact B).
      destruct (begins_dt _ _ _ _ _ Bg) as [Dn1 Dn2].
      destruct (HB e rc dt exp es' c1 cf mk fw L' S' T Aes K' Bg E1) as [v [body [rest [c2 [mk' [fw' [h [E [Fv [W [Mkb [Tk [S2 [U1 [U2 [U3 [Cl2 [Dt2 [S3 [Hv [Hh [Rl Rg2]]]]]]]]]]]]]]]]]]]]]];
        [rewrite E2; discriminate | exact Dp1 | exact (Reg_regs _ _ _ _ Gw Rg) |].
      apply steps_cons_inv in S3 as [c3 [o3 [R3 S5]]].
      destruct (inv_end_marked cfg c2 c3 o3 (bump (cur c)) id p st mk' fw' R3 Cl2) as [X [D0 [Nm [G1 [G2 [G3 [G4 G5]]]]]]];
        [rewrite U1, E2, St; reflexivity | apply is_marker_entry_bump; exact ME | exact V | rewrite Dt2; exact Dn1 | rewrite Dt2; exact Dn2 | exact Rg2 |].
      exists 0%nat, v, rest, c3, mk', fw'. cbn [repeat app].
      split; [rewrite Fv, E; cbn [app]; f_equal; rewrite <- app_assoc; reflexivity|]. split; [exact Mkb|].
      split; [first [apply W | rewrite <- E5; apply W | rewrite E5; apply W]|].
      split; [rewrite Fv; cbn [steps]; rewrite R, steps_app, S2; cbn [steps]; rewrite R3; reflexivity|].
      split; [exact G1|]. split; [exact G2|]. split; [rewrite G3, U2, E3; clear; lia|]. split; [congruence|]. split; [exact S5|].
      split; [rewrite Hv; rewrite E3 in Hh; clear - Hh; lia|]. split; [exact Rl|]. split; [exact Nm | exact G5].
    - (* a record *)
      subst e. apply view_core in Vw as [Vw Gw]. unfold core in Vw. inversion Vw as [[E1 E2 E3 E4 E5]].
      assert (begins cfg (rectypes c1) (ERecord rid) RRecord DT_Record (Some k)) as Bg.
      { right. exists rid, k. rewrite E5. repeat split; assumption. }
      destruct (begins_dt _ _ _ _ _ Bg) as [Dn1 Dn2].
      destruct (HB _ _ _ _ es' c1 cf mk fw L' S' T Aes K' Bg E1) as [v [body [rest [c2 [mk' [fw' [h [E [Fv [W [Mkb [Tk [S2 [U1 [U2 [U3 [Cl2 [Dt2 [S3 [Hv [Hh [Rl Rg2]]]]]]]]]]]]]]]]]]]]]];
        [rewrite E2; discriminate | exact Dp1 | exact (Reg_regs _ _ _ _ Gw Rg) |].
      apply steps_cons_inv in S3 as [c3 [o3 [R3 S5]]].
      destruct (inv_end_marked cfg c2 c3 o3 (bump (cur c)) id p st mk' fw' R3 Cl2) as [X [D0 [Nm [G1 [G2 [G3 [G4 G5]]]]]]];
        [rewrite U1, E2, St; reflexivity | apply is_marker_entry_bump; exact ME | exact V | rewrite Dt2; exact Dn1 | rewrite Dt2; exact Dn2 | exact Rg2 |].
      exists 0%nat, v, rest, c3, mk', fw'. cbn [repeat app].
      split; [rewrite Fv, E; cbn [app]; f_equal; rewrite <- app_assoc; reflexivity|]. split; [exact Mkb|].
      split; [first [apply W | rewrite <- E5; apply W | rewrite E5; apply W]|].
      split; [rewrite Fv; cbn [steps]; rewrite R, steps_app, S2; cbn [steps]; rewrite R3; reflexivity|].
      split; [exact G1|]. split; [exact G2|]. split; [rewrite G3, U2, E3; clear; lia|]. split; [congruence|]. split; [exact S5|].
      split; [rewrite Hv; rewrite E3 in Hh; clear - Hh; lia|]. split; [exact Rl|]. split; [exact Nm | exact G5].
    - (* an array delivered in chunks *)
      subst c1.
      destruct (array_parse cfg t _ (length es') es' _ cf 0 (le_n _) S' T (abegin_AS t dt _)) as [chs [rest [E [W Lr]]]].
      assert (chunked_ok cfg (pos_of_rule (e_rule p)) e chs = true) as CK by (unfold chunked_ok; rewrite CT, AD, G, W; reflexivity).
      assert (markable (VChunked e chs) = true) as Mkb by (cbn [markable]; rewrite CT; exact AM).
      assert (id_mem id mk = false /\ refcount c + 1 <= max_local_reference_count cfg) as [Nm Rc].
      { pose proof S' as X. rewrite E in X.
        destruct (array_run cfg t _ chs _ 0 rest (abegin_AS t dt (nno_state c)) W) as [cA [F Eq]]. rewrite Eq in X.
        destruct (end_container_like (call_rule 5 cfg) true cA) as [cz|] eqn:EL; [|discriminate X].
        destruct F as [F1 [F2 [F3 [F4 [F5 F6]]]]].
        destruct (abegin_state_fields t dt (nno_state c)) as [Q0 [Q1 [Q2 [Q3 [Q4 Q5]]]]].
        rewrite (end_like_marked cfg cA (bump (cur c)) id p st) in EL by
          (first [rewrite F1, Q0; change (stack (nno_state c)) with (stack c); rewrite St; reflexivity | exact V
                 | apply is_marker_entry_bump; exact ME]).
        match type of EL with context [mark_object cfg ?d ?c3] => destruct (mark_object cfg d c3) as [c4|] eqn:MO; [|discriminate EL];
          apply (mark_object_inv _ _ _ _ mk fw) in MO end.
        - cbn [marker_id set_markers refcount] in MO. assert (regs cA = regs c) as RG by (rewrite F5, Q4; reflexivity).
          unfold regs in RG. injection RG as RG1 RG2 RG3. rewrite RG3 in MO. exact MO.
        - assert (regs cA = regs c) as RG by (rewrite F5, Q4; reflexivity). unfold regs in RG. injection RG as RG1 RG2 RG3.
          unfold Reg. cbn [marked fwd set_markers]. rewrite RG1, RG2. exact Rg. }
      destruct (chunked_steps_marked cfg c e chs id p st mk fw ME St V CK Mkb O Rg Nm Rc) as [c' [Sc [Vc [Rg' Rc']]]].
      assert (steps cfg c' rest = Some cf) as Sr.
      { assert (steps cfg c ((e :: flat_map chunk_events chs) ++ rest) = Some cf) as X
          by (cbn [app steps]; rewrite R, <- E; exact S').
        rewrite steps_app, Sc in X. exact X. }
      unfold core in Vc. inversion Vc as [[E1 E2 E3 E4 E5]].
      exists 0%nat, (VChunked e chs), rest, c', mk, fw. cbn [repeat app flatten height reg_val wf_val].
      split; [rewrite E; reflexivity|]. split; [exact Mkb|]. split; [exact CK|]. split; [exact Sc|].
      do 4 (split; [first [assumption | reflexivity | congruence]|]). split; [exact Sr|]. split; [lia|]. split; [reflexivity|]. split; [exact Nm | exact Rg'].
  Qed.


  Lemma item_rule_facts r : item_rule r -> is_value_rule r = true /\ closable r = true /\ next_rule r = r /\ r <> RTerminal.
  Proof. intros [->| [->| ->]]; repeat split; discriminate. Qed.

  Lemma PI_step n : PV cfg (S n) -> PI cfg n -> PI cfg (S n).
  Proof.
    intros HV HI es c cf mk fw L S T A K IR NS Dp Rg.
    destruct (item_rule_facts _ IR) as [V [Cl [NR NT]]].
    destruct es as [|e es'].
    { cbn in S. inv_some. contradiction. }
    destruct (is_end e) eqn:IE.
    { (* the container ends *)
      apply is_end_spec in IE. subst e. exists [], [], es', c, mk, fw. cbn [flat_map map app forallb length list_max fold_right N.of_nat reg_list].
      split; [reflexivity|]. split; [reflexivity|]. split; [reflexivity|].
      do 6 (split; [reflexivity|]). split; [lia|]. split; [exact S|]. split; [lia|]. split; [reflexivity | exact Rg]. }
    destruct (is_trivia e) eqn:IT.
    { (* trivia: before the next item, or before the end *)
      apply is_trivia_spec in IT as [t ->].
      assert (rstep cfg c (trivia_event t) = Some (c, [trivia_event t])) as R by (apply step_trivia, value_rule_trivia, V).
      pose proof (NKM_cons _ _ _ _ _ _ K R) as K'. cbn [steps] in S. rewrite R in S.
      pose proof (Forall_inv_tail A) as Aes. cbn [length] in L. assert (length es' <= n)%nat as L' by lia.
      destruct (HI es' c cf mk fw L' S T Aes K' IR NS Dp Rg) as [items [close [rest [c2 [mk' [fw' [E [W [S2 [U1 [U2 [U3 [U5 [U6 [U7 [U8 [S3 [Hh [Rl Rg2]]]]]]]]]]]]]]]]]]].
      destruct items as [|v items].
      - exists [], (t :: close), rest, c2, mk', fw'. cbn [flat_map map app forallb length list_max fold_right N.of_nat] in *.
        split; [rewrite E; reflexivity|]. split; [reflexivity|]. split; [cbn [steps]; rewrite R; exact S2|].
        do 6 (split; [assumption|]). split; [exact U8|]. split; [exact S3|]. split; [lia|]. split; [exact Rl | exact Rg2].
      - exists (VT t v :: items), close, rest, c2, mk', fw'.
        cbn [flat_map map app forallb length list_max fold_right N.of_nat flatten wf_val height reg_list reg_val] in *.
        split; [rewrite E; reflexivity|]. split; [exact W|]. split; [cbn [steps]; rewrite R; exact S2|].
        do 6 (split; [assumption|]). split; [exact U8|]. split; [exact S3|]. split; [exact Hh|]. split; [exact Rl | exact Rg2]. }
    (* an item *)
    assert (head_ok c (e :: es')) as Hd.
    { cbn [head_ok]. split; [intros _; split; assumption | intro X; contradiction]. }
    destruct (HV (e :: es') c cf mk fw L S T A K V Hd Dp Rg) as [v [rest1 [c1 [mk1 [fw1 [F1 [W1 [S1 [D1 [S1' [Hh1 [Rl1 [Rg1 Tk1]]]]]]]]]]]]].
    destruct D1 as [D11 [D12 [D13 D14]]].
    assert (length rest1 <= n)%nat as L1.
    { apply (f_equal (@length event)) in F1. rewrite app_length in F1. pose proof (flatten_length v). cbn [length] in *. lia. }
    assert (Alpha rest1) as A1 by (rewrite F1 in A; apply Forall_app in A; tauto).
    assert (NKM cfg c1 rest1) as K1 by (rewrite F1 in K; exact (NKM_app _ _ _ _ _ K S1)).
    assert (e_rule (cur c1) = e_rule (cur c)) as R1 by (rewrite D11; unfold adv_entry, with_rule; cbn [e_rule]; exact NR).
    destruct (HI rest1 c1 cf mk1 fw1 L1 S1' T A1 K1) as [items [close [rest [c2 [mk' [fw' [E [W [S2 [U1 [U2 [U3 [U5 [U6 [U7 [U8 [S3 [Hh [Rl Rg2]]]]]]]]]]]]]]]]]]];
      [rewrite R1; exact IR | rewrite D12; exact NS | rewrite D13; exact Dp | exact Rg1 |].
    exists (v :: items), close, rest, c2, mk', fw'. cbn [flat_map map forallb length list_max fold_right reg_list].
    split; [rewrite F1, E, <- app_assoc; reflexivity|].
    split; [rewrite W1; rewrite R1, D14 in W; exact W|].
    split; [rewrite <- app_assoc, steps_app, S1; exact S2|].
    split; [congruence|]. split; [congruence|]. split; [congruence|]. split; [congruence|].
    split; [rewrite U6, D11; reflexivity|]. split; [rewrite U7, D11; reflexivity|].
    split; [rewrite U8, D11; unfold adv_entry, with_rule, bump; cbn [e_count]; lia|].
    split; [exact S3|]. split; [|split; [rewrite Rl1; exact Rl | exact Rg2]].
    rewrite D13 in Hh. unfold list_max in Hh. clear - Hh Hh1. lia.
  Qed.

  Lemma fresh_head (l : list (option nkey)) nk :
    (forall nk', In (Some nk') l -> nkey_eqb nk' nk = false) ->
    existsb (fun x => match x with Some k' => nkey_eqb nk k' | None => false end) l = false.
  Proof.
    induction l as [|x l IH]; intro H; [reflexivity|]. cbn [existsb]. rewrite IH by (intros; apply H; right; assumption).
    destruct x as [k'|]; [|reflexivity]. rewrite nkey_eqb_sym, H by (left; reflexivity). reflexivity.
  Qed.

  Lemma PE_step n : PV cfg n -> PE cfg n -> PE cfg (S n).
  Proof.
    intros HV HE es c cf mk fw L S T A K RK X NS Dp Rg.
    destruct es as [|e es'].
    { cbn in S. inv_some. rewrite RK in T. discriminate T. }
    pose proof (NKM_head _ _ _ _ K) as Kh.
    pose proof S as S0. apply steps_cons_inv in S as [c1 [o [R S']]].
    pose proof (Forall_inv A) as Ae. pose proof (Forall_inv_tail A) as Aes. pose proof (NKM_cons _ _ _ _ _ _ K R) as K'.
    cbn [length] in L. assert (length es' <= n)%nat as L' by lia.
    destruct key_cells as [KM _].
    destruct (inv_key cfg c e c1 o RMapKey (Some RMapValue) R RK (or_introl eq_refl) KM Ae)
      as [t E1 E2 | k KO KF Fr Vw | E1 | id E1 _ | id E1 _ | AB].
    - (* trivia *)
      subst e c1.
      destruct (HE es' c cf mk fw L' S' T Aes K' RK X NS Dp Rg) as [entries [close [rest [c2 [mk' [fw' [E [W [Dk [Fr [S2 [U1 [U2 [U3 [U5 [U6 [U7 [S3 [Hh [Rl Rg2]]]]]]]]]]]]]]]]]]]].
      destruct entries as [|[[tv k] v] entries].
      + exists [], (t :: close), rest, c2, mk', fw'. cbn [flat_map map app forallb length list_max fold_right nkeys_distinct] in *.
        split; [rewrite E; reflexivity|]. split; [reflexivity|]. split; [reflexivity|].
        split; [intros ? ? ? ? []|]. split; [cbn [steps]; rewrite R; exact S2|].
        do 6 (split; [assumption|]). split; [exact S3|]. split; [lia|]. split; [exact Rl | exact Rg2].
      + exists ((t :: tv, k, v) :: entries), close, rest, c2, mk', fw'.
        cbn [flat_map map app forallb length list_max fold_right nkeys_distinct entry_events] in *.
        split; [rewrite E; reflexivity|]. split; [exact W|]. split; [exact Dk|].
        split. { intros tv0 k0 v0 nk0 [I0|I0] NK0; [injection I0 as <- <- <-; eapply Fr; [left; reflexivity | exact NK0] | eapply Fr; [right; exact I0 | exact NK0]]. }
        split; [cbn [steps]; rewrite R; exact S2|].
        do 6 (split; [assumption|]). split; [exact S3|]. split; [exact Hh|]. split; [exact Rl | exact Rg2].
    - (* a key, then its value *)
      apply view_core in Vw as [Vw Gw]. unfold core in Vw. inversion Vw as [[E1 E2 E3 E4 E5]].
      assert (nkey_of e = Some (norm_key k)) as NK by (unfold nkey_of; rewrite KF; reflexivity).
      assert (depth c1 <= max_container_depth cfg) as Dp1 by (rewrite E3; exact Dp).
      destruct (HV es' c1 cf mk fw L' S' T Aes K') as [v [rest1 [c2 [mk1 [fw1 [F1 [W1 [S1 [D1 [S1' [Hh1 [Rl1 [Rg1 _]]]]]]]]]]]]];
        [rewrite E1; reflexivity | apply head_ok_inner; [rewrite E1; reflexivity | rewrite E2; exact NS] | exact Dp1
         | exact (Reg_regs _ _ _ _ Gw Rg) |].
      destruct D1 as [D11 [D12 [D13 D14]]].
      destruct (suffix_facts _ _ _ _ _ _ F1 L' Aes K' S1) as [L1 [A1 K1]].
      destruct (HE rest1 c2 cf mk1 fw1 L1 S1' T A1 K1) as [entries [close [rest [c3 [mk' [fw' [E [W [Dk [Fr' [S2 [U1 [U2 [U3 [U5 [U6 [U7 [S3 [Hh [Rl Rg3]]]]]]]]]]]]]]]]]]]];
        [rewrite D11, E1; reflexivity | rewrite D11, E1; cbn; exact X | rewrite D12, E2; exact NS | rewrite D13; exact Dp1 | exact Rg1 |].
      exists (([], e, v) :: entries), close, rest, c3, mk', fw'.
      cbn [flat_map map app forallb length list_max fold_right nkeys_distinct entry_events].
      split; [rewrite F1, E, <- app_assoc; reflexivity|].
      split. { rewrite KO. rewrite E1 in W1. cbn [keyed e_rule pos_of_rule] in W1. rewrite D14 in W. rewrite ?E5 in *. rewrite W1, W. reflexivity. }
      split.
      { rewrite NK, Dk, andb_true_r. apply negb_true_iff. apply fresh_head. intros nk' I'.
        apply in_map_iff in I' as [[[tv0 k0] v0] [NK' I']].
        pose proof (Fr' tv0 k0 v0 nk' I' NK') as F. rewrite D11, E1 in F. cbn [adv_entry with_rule bump keyed e_keys existsb] in F.
        apply orb_false_iff in F as [F _]. exact F. }
      split.
      { intros tv0 k0 v0 nk0 [I0|I0] NK0.
        - injection I0 as <- <- <-. rewrite NK in NK0. injection NK0 as <-. exact Fr.
        - pose proof (Fr' tv0 k0 v0 nk0 I0 NK0) as F. rewrite D11, E1 in F. cbn [adv_entry with_rule bump keyed e_keys existsb] in F.
          apply orb_false_iff in F as [_ F]. exact F. }
      split; [cbn [steps]; rewrite R, <- app_assoc, steps_app, S1; exact S2|].
      split; [congruence|]. split; [congruence|]. split; [congruence|]. split; [exact U5|].
      split; [rewrite U6, D11, E1; reflexivity|]. split; [exact U7|]. split; [exact S3|].
      split; [|split; [unfold reg_entries in *; cbn [map snd reg_list]; rewrite Rl1; exact Rl | exact Rg3]].
      rewrite D13, E3 in Hh. rewrite E3 in Hh1. rewrite ?E3. unfold list_max in Hh. clear - Hh Hh1. lia.
    - (* the end *)
      subst e. exists [], [], es', c, mk, fw. cbn [flat_map map app forallb length list_max fold_right nkeys_distinct].
      split; [reflexivity|]. split; [reflexivity|]. split; [reflexivity|]. split; [intros ? ? ? ? []|]. split; [reflexivity|].
      do 3 (split; [reflexivity|]). split; [exact RK|]. split; [reflexivity|]. split; [exact X|]. split; [exact S0|]. split; [lia|].
      split; [reflexivity | exact Rg].
    - (* a marker where a key is expected: excluded *)
      subst e. exfalso. destruct (Kh eq_refl) as [Xk _]. exact (Xk RK).
    - subst e. exfalso. destruct (Kh eq_refl) as [Xk _]. exact (Xk RK).
    - (* an array delivered in chunks where a key is expected: excluded *)
      exfalso. assert (not_a_plain_key e = true) as Xk by (unfold not_a_plain_key; rewrite AB; apply orb_true_r).
      destruct (Kh Xk) as [Yk _]. exact (Yk RK).
  Qed.

  Theorem parse_all n : PV cfg n /\ PI cfg n /\ PE cfg n /\ PM cfg n.
  Proof.
    induction n as [|n [HV [HI [HE HM]]]].
    - split; [|split; [|split]].
      + intros es c cf mk fw L S T A K V Hd Dp Rg. destruct es; [|cbn in L; lia]. cbn in S. inv_some. rewrite T in V. discriminate V.
      + intros es c cf mk fw L S T A K IR NS Dp Rg. destruct es; [|cbn in L; lia]. cbn in S. inv_some.
        destruct (item_rule_facts _ IR) as [_ [_ [_ X]]]. contradiction.
      + intros es c cf mk fw L S T A K RK X NS Dp Rg. destruct es; [|cbn in L; lia]. cbn in S. inv_some. rewrite RK in T. discriminate T.
      + intros es c cf id p st mk fw L S T A K ME St V Mi Dp Rg. destruct es; [|cbn in L; lia]. cbn in S. inv_some.
        destruct ME as [M1 _]. rewrite M1 in T. discriminate T.
    - pose proof (PB_of n HV HI HE) as HB. pose proof (PV_step n HV HB HM) as HV'.
      split; [exact HV'|]. split; [apply PI_step; assumption|]. split; [apply PE_step; assumption | apply PM_step; assumption].
  Qed.

End ParseProofs.

(* ------------------------------------------------------------------------- *)
(* The document level                                                         *)
(* ------------------------------------------------------------------------- *)
Section Top.
  Variable cfg : rcfg.

  (* a record type begins *)
  Lemma inv_rectype c id c1 o :
    rstep cfg c (ERecordType id) = Some (c1, o) -> e_rule (cur c) = RTopLevel ->
    validate_identifier cfg id = true /\ stack c = [] /\ depth c + 1 <= max_container_depth cfg /\
    cur c1 = mk_entry RRecordType DT_RecordType None /\ stack c1 = [cur c] /\ depth c1 = depth c + 1 /\
    rectypes c1 = rectypes c /\ regs c1 = regs c /\ rectype_name c1 = id.
  Proof.
    intros H R. apply rstep_inv in H as [pl [P [_ Hc]]]. cbn [ev_plan] in P.
    destruct (validate_identifier cfg id) eqn:Vi; [|discriminate]. unfold mkplan in P. inv_some. cbn [p_nno p_meth p_args] in Hc.
    destruct Hc as [c0 [N Hc]]. unfold notify_new_object in N.
    assert (match e_expected (cur c) with Some x => false && (x <? e_count (cur c)) | None => false end = false) as Z
      by (destruct (e_expected (cur c)); reflexivity).
    cbv zeta in N. rewrite Z in N. destruct (max_object_count cfg <? objects c + 1); [discriminate|]. inv_some.
    destruct frame_cells as [_ [C2 _]].
    match type of Hc with call_current _ _ _ ?c0 = _ => rewrite (call_current_cell cfg _ _ c0 RTopLevel) in Hc by (rsimpl; exact R) end.
    rewrite C2 in Hc. cbn [exec_prims exec_prim] in Hc. rsimpl.
    destruct (stack c) eqn:St; [|discriminate Hc]. unfold begin_container in Hc. rsimpl.
    destruct (max_container_depth cfg <? depth c + 1) eqn:X; [discriminate|]. inv_some. rsimpl. cbn [with_id a_id].
    rewrite St. repeat split; try reflexivity; try lia. destruct (cur c); reflexivity.
  Qed.

  (* a record type ends *)
  Lemma inv_rectype_end c c1 o p :
    rstep cfg c EEnd = Some (c1, o) -> e_rule (cur c) = RRecordType -> e_dtype (cur c) = DT_RecordType -> e_expected (cur c) = None ->
    stack c = [p] ->
    alookup (rectype_name c) (rectypes c) = None /\ cur c1 = p /\ stack c1 = [] /\ depth c1 = depth c - 1 /\
    rectypes c1 = aset (rectype_name c) (e_count (cur c)) (rectypes c) /\ regs c1 = regs c.
  Proof.
    intros H R D X St. apply rstep_inv in H as [pl [P [_ Hc]]]. cbn [ev_plan] in P. unfold mkplan in P. inv_some.
    cbn [p_nno p_meth p_args] in Hc. destruct frame_cells as [C1 _]. rewrite R, C1 in Hc. cbn [exec_prims exec_prim] in Hc.
    unfold end_container in Hc. destruct (depth c =? 0); [discriminate|]. rewrite X, D, N.eqb_refl in Hc.
    destruct (alookup (rectype_name c) (rectypes c)) eqn:A; [discriminate|].
    unfold end_container_like, unstack_rule in Hc. rsimpl. rewrite St in Hc. inv_some. rsimpl. repeat split; reflexivity.
  Qed.

  (* the fields of a record type *)
  Definition PF (n : nat) : Prop :=
    forall es c cf, (length es <= n)%nat -> steps cfg c es = Some cf -> e_rule (cur cf) = RTerminal ->
      Forall (fun e => alpha e = true) es -> NKM cfg c es -> e_rule (cur c) = RRecordType -> e_expected (cur c) = None ->
      exists fields close rest c2,
        es = flat_map field_events fields ++ map trivia_event close ++ EEnd :: rest /\
        forallb (fun f => key_ok cfg (snd f)) fields = true /\
        nkeys_distinct (map (fun f => nkey_of (snd f)) fields) = true /\
        (forall f nk, In f fields -> nkey_of (snd f) = Some nk -> existsb (nkey_eqb nk) (e_keys (cur c)) = false) /\
        steps cfg c (flat_map field_events fields ++ map trivia_event close) = Some c2 /\
        stack c2 = stack c /\ depth c2 = depth c /\ rectypes c2 = rectypes c /\ regs c2 = regs c /\ rectype_name c2 = rectype_name c /\
        e_rule (cur c2) = RRecordType /\ e_dtype (cur c2) = e_dtype (cur c) /\ e_expected (cur c2) = None /\
        e_count (cur c2) = e_count (cur c) + N.of_nat (length fields) /\
        steps cfg c2 (EEnd :: rest) = Some cf.

  Lemma fields_parse n : PF n.
  Proof.
    induction n as [|n IH]; intros es c cf L S T A K RK X.
    { destruct es; [|cbn in L; lia]. cbn in S. inv_some. rewrite RK in T. discriminate T. }
    destruct es as [|e es'].
    { cbn in S. inv_some. rewrite RK in T. discriminate T. }
    pose proof (NKM_head _ _ _ _ K) as Kh.
    pose proof S as S0. apply steps_cons_inv in S as [c1 [o [R S']]]. pose proof (NKM_cons _ _ _ _ _ _ K R) as K'.
    inversion A as [|? ? Ae Aes]; subst. cbn [length] in L. assert (length es' <= n)%nat as L' by lia.
    destruct key_cells as [_ KM].
    destruct (inv_key cfg c e c1 o RRecordType None R RK (or_intror eq_refl) KM Ae)
      as [t E1 E2 | k KO KF Fr Vw | E1 | id E1 RM | id E1 RM | AB].
    - (* trivia *)
      subst e c1.
      destruct (IH es' c cf L' S' T Aes K' RK X) as [fields [close [rest [c2 [E [W [Dk [Fr [S2 [U1 [U2 [U3 [U4 [U5 [U6 [U7 [U8 [U9 S3]]]]]]]]]]]]]]]]]].
      destruct fields as [|[tv k] fields].
      + exists [], (t :: close), rest, c2. cbn [flat_map map app forallb length nkeys_distinct] in *.
        split; [rewrite E; reflexivity|]. split; [reflexivity|]. split; [reflexivity|].
        split; [intros ? ? []|]. split; [cbn [steps]; rewrite R; exact S2|].
        do 8 (split; [assumption|]). split; [exact U9 | exact S3].
      + exists ((t :: tv, k) :: fields), close, rest, c2.
        cbn [flat_map map app forallb length nkeys_distinct field_events fst snd] in *.
        split; [rewrite E; reflexivity|]. split; [exact W|]. split; [exact Dk|].
        split. { intros f0 nk0 [I0|I0] NK0; [subst f0; apply (Fr (tv, k)); [left; reflexivity | exact NK0] | apply (Fr f0); [right; exact I0 | exact NK0]]. }
        split; [cbn [steps]; rewrite R; exact S2|].
        do 8 (split; [assumption|]). split; [exact U9 | exact S3].
    - (* a field name *)
      apply view_core in Vw as [Vw Gw]. unfold core in Vw. inversion Vw as [[E1 E2 E3 E4 E5]].
      assert (nkey_of e = Some (norm_key k)) as NK by (unfold nkey_of; rewrite KF; reflexivity).
      pose proof (rstep_rectype_name _ _ _ _ _ R (key_not_rectype _ _ KF)) as RN.
      destruct (IH es' c1 cf L' S' T Aes K') as [fields [close [rest [c2 [E [W [Dk [Fr' [S2 [U1 [U2 [U3 [U4 [U5 [U6 [U7 [U8 [U9 S3]]]]]]]]]]]]]]]]]];
        [rewrite E1; cbn; exact RK | rewrite E1; cbn; exact X |].
      exists (([], e) :: fields), close, rest, c2.
      cbn [flat_map map app forallb length nkeys_distinct field_events fst snd].
      split; [rewrite E; reflexivity|].
      split; [rewrite KO, W; reflexivity|].
      split.
      { rewrite NK, Dk, andb_true_r. apply negb_true_iff. apply fresh_head. intros nk' I'.
        apply in_map_iff in I' as [f0 [NK' I']].
        pose proof (Fr' f0 nk' I' NK') as F. rewrite E1 in F. cbn [keyed e_keys existsb] in F.
        apply orb_false_iff in F as [F _]. exact F. }
      split.
      { intros f0 nk0 [I0|I0] NK0.
        - subst f0. cbn [snd] in NK0. rewrite NK in NK0. injection NK0 as <-. exact Fr.
        - pose proof (Fr' f0 nk0 I0 NK0) as F. rewrite E1 in F. cbn [keyed e_keys existsb] in F.
          apply orb_false_iff in F as [_ F]. exact F. }
      split; [cbn [steps]; rewrite R; exact S2|].
      split; [congruence|]. split; [congruence|]. split; [congruence|]. split; [congruence|]. split; [congruence|]. split; [exact U6|].
      split; [rewrite U7, E1; reflexivity|]. split; [exact U8|]. split; [|exact S3].
      rewrite U9, E1. cbn [keyed e_count]. lia.
    - (* the end *)
      subst e. exists [], [], es', c. cbn [flat_map map app forallb length nkeys_distinct].
      split; [reflexivity|]. split; [reflexivity|]. split; [reflexivity|]. split; [intros ? ? []|]. split; [reflexivity|].
      do 5 (split; [reflexivity|]). split; [exact RK|]. split; [reflexivity|]. split; [exact X|]. split; [lia | exact S0].
    - rewrite RK in RM. discriminate RM.
    - rewrite RK in RM. discriminate RM.
    - (* an array delivered in chunks as a field name: excluded *)
      exfalso. assert (not_a_plain_key e = true) as Xk by (unfold not_a_plain_key; rewrite AB; apply orb_true_r).
      destruct (Kh Xk) as [_ Yk]. exact (Yk RK).
  Qed.


  (* record types and trivia before the top-level value *)
  Definition PP (n : nat) : Prop :=
    forall es c cf rts, (length es <= n)%nat -> steps cfg c es = Some cf -> e_rule (cur cf) = RTerminal ->
      Forall (fun e => alpha e = true) es -> NKM cfg c es -> TopS c rts (objects c) ->
      exists pre rest c1 rts', es = flat_map flatten_top pre ++ rest /\ declare cfg rts pre = Some rts' /\
        steps cfg c (flat_map flatten_top pre) = Some c1 /\ TopS c1 rts' (objects c1) /\ steps cfg c1 rest = Some cf /\
        head_ok c1 rest /\ (has_rectype pre = true -> 1 <= max_container_depth cfg).



  Lemma pre_parse n : PP n.
  Proof.
    induction n as [|n IH]; intros es c cf rts L S T A K Tp.
    { destruct es; [|cbn in L; lia]. cbn in S. inv_some. destruct Tp as [T1 _]. rewrite T1 in T. discriminate T. }
    destruct es as [|e es'].
    { cbn in S. inv_some. destruct Tp as [T1 _]. rewrite T1 in T. discriminate T. }
    pose proof Tp as [T1 [T2 [T3 [T4 [T5 [T6 [T7 _]]]]]]].
    pose proof (Forall_inv A) as Ae. pose proof (Forall_inv_tail A) as Aes. cbn [length] in L. assert (length es' <= n)%nat as L' by lia.
    destruct (is_trivia e) eqn:IT.
    { apply is_trivia_spec in IT as [t ->].
      assert (rstep cfg c (trivia_event t) = Some (c, [trivia_event t])) as R by (apply step_trivia; rewrite T1; reflexivity).
      cbn [steps] in S. rewrite R in S. pose proof (NKM_cons _ _ _ _ _ _ K R) as K'.
      destruct (IH es' c cf _ L' S T Aes K' Tp) as [pre [rest [c1 [rts' [E [Dc [S1 [Tp1 [S2 [Hd Hr]]]]]]]]]].
      exists (TopTrivia t :: pre), rest, c1, rts'. cbn [flat_map flatten_top app declare].
      split; [rewrite E; reflexivity|]. split; [exact Dc|]. split; [cbn [steps]; rewrite R; exact S1|].
      split; [exact Tp1|]. split; [exact S2|]. split; [exact Hd | exact Hr]. }
    destruct (is_rectype e) eqn:IR.
    { apply is_rectype_spec in IR as [id ->].
      apply steps_cons_inv in S as [c1 [o [R S']]].
      destruct (inv_rectype c id c1 o R T1) as [Vi [_ [Dp [E1 [E2 [E3 [E4 [E5 E6]]]]]]]].
      pose proof (NKM_cons _ _ _ _ _ _ K R) as K'.
      destruct (fields_parse _ es' c1 cf L' S' T Aes K') as [fields [close [rest [c2 [E [W [Dk [Fr [S2 [U1 [U2 [U3 [U4 [U5 [U6 [U7 [U8 [U9 S3]]]]]]]]]]]]]]]]]];
        [rewrite E1; reflexivity | rewrite E1; reflexivity |].
      apply steps_cons_inv in S3 as [c3 [o3 [R3 S3]]].
      destruct (inv_rectype_end c2 c3 o3 (cur c) R3 U6) as [Al [F1 [F2 [F3 [F4 F5]]]]];
        [rewrite U7, E1; reflexivity | exact U8 | rewrite U1, E2; reflexivity |].
      rewrite U5, E6, U3, E4, T7 in Al. rewrite U5, E6, U3, E4, T7, U9, E1 in F4. cbn [mk_entry e_count] in F4.
      replace (0 + N.of_nat (length fields)) with (N.of_nat (length fields)) in F4 by lia.
      assert (TopS c3 (aset id (N.of_nat (length fields)) rts) (objects c3)) as Tp3.
      { unfold TopS. rewrite F1, F2, F3, U2, E3, T5, F5, U4, E5, T6. repeat split; try assumption; reflexivity. }
      assert (length rest <= n)%nat as L3.
      { apply (f_equal (@length event)) in E. rewrite !app_length in E. cbn [length] in E. lia. }
      assert (Forall (fun e => alpha e = true) rest) as A3.
      { rewrite E in Aes. apply Forall_app in Aes as [_ Aes]. apply Forall_app in Aes as [_ Aes]. inversion Aes; assumption. }
      assert (NKM cfg c3 rest) as K3.
      { rewrite E, app_assoc in K'. pose proof (NKM_app _ _ _ _ _ K' S2) as K2. exact (NKM_cons _ _ _ _ _ _ K2 R3). }
      destruct (IH rest c3 cf _ L3 S3 T A3 K3 Tp3) as [pre [rest' [c4 [rts' [E' [Dc [S4 [Tp4 [S5 [Hd Hr]]]]]]]]]].
      exists (TopRecType id fields close :: pre), rest', c4, rts'. cbn [flat_map flatten_top declare].
      change (fun f : list trivia * event => map trivia_event (fst f) ++ [snd f]) with field_events.
      split; [rewrite E, E'; cbn [app]; f_equal; rewrite <- !app_assoc; reflexivity|].
      split; [rewrite Vi, W, Dk, Al; exact Dc|].
      split.
      { cbn [app steps]. rewrite R. rewrite <- !app_assoc. rewrite app_assoc, steps_app, S2. cbn [app steps]. rewrite R3. exact S4. }
      split; [exact Tp4|]. split; [exact S5|]. split; [exact Hd|]. intros _. rewrite T5 in Dp. exact Dp. }
    exists [], (e :: es'), c, rts. cbn [flat_map app declare steps].
    split; [reflexivity|]. split; [reflexivity|]. split; [reflexivity|]. split; [exact Tp|]. split; [exact S|].
    split; [|discriminate]. cbn [head_ok]. rewrite T1. split; [discriminate | intros _; split; assumption].
  Qed.

  (* the end of the document *)
  Lemma inv_enddoc c e c1 o :
    rstep cfg c e = Some (c1, o) -> e_rule (cur c) = REndDocument -> e = EEndDoc /\ e_rule (cur c1) = RTerminal /\ fwd c = [].
  Proof.
    intros H R. pose proof H as H0. rewrite rstep_plan in H. destruct (ev_plan cfg e) as [pl|] eqn:P; [|discriminate].
    destruct (plan_step cfg pl c) as [c2|] eqn:St; [|discriminate].
    destruct frame_table as [_ [_ [_ [_ [_ Tb]]]]].
    assert (e = EEndDoc) as X by (apply (proj1 (proj2 (ev_plan_frame _ _ _ P))); eapply only_meth_spec; eauto).
    split; [exact X|]. subst e. clear H P St.
    apply rstep_inv in H0 as [pl' [P' [_ Hc]]]. cbn [ev_plan] in P'. unfold mkplan in P'. inv_some. cbn [p_nno p_meth p_args] in Hc.
    destruct frame_cells as [_ [_ [_ [_ C]]]]. rewrite R, C in Hc. cbn [exec_prims exec_prim] in Hc.
    destruct (fwd c); [|discriminate]. inv_some. split; reflexivity.
  Qed.

  (* C10, soundness: an accepted complete document over the grammar's alphabet, with no marker and no reference
     where a map key is expected, is the flattening of a well-formed tree *)
  Theorem accepted_is_wf_gen es :
    Forall (fun e => alpha e = true) es -> NKM cfg init_rctx es -> accepts_document cfg es = true ->
    exists d, wf_doc cfg d = true /\ flatten_doc cfg d = es /\ doc_height d <= max_container_depth cfg.
  Proof.
    intros A K H. destruct (document_frame _ _ H) as [body E]. apply accepts_document_steps in H as [cf [S T]]. subst es.
    destruct frame_cells as [_ [_ [C1 [C2 C3]]]].
    assert (exists c0, steps cfg init_rctx [EBeginDoc; EVersion (expected_version cfg)] = Some c0 /\ TopS c0 [] (objects c0)) as [c0 [S0 T0]].
    { cbn [steps]. rewrite rstep_plan. cbn [ev_plan]. unfold mkplan, plan_step. cbn [p_nno p_meth p_args p_out].
      rewrite (call_current_cell cfg _ _ init_rctx RBeginDocument eq_refl), C1. cbn [exec_prims exec_prim].
      rewrite rstep_plan. cbn [ev_plan]. unfold mkplan, plan_step. cbn [p_nno p_meth p_args p_out].
      match goal with |- context [call_current cfg ?m ?a ?c0] => rewrite (call_current_cell cfg m a c0 RVersion eq_refl) end.
      rewrite C2. cbn [exec_prims exec_prim a_version]. rewrite N.eqb_refl.
      eexists. split; [reflexivity|]. unfold TopS. cbn. repeat split. }
    change (EBeginDoc :: EVersion (expected_version cfg) :: body ++ [EEndDoc])
      with ([EBeginDoc; EVersion (expected_version cfg)] ++ (body ++ [EEndDoc])) in S, K.
    pose proof (NKM_app _ _ _ _ _ K S0) as K0.
    rewrite steps_app, S0 in S.
    assert (Forall (fun e => alpha e = true) (body ++ [EEndDoc])) as A1 by (inversion A as [|? ? _ A']; inversion A'; assumption).
    destruct (pre_parse _ (body ++ [EEndDoc]) c0 cf [] (le_n _) S T A1 K0 T0) as [pre [rest [c1 [rts [E [Dc [S1 [Tp1 [S2 [Hd Hr]]]]]]]]]].
    pose proof Tp1 as [T1 [T2 [T3 [T4 [T5 [T6 [T7 _]]]]]]].
    assert (Forall (fun e => alpha e = true) rest) as A2 by (rewrite E in A1; apply Forall_app in A1; tauto).
    assert (NKM cfg c1 rest) as K1 by (rewrite E in K0; exact (NKM_app _ _ _ _ _ K0 S1)).
    assert (Reg c1 [] []) as Rg1.
    { unfold regs in T6. inversion T6 as [[T61 T62 T63]]. unfold Reg, RegL. rewrite T62, T61. cbn. repeat split; try tauto; intros; discriminate. }
    destruct (parse_all cfg (length rest)) as [HV _].
    destruct (HV rest c1 cf [] [] (le_n _) S2 T A2 K1) as [v [rest' [c2 [mk' [fw' [E' [W [S3 [D3 [S4 [Hh [Rl [Rg2 Tk]]]]]]]]]]]]];
      [rewrite T1; reflexivity | exact Hd | rewrite T5; lia | exact Rg1 |].
    destruct D3 as [D31 [D32 [D33 D34]]].
    assert (e_rule (cur c2) = REndDocument) as R2 by (rewrite D31; unfold adv_entry, with_rule; cbn [e_rule]; rewrite T1; reflexivity).
    assert (rest' = [EEndDoc] /\ fwd c2 = []) as [-> F2].
    { destruct rest' as [|e r]; [cbn in S4; inv_some; rewrite R2 in T; discriminate T|].
      apply steps_cons_inv in S4 as [c3 [o [R S4]]]. destruct (inv_enddoc _ _ _ _ R R2) as [-> [T3' F]].
      destruct r as [|e2 r]; [split; [reflexivity | exact F]|]. cbn [steps] in S4. rewrite rstep_terminal in S4 by exact T3'. discriminate S4. }
    assert (fw' = []) as ->.
    { destruct Rg2 as [_ [Q2 _]]. destruct fw' as [|x l]; [reflexivity|]. exfalso. rewrite F2 in Q2. apply (Q2 x). left. reflexivity. }
    exists {| d_pre := pre; d_top := v |}. unfold wf_doc, flatten_doc, doc_height. cbn [d_pre d_top].
    split.
    { rewrite Dc. rewrite T1, T7 in W. cbn [pos_of_rule] in W. rewrite W, (Tk T1), Rl. reflexivity. }
    split; [rewrite <- E', <- E; reflexivity|].
    fold (has_rectype pre). rewrite T5 in Hh. destruct (has_rectype pre); [specialize (Hr eq_refl)|]; lia.
  Qed.

End Top.

Lemma NKM_init cfg es : plain_keys_only cfg es -> NKM cfg init_rctx es.
Proof.
  intros H p e r c' E S M. destruct (H p e r E M) as [H1 H2]. unfold rule_in_force in H1, H2.
  rewrite (proj2 (state_after_steps cfg p c') S) in H1, H2. split; intro X; [apply H1 | apply H2]; rewrite X; reflexivity.
Qed.

Lemma all_alpha es : Forall (fun e => alpha e = true) es.
Proof. induction es; constructor; [reflexivity | assumption]. Qed.

(* the side condition, decided along the run *)
Lemma plain_keys_from_sound cfg es : forall c pre,
  steps cfg init_rctx pre = Some c -> plain_keys_from cfg c es = true ->
  forall p e tl, es = p ++ e :: tl -> not_a_plain_key e = true ->
    rule_in_force cfg (pre ++ p) <> Some RMapKey /\ rule_in_force cfg (pre ++ p) <> Some RRecordType.
Proof.
  induction es as [|x es IH]; intros c pre S H p e tl E M.
  - destruct p; discriminate.
  - cbn [plain_keys_from] in H. apply andb_true_iff in H as [H1 H2]. destruct p as [|y p]; cbn [app] in E; injection E as -> E.
    + rewrite app_nil_r. unfold rule_in_force. rewrite (proj2 (state_after_steps cfg pre c) S). rewrite M in H1.
      split; intro X; injection X as X; rewrite X in H1; discriminate H1.
    + destruct (rstep cfg c y) as [[c1 o]|] eqn:R.
      * replace (pre ++ y :: p) with ((pre ++ [y]) ++ p) by (rewrite <- app_assoc; reflexivity).
        assert (steps cfg init_rctx (pre ++ [y]) = Some c1) as S1 by (rewrite steps_app, S; cbn [steps]; rewrite R; reflexivity).
        exact (IH c1 (pre ++ [y]) S1 H2 p e tl E M).
      * unfold rule_in_force. destruct (state_after cfg (pre ++ y :: p)) as [c2|] eqn:SA; [|split; discriminate]. exfalso.
        apply state_after_steps in SA. rewrite steps_app, S in SA. cbn [steps] in SA. rewrite R in SA. discriminate.
Qed.
Lemma plain_keys_onlyb_sound cfg es : plain_keys_onlyb cfg es = true -> plain_keys_only cfg es.
Proof. intros H p e tl E M. exact (plain_keys_from_sound cfg es init_rctx [] eq_refl H p e tl E M). Qed.

Theorem accepted_is_wf_grammar cfg es :
  plain_keys_only cfg es -> accepts_document cfg es = true ->
  exists d, wf_doc cfg d = true /\ flatten_doc cfg d = es /\ doc_height d <= max_container_depth cfg.
Proof. intros K A. apply accepted_is_wf_gen; [apply all_alpha | apply NKM_init; exact K | exact A]. Qed.

(* C10: an event list whose keys are plain is accepted as a complete document exactly when it is the flattening of
   a well-formed document tree within the object, depth and marker limits. *)
Theorem grammar_exact cfg es :
  plain_keys_only cfg es ->
  (accepts_document cfg es = true <->
   exists d, wf_doc cfg d = true /\ flatten_doc cfg d = es /\
             object_usage es <= max_object_count cfg /\ doc_height d <= max_container_depth cfg /\
             marker_usage es <= max_local_reference_count cfg).
Proof.
  intros K. split.
  - intro A. destruct (accepted_is_wf_grammar cfg es K A) as [d [W [E D]]].
    destruct (limits_necessary_document _ _ A) as [[O [_ [_ [_ M]]]] _].
    exists d. repeat split; assumption.
  - intros [d [W [E [O [D M]]]]]. subst es. apply wf_doc_accepted; assumption.
Qed.

(* without markers, references and arrays in chunks no side condition is left *)
Lemma fragment_grammar cfg es : in_fragment es = true -> plain_keys_only cfg es.
Proof.
  unfold in_fragment. rewrite forallb_forall. intros F p e tl E M. exfalso.
  assert (In e es) as I by (rewrite E; apply in_or_app; right; left; reflexivity).
  specialize (F e I). unfold plain_event in F. rewrite M in F. discriminate F.
Qed.

Theorem fragment_exact cfg es :
  in_fragment es = true ->
  (accepts_document cfg es = true <->
   exists d, wf_doc cfg d = true /\ flatten_doc cfg d = es /\
             object_usage es <= max_object_count cfg /\ doc_height d <= max_container_depth cfg /\
             marker_usage es <= max_local_reference_count cfg).
Proof. intro F. exact (grammar_exact cfg es (fragment_grammar cfg es F)). Qed.
