From CE Require Import Model.Api.
Open Scope N_scope.

Lemma decoder_table_spec_sweep :
  forallb (fun b => fmt_eqb (table_lookup decoder_table b) (detect_spec b)) (nseq 0 256) = true.
Proof. vm_compute. reflexivity. Qed.

Lemma unmarshaler_table_spec_sweep :
  forallb (fun b => fmt_eqb (table_lookup unmarshaler_table b) (detect_spec b)) (nseq 0 256) = true.
Proof. vm_compute. reflexivity. Qed.

Lemma fmt_eqb_eq a b : fmt_eqb a b = true -> a = b.
Proof. destruct a, b; simpl; congruence. Qed.

Lemma table_spec tbl :
  forallb (fun b => fmt_eqb (table_lookup tbl b) (detect_spec b)) (nseq 0 256) = true ->
  forall b, b < 256 -> table_lookup tbl b = detect_spec b.
Proof.
  intros H b Hb. rewrite forallb_forall in H. apply fmt_eqb_eq, H, nseq_In. simpl. lia.
Qed.

Lemma decoder_table_spec b : b < 256 -> table_lookup decoder_table b = detect_spec b.
Proof. apply table_spec, decoder_table_spec_sweep. Qed.

Lemma unmarshaler_table_spec b : b < 256 -> table_lookup unmarshaler_table b = detect_spec b.
Proof. apply table_spec, unmarshaler_table_spec_sweep. Qed.

Section Dispatch.
  Context {R : Type}.
  Variables (cte_entry cbe_entry : bytes -> outcome R).

  Lemma universal_decode_eq_specific (on_empty : outcome R) b rest :
    b < 256 ->
    universal cte_entry cbe_entry decoder_table on_empty (b :: rest)
    = specific cte_entry cbe_entry (detect_spec b) (b :: rest).
  Proof. intro Hb. simpl. rewrite decoder_table_spec by exact Hb. reflexivity. Qed.

  Lemma universal_unmarshal_eq_specific (on_empty : outcome R) b rest :
    b < 256 ->
    universal cte_entry cbe_entry unmarshaler_table on_empty (b :: rest)
    = specific cte_entry cbe_entry (detect_spec b) (b :: rest).
  Proof. intro Hb. simpl. rewrite unmarshaler_table_spec by exact Hb. reflexivity. Qed.
End Dispatch.

Lemma ce_version_zero : ce_version = 0.
Proof. reflexivity. Qed.

Lemma version_accepted_iff f v :
  f <> FNone -> (version_accepted f v = true <-> v = 0 \/ v = 1).
Proof.
  intro Hf. unfold version_accepted, rules_version_ok, cbe_version_map, cte_version_map.
  rewrite ce_version_zero.
  destruct f; try congruence; destruct (N.eqb_spec v 1) as [E1|E1];
    rewrite N.eqb_eq; lia.
Qed.

Lemma written_version_zero : written_version = 0.
Proof. reflexivity. Qed.
