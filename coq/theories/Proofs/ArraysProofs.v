(* Lemmas about Model/Arrays.v: the typed-array byte helpers are exact
   little-endian inverses (for all lengths and element patterns), what happens
   to trailing bytes, the float16 and UUID variants, which path the dispatch of
   arrays_impurego.go takes, and how the iterator's / builders' own loops relate
   to the helpers. *)
From CE Require Import Model.Arrays.
From Coq Require Import ZifyN ZifyNat ZifyBool Wf_nat.
Open Scope N_scope.

(* ------------------------------------------------------------------ *)
(* List facts                                                           *)
(* ------------------------------------------------------------------ *)

Lemma firstn_app_exact {A} (c r : list A) n : length c = n -> firstn n (c ++ r) = c.
Proof.
  intro H. subst n. rewrite firstn_app, Nat.sub_diag, firstn_all, firstn_O, app_nil_r. reflexivity.
Qed.

Lemma skipn_app_exact {A} (c r : list A) n : length c = n -> skipn n (c ++ r) = r.
Proof.
  intro H. subst n. rewrite skipn_app, Nat.sub_diag, skipn_all, skipn_O. reflexivity.
Qed.

Lemma nth_firstn_lt {A} (l : list A) i n d : (i < n)%nat -> nth i (firstn n l) d = nth i l d.
Proof.
  revert i n; induction l as [|x l IH]; intros i n Hi.
  - rewrite firstn_nil. reflexivity.
  - destruct n as [|n]; [lia|]. destruct i as [|i]; cbn [firstn nth]; [reflexivity|].
    apply IH. lia.
Qed.

Lemma split_chunk (w : nat) (b : bytes) :
  (w <= length b)%nat -> exists c r, b = c ++ r /\ length c = w.
Proof.
  intro H. exists (firstn w b), (skipn w b). split.
  - symmetry. apply firstn_skipn.
  - apply firstn_length_le. exact H.
Qed.

(* Induction over a byte string cut into chunks of [w] bytes and a short tail. *)
Lemma chunk_ind (w : nat) (P : bytes -> Prop) :
  (0 < w)%nat ->
  (forall b, (length b < w)%nat -> P b) ->
  (forall c r, length c = w -> P r -> P (c ++ r)) ->
  forall b, P b.
Proof.
  intros Hw Hshort Hchunk b.
  remember (length b) as n eqn:En. revert b En.
  induction n as [n IH] using lt_wf_ind. intros b En.
  destruct (Nat.lt_ge_cases (length b) w) as [Hlt|Hge].
  - apply Hshort. exact Hlt.
  - destruct (split_chunk w b Hge) as (c & r & Eb & Hc). subst b.
    apply Hchunk; [exact Hc|].
    apply (IH (length r)); [|reflexivity].
    rewrite En, app_length. lia.
Qed.

Lemma div_chunk (w n : nat) : (0 < w)%nat -> ((w + n) / w = S (n / w))%nat.
Proof.
  intro Hw. replace (w + n)%nat with (1 * w + n)%nat by lia.
  rewrite Nat.div_add_l by lia. reflexivity.
Qed.

Lemma mod_chunk (w n : nat) : (0 < w)%nat -> ((w + n) mod w = n mod w)%nat.
Proof.
  intro Hw. replace (w + n)%nat with (n + 1 * w)%nat by lia.
  apply Nat.mod_add. lia.
Qed.

Lemma bytes_wf_firstn n b : bytes_wf b -> bytes_wf (firstn n b).
Proof. intro W. rewrite <- (firstn_skipn n b) in W. apply bytes_wf_app in W. tauto. Qed.

Lemma bytes_wf_skipn n b : bytes_wf b -> bytes_wf (skipn n b).
Proof. intro W. rewrite <- (firstn_skipn n b) in W. apply bytes_wf_app in W. tauto. Qed.

(* ------------------------------------------------------------------ *)
(* One element                                                          *)
(* ------------------------------------------------------------------ *)

(* Little-endian: byte i of the encoding is (v / 256^i) mod 256. *)
Lemma le_encode_nth (w : nat) (v : N) (i : nat) :
  (i < w)%nat -> nth i (le_encode w v) 0 = (v / 256 ^ N.of_nat i) mod 256.
Proof.
  revert v i; induction w as [|w IH]; intros v i Hi; [lia|].
  destruct i as [|i]; cbn [le_encode nth].
  - change (N.of_nat 0) with 0. rewrite N.pow_0_r, N.div_1_r. reflexivity.
  - rewrite IH by lia. rewrite pow256_succ, N.div_div; [reflexivity|discriminate|].
    apply N.pow_nonzero. discriminate.
Qed.

(* ------------------------------------------------------------------ *)
(* Equations of the two loops                                           *)
(* ------------------------------------------------------------------ *)

Lemma s2b_nil w : slice_to_bytes_nat w [] = [].
Proof. reflexivity. Qed.

Lemma s2b_cons w e es :
  slice_to_bytes_nat w (e :: es) = le_encode w e ++ slice_to_bytes_nat w es.
Proof. reflexivity. Qed.

Lemma b2s_short w b : (length b < w)%nat -> bytes_to_slice_nat w b = [].
Proof. intro H. unfold bytes_to_slice_nat. rewrite Nat.div_small by exact H. reflexivity. Qed.

Lemma b2s_chunk w c r :
  (0 < w)%nat -> length c = w ->
  bytes_to_slice_nat w (c ++ r) = le_decode c :: bytes_to_slice_nat w r.
Proof.
  intros Hw Hc. unfold bytes_to_slice_nat.
  rewrite app_length, Hc, div_chunk by exact Hw.
  cbn [seq map]. f_equal.
  - cbn [Nat.mul skipn]. rewrite firstn_app_exact by exact Hc. reflexivity.
  - rewrite <- seq_shift, map_map. apply map_ext. intro i.
    replace (S i * w)%nat with (i * w + w)%nat by lia.
    rewrite skipn_app, Hc. rewrite skipn_all2 by lia.
    replace (i * w + w - w)%nat with (i * w)%nat by lia. reflexivity.
Qed.

(* ------------------------------------------------------------------ *)
(* Lengths and ranges                                                   *)
(* ------------------------------------------------------------------ *)

Lemma s2b_length_nat w elems : length (slice_to_bytes_nat w elems) = (w * length elems)%nat.
Proof.
  induction elems as [|e es IH]; [cbn [length]; rewrite s2b_nil; cbn [length]; lia|].
  rewrite s2b_cons, app_length, le_encode_length, IH. cbn [length]. lia.
Qed.

Lemma b2s_length_nat w b : length (bytes_to_slice_nat w b) = (length b / w)%nat.
Proof. unfold bytes_to_slice_nat. rewrite map_length, seq_length. reflexivity. Qed.

Lemma s2b_wf_nat w elems : bytes_wf (slice_to_bytes_nat w elems).
Proof.
  induction elems as [|e es IH]; [apply bytes_wf_nil|].
  rewrite s2b_cons. apply bytes_wf_app. split; [apply le_encode_wf|exact IH].
Qed.

Lemma b2s_range_nat w b :
  (0 < w)%nat -> bytes_wf b ->
  Forall (fun e => e < 256 ^ N.of_nat w) (bytes_to_slice_nat w b).
Proof.
  intro Hw. pattern b. apply (chunk_ind w); [exact Hw| |].
  - intros b0 Hlt _. rewrite b2s_short by exact Hlt. constructor.
  - intros c r Hc IH W. apply bytes_wf_app in W as [Wc Wr].
    rewrite b2s_chunk by assumption. constructor; [|apply IH; exact Wr].
    rewrite <- Hc. apply le_decode_lt. exact Wc.
Qed.

(* ------------------------------------------------------------------ *)
(* Inverses                                                             *)
(* ------------------------------------------------------------------ *)

Lemma b2s_s2b_nat w elems :
  (0 < w)%nat -> Forall (fun e => e < 256 ^ N.of_nat w) elems ->
  bytes_to_slice_nat w (slice_to_bytes_nat w elems) = elems.
Proof.
  intros Hw H. induction H as [|e es He Hes IH].
  - rewrite s2b_nil. apply b2s_short. cbn [length]. exact Hw.
  - rewrite s2b_cons, b2s_chunk by (try exact Hw; apply le_encode_length).
    rewrite le_decode_encode_small by exact He. rewrite IH. reflexivity.
Qed.

(* The exact statement for every length: the trailing (length b mod w) bytes
   are dropped, everything before them comes back. *)
Lemma s2b_b2s_nat w b :
  (0 < w)%nat -> bytes_wf b ->
  slice_to_bytes_nat w (bytes_to_slice_nat w b) = firstn (w * (length b / w)) b.
Proof.
  intro Hw. pattern b. apply (chunk_ind w); [exact Hw| |].
  - intros b0 Hlt _. rewrite b2s_short by exact Hlt.
    rewrite Nat.div_small by exact Hlt. rewrite Nat.mul_0_r. reflexivity.
  - intros c r Hc IH W. apply bytes_wf_app in W as [Wc Wr].
    rewrite b2s_chunk by assumption. rewrite s2b_cons, (IH Wr).
    rewrite <- Hc at 1. rewrite (le_encode_decode c Wc).
    rewrite app_length, Hc, div_chunk by exact Hw.
    rewrite firstn_app, Hc. clear IH. generalize (length r / w)%nat; intro q.
    replace (w * S q - w)%nat with (w * q)%nat by lia.
    rewrite (@firstn_all2 _ (w * S q) c) by lia. reflexivity.
Qed.

Lemma s2b_b2s_exact_nat w b :
  (0 < w)%nat -> bytes_wf b -> (length b mod w = 0)%nat ->
  slice_to_bytes_nat w (bytes_to_slice_nat w b) = b.
Proof.
  intros Hw W Hm. rewrite s2b_b2s_nat by assumption.
  assert (E : (w * (length b / w) = length b)%nat).
  { pose proof (Nat.div_mod (length b) w ltac:(lia)) as D. lia. }
  rewrite E. apply firstn_all.
Qed.

(* Trailing bytes never influence the decoded slice. *)
Lemma b2s_trailing_nat w b t :
  (0 < w)%nat -> (length b mod w = 0)%nat -> (length t < w)%nat ->
  bytes_to_slice_nat w (b ++ t) = bytes_to_slice_nat w b.
Proof.
  intros Hw Hm Ht. revert Hm. pattern b. apply (chunk_ind w); [exact Hw| |].
  - intros b0 Hlt Hm. rewrite Nat.mod_small in Hm by exact Hlt.
    destruct b0; [|discriminate Hm]. cbn [app].
    rewrite !b2s_short; [reflexivity|cbn [length]; lia|exact Ht].
  - intros c r Hc IH Hm. rewrite app_length, Hc, mod_chunk in Hm by exact Hw.
    rewrite <- app_assoc, (b2s_chunk w c (r ++ t) Hw Hc), (b2s_chunk w c r Hw Hc).
    rewrite (IH Hm). reflexivity.
Qed.

(* ------------------------------------------------------------------ *)
(* Little-endian order of whole slices                                  *)
(* ------------------------------------------------------------------ *)

Lemma s2b_nth_nat w elems k i :
  (i < w)%nat -> (k < length elems)%nat ->
  nth (k * w + i) (slice_to_bytes_nat w elems) 0 = (nth k elems 0 / 256 ^ N.of_nat i) mod 256.
Proof.
  intros Hi. revert k; induction elems as [|e es IH]; intros k Hk; cbn [length] in Hk; [lia|].
  rewrite s2b_cons. destruct k as [|k].
  - cbn [Nat.mul Nat.add nth]. rewrite app_nth1 by (rewrite le_encode_length; exact Hi).
    apply le_encode_nth. exact Hi.
  - rewrite app_nth2 by (rewrite le_encode_length; lia).
    rewrite le_encode_length.
    replace (S k * w + i - w)%nat with (k * w + i)%nat by lia.
    cbn [nth]. apply IH. lia.
Qed.

Lemma b2s_nth_nat w b k :
  (k < length b / w)%nat ->
  nth k (bytes_to_slice_nat w b) 0 = le_decode (firstn w (skipn (k * w) b)).
Proof.
  intro Hk. unfold bytes_to_slice_nat.
  set (f := fun i : nat => le_decode (firstn w (skipn (i * w) b))).
  rewrite (nth_indep _ 0 (f O)) by (rewrite map_length, seq_length; exact Hk).
  rewrite map_nth, seq_nth by exact Hk. reflexivity.
Qed.

(* byte i of decoded element k is input byte k*w+i *)
Lemma b2s_byte_nat w b k i :
  (0 < w)%nat -> bytes_wf b -> (i < w)%nat -> (k < length b / w)%nat ->
  (nth k (bytes_to_slice_nat w b) 0 / 256 ^ N.of_nat i) mod 256 = nth (k * w + i) b 0.
Proof.
  intros Hw W Hi Hk.
  rewrite <- (s2b_nth_nat w (bytes_to_slice_nat w b) k i Hi)
    by (rewrite b2s_length_nat; exact Hk).
  rewrite s2b_b2s_nat by assumption.
  apply nth_firstn_lt.
  assert (k * w + i < (length b / w) * w)%nat by nia. lia.
Qed.

(* ------------------------------------------------------------------ *)
(* Public forms (width as N)                                            *)
(* ------------------------------------------------------------------ *)

Lemma to_nat_pos (w : N) : 0 < w -> (0 < N.to_nat w)%nat.
Proof. lia. Qed.

Lemma slice_to_bytes_length w elems :
  length (slice_to_bytes w elems) = (N.to_nat w * length elems)%nat.
Proof. apply s2b_length_nat. Qed.

Lemma bytes_to_slice_length w b :
  length (bytes_to_slice w b) = (length b / N.to_nat w)%nat.
Proof. apply b2s_length_nat. Qed.

Lemma slice_to_bytes_wf w elems : bytes_wf (slice_to_bytes w elems).
Proof. apply s2b_wf_nat. Qed.

Lemma bytes_to_slice_range w b :
  0 < w -> bytes_wf b -> Forall (fun e => e < 256 ^ w) (bytes_to_slice w b).
Proof.
  intros Hw W. pose proof (b2s_range_nat (N.to_nat w) b (to_nat_pos w Hw) W) as H.
  rewrite N2Nat.id in H. exact H.
Qed.

Lemma bytes_to_slice_of_slice_to_bytes w elems :
  0 < w -> Forall (fun e => e < 256 ^ w) elems ->
  bytes_to_slice w (slice_to_bytes w elems) = elems.
Proof.
  intros Hw H. apply b2s_s2b_nat; [apply to_nat_pos; exact Hw|].
  rewrite N2Nat.id. exact H.
Qed.

Lemma slice_to_bytes_of_bytes_to_slice w b :
  0 < w -> bytes_wf b ->
  slice_to_bytes w (bytes_to_slice w b) = firstn (N.to_nat w * (length b / N.to_nat w)) b.
Proof. intros Hw W. apply s2b_b2s_nat; [apply to_nat_pos; exact Hw|exact W]. Qed.

Lemma slice_to_bytes_of_bytes_to_slice_exact w b :
  0 < w -> bytes_wf b -> (length b mod N.to_nat w = 0)%nat ->
  slice_to_bytes w (bytes_to_slice w b) = b.
Proof. intros Hw W Hm. apply s2b_b2s_exact_nat; [apply to_nat_pos; exact Hw|exact W|exact Hm]. Qed.

(* what is lost: exactly the last (length b mod w) bytes *)
Lemma bytes_to_slice_drops_tail w b :
  0 < w -> bytes_wf b ->
  b = slice_to_bytes w (bytes_to_slice w b) ++ skipn (N.to_nat w * (length b / N.to_nat w)) b
  /\ length (skipn (N.to_nat w * (length b / N.to_nat w)) b) = (length b mod N.to_nat w)%nat.
Proof.
  intros Hw W. rewrite slice_to_bytes_of_bytes_to_slice by assumption. split.
  - symmetry. apply firstn_skipn.
  - rewrite skipn_length. pose proof (to_nat_pos w Hw) as Hp.
    pose proof (Nat.div_mod (length b) (N.to_nat w) ltac:(lia)) as D. lia.
Qed.

Lemma bytes_to_slice_trailing w b t :
  0 < w -> (length b mod N.to_nat w = 0)%nat -> (length t < N.to_nat w)%nat ->
  bytes_to_slice w (b ++ t) = bytes_to_slice w b.
Proof. intros Hw Hm Ht. apply b2s_trailing_nat; [apply to_nat_pos; exact Hw|exact Hm|exact Ht]. Qed.

Lemma slice_to_bytes_little_endian w elems k i :
  (i < N.to_nat w)%nat -> (k < length elems)%nat ->
  nth (k * N.to_nat w + i) (slice_to_bytes w elems) 0 = (nth k elems 0 / 256 ^ N.of_nat i) mod 256.
Proof. apply s2b_nth_nat. Qed.

Lemma bytes_to_slice_little_endian w b k i :
  0 < w -> bytes_wf b -> (i < N.to_nat w)%nat -> (k < length b / N.to_nat w)%nat ->
  (nth k (bytes_to_slice w b) 0 / 256 ^ N.of_nat i) mod 256 = nth (k * N.to_nat w + i) b 0.
Proof. intros Hw W Hi Hk. apply b2s_byte_nat; [apply to_nat_pos; exact Hw|exact W|exact Hi|exact Hk]. Qed.

(* ------------------------------------------------------------------ *)
(* float16 (float32 values, top 16 bits)                                *)
(* ------------------------------------------------------------------ *)

Lemma f16_bytes_of_slice elems :
  Forall (fun f => f < 4294967296) elems ->
  f16_bytes_to_slice (f16_slice_to_bytes elems) = map (fun f => f / 65536 * 65536) elems.
Proof.
  intro H. unfold f16_bytes_to_slice, f16_slice_to_bytes.
  rewrite bytes_to_slice_of_slice_to_bytes.
  - rewrite map_map. reflexivity.
  - reflexivity.
  - apply Forall_map. eapply Forall_impl; [|exact H].
    intros f Hf. cbv beta in *. change (256 ^ 2) with 65536. lia.
Qed.

(* exact on the representable patterns (low 16 bits clear) *)
Lemma f16_bytes_of_slice_exact elems :
  Forall (fun f => f < 4294967296 /\ f mod 65536 = 0) elems ->
  f16_bytes_to_slice (f16_slice_to_bytes elems) = elems.
Proof.
  intro H. rewrite f16_bytes_of_slice by (eapply Forall_impl; [|exact H]; cbv beta; tauto).
  rewrite <- (map_id elems) at 2. apply map_ext_in. intros f Hf.
  rewrite Forall_forall in H. destruct (H f Hf) as [_ Hm]. lia.
Qed.

Lemma f16_slice_of_bytes b :
  bytes_wf b ->
  f16_slice_to_bytes (f16_bytes_to_slice b) = firstn (2 * (length b / 2)) b.
Proof.
  intro W. unfold f16_bytes_to_slice, f16_slice_to_bytes.
  rewrite map_map.
  rewrite (map_ext (fun x => x * 65536 / 65536) (fun x => x)) by (intro x; lia).
  rewrite map_id. apply (slice_to_bytes_of_bytes_to_slice 2 b); [reflexivity|exact W].
Qed.

Lemma f16_slice_of_bytes_exact b :
  bytes_wf b -> (length b mod 2 = 0)%nat ->
  f16_slice_to_bytes (f16_bytes_to_slice b) = b.
Proof.
  intros W Hm. rewrite f16_slice_of_bytes by exact W.
  replace (2 * (length b / 2))%nat with (length b) by lia. apply firstn_all.
Qed.

(* ------------------------------------------------------------------ *)
(* UUID                                                                 *)
(* ------------------------------------------------------------------ *)

Lemma uuid_chunks_concat fuel us spare :
  Forall (fun u => length u = 16%nat) us -> (length us <= fuel)%nat ->
  uuid_chunks fuel (concat us) spare = Ok us.
Proof.
  intro H. revert fuel. induction H as [|u r Hu Hr IH]; intros fuel Hf.
  - destruct fuel; reflexivity.
  - cbn [length] in Hf. destruct fuel as [|f]; [lia|].
    cbn [concat uuid_chunks].
    destruct u as [|x u']; [discriminate Hu|].
    cbn [app].
    change (x :: u' ++ concat r) with ((x :: u') ++ concat r).
    assert (L : (16 <=? length ((x :: u') ++ concat r))%nat = true).
    { apply Nat.leb_le. rewrite app_length, Hu. lia. }
    rewrite L, skipn_app_exact, firstn_app_exact by exact Hu.
    rewrite IH by lia. reflexivity.
Qed.

Lemma uuid_chunks_ok fuel : forall b spare us,
  (length b <= fuel)%nat -> uuid_chunks fuel b spare = Ok us ->
  concat us = b ++ firstn ((16 - length b mod 16) mod 16) spare
  /\ Forall (fun u => length u = 16%nat) us.
Proof.
  induction fuel as [|f IH]; intros b spare us Hf E.
  - destruct b; [|cbn [length] in Hf; lia]. cbn [uuid_chunks] in E.
    injection E as <-. split; [reflexivity|constructor].
  - destruct b as [|x b']; cbn [uuid_chunks] in E.
    { injection E as <-. split; [reflexivity|constructor]. }
    remember (x :: b') as b eqn:Eb in *.
    assert (Hb : (0 < length b)%nat) by (rewrite Eb; cbn [length]; lia).
    clear Eb x b'.
    destruct (16 <=? length b)%nat eqn:L16.
    + apply Nat.leb_le in L16.
      destruct (uuid_chunks f (skipn 16 b) spare) as [r| | |] eqn:Er; unfold outcome_bind in E;
        try discriminate E.
      assert (Eus : firstn 16 b :: r = us) by congruence. subst us. clear E.
      assert (Hs : (length (skipn 16 b) <= f)%nat) by (rewrite skipn_length; lia).
      destruct (IH _ _ _ Hs Er) as [Ec Hall].
      split.
      * change (concat (firstn 16 b :: r)) with (firstn 16 b ++ concat r).
        rewrite Ec, skipn_length, app_assoc, firstn_skipn.
        replace ((length b - 16) mod 16)%nat with (length b mod 16)%nat by lia.
        reflexivity.
      * constructor; [apply firstn_length_le; exact L16|exact Hall].
    + apply Nat.leb_gt in L16.
      destruct (16 <=? length b + length spare)%nat eqn:L2; [|discriminate E].
      apply Nat.leb_le in L2.
      assert (Eus : [b ++ firstn (16 - length b) spare] = us) by congruence. subst us. clear E.
      split.
      * change (concat [b ++ firstn (16 - length b) spare])
          with ((b ++ firstn (16 - length b) spare) ++ []). rewrite app_nil_r.
        replace ((16 - length b mod 16) mod 16)%nat with (16 - length b)%nat by lia.
        reflexivity.
      * constructor; [|constructor]. rewrite app_length, firstn_length. lia.
Qed.

Lemma uuid_chunks_panic fuel : forall b spare,
  (length b <= fuel)%nat -> (length b mod 16 <> 0)%nat ->
  (length b mod 16 + length spare < 16)%nat ->
  uuid_chunks fuel b spare = Panic.
Proof.
  induction fuel as [|f IH]; intros b spare Hf Hm Hs.
  - destruct b; [cbn [length] in Hm; exfalso; apply Hm; reflexivity|cbn [length] in Hf; lia].
  - destruct b as [|x b']; cbn [uuid_chunks].
    { cbn [length] in Hm. exfalso. apply Hm. reflexivity. }
    remember (x :: b') as b eqn:Eb in *. clear Eb x b'.
    destruct (16 <=? length b)%nat eqn:L16.
    + apply Nat.leb_le in L16.
      rewrite IH; [reflexivity| | |]; rewrite skipn_length.
      * lia.
      * replace ((length b - 16) mod 16)%nat with (length b mod 16)%nat by lia. exact Hm.
      * replace ((length b - 16) mod 16)%nat with (length b mod 16)%nat by lia. exact Hs.
    + apply Nat.leb_gt in L16.
      destruct (16 <=? length b + length spare)%nat eqn:L2; [|reflexivity].
      apply Nat.leb_le in L2. lia.
Qed.

Lemma concat_length16 (us : list bytes) :
  Forall (fun u => length u = 16%nat) us -> length (concat us) = (16 * length us)%nat.
Proof.
  intro H. induction H as [|u r Hu Hr IH]; [reflexivity|].
  cbn [concat length]. rewrite app_length, Hu, IH. lia.
Qed.

(* slice -> bytes -> slice, whatever lies beyond the length *)
Lemma uuid_slice_of_bytes_of_slice us spare :
  Forall (fun u => length u = 16%nat) us ->
  bytes_to_uuid_slice (uuid_slice_to_bytes us) spare = Ok us.
Proof.
  intro H. unfold bytes_to_uuid_slice, uuid_slice_to_bytes.
  apply uuid_chunks_concat; [exact H|]. rewrite concat_length16 by exact H. unfold bytes. lia.
Qed.

(* bytes -> slice: when it returns, the elements are 16 bytes each and their
   concatenation is the input completed to a multiple of 16 with bytes from
   beyond its length; nothing is added when the length is a multiple of 16. *)
Lemma uuid_bytes_to_slice_ok b spare us :
  bytes_to_uuid_slice b spare = Ok us ->
  uuid_slice_to_bytes us = b ++ firstn ((16 - length b mod 16) mod 16) spare
  /\ Forall (fun u => length u = 16%nat) us.
Proof. intro E. apply (uuid_chunks_ok (length b)); [lia|exact E]. Qed.

Lemma uuid_bytes_of_slice_of_bytes b spare us :
  (length b mod 16 = 0)%nat -> bytes_to_uuid_slice b spare = Ok us ->
  uuid_slice_to_bytes us = b.
Proof.
  intros Hm E. destruct (uuid_bytes_to_slice_ok b spare us E) as [Ec _].
  rewrite Ec, Hm. cbn [Nat.sub]. change (16 mod 16)%nat with 0%nat.
  rewrite firstn_O, app_nil_r. reflexivity.
Qed.

Lemma uuid_bytes_to_slice_total b spare :
  (length b mod 16 = 0)%nat -> exists us, bytes_to_uuid_slice b spare = Ok us.
Proof.
  intro Hm. unfold bytes_to_uuid_slice.
  assert (G : forall fuel b0, (length b0 <= fuel)%nat -> (length b0 mod 16 = 0)%nat ->
              exists us, uuid_chunks fuel b0 spare = Ok us).
  { induction fuel as [|f IH]; intros b0 Hf H0.
    - exists []. reflexivity.
    - destruct b0 as [|x b']; cbn [uuid_chunks]; [exists []; reflexivity|].
      remember (x :: b') as c eqn:Ec in *.
      assert (Hc : (0 < length c)%nat) by (rewrite Ec; cbn [length]; lia).
      clear Ec x b'.
      assert (L : (16 <=? length c)%nat = true) by (apply Nat.leb_le; lia).
      rewrite L.
      destruct (IH (skipn 16 c)) as [r Er].
      + rewrite skipn_length. lia.
      + rewrite skipn_length. apply Nat.leb_le in L. lia.
      + rewrite Er. unfold outcome_bind. eexists. reflexivity. }
  apply G; [lia|exact Hm].
Qed.

Lemma uuid_bytes_roundtrip b spare :
  (length b mod 16 = 0)%nat ->
  exists us, bytes_to_uuid_slice b spare = Ok us /\ uuid_slice_to_bytes us = b.
Proof.
  intro Hm. destruct (uuid_bytes_to_slice_total b spare Hm) as [us E].
  exists us. split; [exact E|]. apply (uuid_bytes_of_slice_of_bytes b spare us Hm E).
Qed.

Lemma uuid_bytes_to_slice_panics b spare :
  (length b mod 16 <> 0)%nat -> (length b mod 16 + length spare < 16)%nat ->
  bytes_to_uuid_slice b spare = Panic.
Proof. intros Hm Hs. apply uuid_chunks_panic; [lia|exact Hm|exact Hs]. Qed.

(* ------------------------------------------------------------------ *)
(* Which path runs                                                      *)
(* ------------------------------------------------------------------ *)

Lemma probe_inverted h : probe_is_little_endian h = negb h.
Proof. destruct h; vm_compute; reflexivity. Qed.

Lemma little_endian_host_runs_fallback w elems :
  runs_fast_path true = false /\ as_bytes_on_host true w elems = Ok (slice_to_bytes w elems).
Proof. split; reflexivity. Qed.

Lemma big_endian_host_runs_fast_path : runs_fast_path false = true.
Proof. vm_compute. reflexivity. Qed.

(* ------------------------------------------------------------------ *)
(* Encoder / decoder loops vs the helpers                               *)
(* ------------------------------------------------------------------ *)

Lemma map_quiet32_id elems :
  Forall (fun f => is_snan32 f = false) elems -> map quiet32 elems = elems.
Proof.
  intro H. rewrite <- (map_id elems) at 2. apply map_ext_in. intros f Hf.
  rewrite Forall_forall in H. unfold quiet32. rewrite (H f Hf). reflexivity.
Qed.

Lemma iter_tie_nonfloat32 w elems : iter_to_bytes w false elems = slice_to_bytes w elems.
Proof. reflexivity. Qed.

Lemma iter_tie_float32 elems :
  Forall (fun f => is_snan32 f = false) elems ->
  iter_to_bytes 4 true elems = slice_to_bytes 4 elems.
Proof. intro H. unfold iter_to_bytes. rewrite map_quiet32_id by exact H. reflexivity. Qed.

Lemma quiet32_changes_snan f : is_snan32 f = true -> f < 4294967296 ->
  quiet32 f = f + 4194304 /\ f + 4194304 < 4294967296.
Proof.
  intros Hs Hf. unfold quiet32. rewrite Hs. split; [reflexivity|].
  unfold is_snan32 in Hs. apply andb_true_iff in Hs as [Hs H22].
  apply N.eqb_eq in H22. lia.
Qed.

(* every signalling NaN is a witness: the iterator's bytes differ from the helper's *)
Lemma iter_tie_float32_fails_on_snan f :
  is_snan32 f = true -> f < 4294967296 ->
  iter_to_bytes 4 true [f] <> slice_to_bytes 4 [f].
Proof.
  intros Hs Hf E. destruct (quiet32_changes_snan f Hs Hf) as [Eq Hlt].
  unfold iter_to_bytes, slice_to_bytes, slice_to_bytes_nat in E.
  cbn [map flat_map] in E. rewrite !app_nil_r, Eq in E.
  apply le_encode_inj in E; [lia| |]; change (256 ^ N.of_nat (N.to_nat 4)) with 4294967296; assumption.
Qed.

Lemma build_tie_other w b : build_from_bytes w false b = bytes_to_slice w b.
Proof. reflexivity. Qed.

Lemma build_tie_float32_array b :
  Forall (fun f => is_snan32 f = false) (bytes_to_slice 4 b) ->
  build_from_bytes 4 true b = bytes_to_slice 4 b.
Proof. intro H. unfold build_from_bytes. apply map_quiet32_id. exact H. Qed.
