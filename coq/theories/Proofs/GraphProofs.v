(* C20 — proofs about Model/Graph.v.
   Part 1: the iterator comes back on every heap in which each cycle passes through a marked object.
   Part 2: the builder stack run on the events of a call tree performs the tree's denotation.
   Part 3: deferred reference setters end up writing what an oracle would have written at once.
   Part 4: the shape of the iterator's call tree.
   Part 5: marshal + unmarshal gives an isomorphic heap.
   Part 6: the validator's single marker slot. *)
From CE Require Import Model.Graph.
From Coq Require Import ZifyN ZifyNat ZifyBool Lia.
Open Scope N_scope.

(* ------------------------------------------------------------------------- *)
(* basics                                                                     *)

Lemma mem_In a l : mem a l = true <-> In a l.
Proof.
  unfold mem. rewrite existsb_exists. split.
  - intros [x [Hi He]]. apply N.eqb_eq in He. subst. exact Hi.
  - intro Hi. exists a. split; [exact Hi | apply N.eqb_refl].
Qed.

Lemma label_eqb_eq a b : label_eqb a b = true <-> a = b.
Proof.
  destruct a, b; simpl; split; intro H; try discriminate; try congruence.
  - apply N.eqb_eq in H. congruence.
  - inversion H. apply N.eqb_refl.
  - apply N.eqb_eq in H. congruence.
  - inversion H. apply N.eqb_refl.
  - apply Z.eqb_eq in H. congruence.
  - inversion H. apply Z.eqb_refl.
Qed.
Lemma label_eqb_refl a : label_eqb a a = true.
Proof. apply label_eqb_eq. reflexivity. Qed.
Lemma label_eqb_neq a b : a <> b -> label_eqb a b = false.
Proof. intro H. destruct (label_eqb a b) eqn:E; [apply label_eqb_eq in E; contradiction | reflexivity]. Qed.

(* ------------------------------------------------------------------------- *)
(* Part 1: termination                                                         *)

Definition is_named (s : ist) (a : addr) : bool :=
  match named_find a (g_named s) with Some _ => true | None => false end.

(* s' knows every name s knows *)
Definition ext (s s' : ist) : Prop :=
  forall a id, named_find a (g_named s) = Some id -> named_find a (g_named s') = Some id.

Lemma ext_refl s : ext s s.
Proof. intros a id H. exact H. Qed.
Lemma ext_trans s1 s2 s3 : ext s1 s2 -> ext s2 s3 -> ext s1 s3.
Proof. intros H1 H2 a id H. apply H2, H1, H. Qed.

Lemma ext_cons s a id nx :
  named_find a (g_named s) = None -> ext s (mkIst ((a, id) :: g_named s) nx).
Proof.
  intros Hn b idb Hb. simpl. destruct (b =? a) eqn:E.
  - apply N.eqb_eq in E. subst. congruence.
  - exact Hb.
Qed.

Section Termination.
Variable h : heap.
Variable dups : list addr.
Variable omit_never : bool.

Notation trav := (gtrav h dups omit_never).
Notation trav_kids := (gtrav_kids h omit_never).

Lemma kids_ext tr :
  (forall r s t s', tr r s = Some (t, s') -> ext s s') ->
  forall sf ks s ts s', trav_kids tr sf ks s = Some (ts, s') -> ext s s'.
Proof.
  intros Htr sf ks. induction ks as [|[l r] ks IH]; intros s ts s' H; simpl in H.
  - inversion H; subst. apply ext_refl.
  - destruct (sf && negb omit_never && empty_target h r).
    + destruct (trav_kids tr sf ks s) as [[ts0 s0]|] eqn:E; [|discriminate].
      inversion H; subst. eapply IH; eauto.
    + destruct (tr r s) as [[t1 s1]|] eqn:E1; [|discriminate].
      destruct (trav_kids tr sf ks s1) as [[ts0 s0]|] eqn:E; [|discriminate].
      inversion H; subst. eapply ext_trans; [eapply Htr; eauto | eapply IH; eauto].
Qed.

Lemma gtrav_ext fuel : forall r s t s', trav fuel r s = Some (t, s') -> ext s s'.
Proof.
  induction fuel as [|f IH]; intros r s t s' H.
  - destruct r as [a|]; simpl in H; [discriminate | inversion H; subst; apply ext_refl].
  - destruct r as [a|]; simpl in H; [| inversion H; subst; apply ext_refl].
    destruct (hget h a) as [n|]; [|discriminate].
    destruct (mem a dups).
    + destruct (named_find a (g_named s)) as [id|] eqn:En.
      * inversion H; subst. apply ext_refl.
      * destruct (trav_kids (trav f) (is_struct n) (nkids n) _) as [[ts s2]|] eqn:Ek; [|discriminate].
        inversion H; subst.
        eapply ext_trans; [apply ext_cons; exact En | eapply kids_ext; eauto].
    + destruct (trav_kids (trav f) (is_struct n) (nkids n) s) as [[ts s2]|] eqn:Ek; [|discriminate].
      inversion H; subst. eapply kids_ext; eauto.
Qed.

(* marked objects that have no name yet *)
Definition unnamed (s : ist) : nat := length (filter (fun d => negb (is_named s d)) dups).

Lemma filter_length_le {A} (p q : A -> bool) l :
  (forall x, In x l -> p x = true -> q x = true) -> (length (filter p l) <= length (filter q l))%nat.
Proof.
  induction l as [|x l IH]; intro H; simpl; [lia|].
  assert (IH' := IH (fun y Hy => H y (or_intror Hy))).
  destruct (p x) eqn:Ep.
  - rewrite (H x (or_introl eq_refl) Ep). simpl. lia.
  - destruct (q x); simpl; lia.
Qed.

Lemma filter_length_lt {A} (p q : A -> bool) l x :
  (forall y, In y l -> p y = true -> q y = true) -> In x l -> p x = false -> q x = true ->
  (length (filter p l) < length (filter q l))%nat.
Proof.
  induction l as [|y l IH]; intros H Hin Hp Hq; [destruct Hin|].
  simpl. destruct Hin as [->|Hin].
  - rewrite Hp, Hq. simpl.
    assert (length (filter p l) <= length (filter q l))%nat by (apply filter_length_le; intros; apply H; [right|]; assumption).
    lia.
  - assert (IH' := IH (fun z Hz => H z (or_intror Hz)) Hin Hp Hq).
    destruct (p y) eqn:Ep.
    + rewrite (H y (or_introl eq_refl) Ep). simpl. lia.
    + destruct (q y); simpl; lia.
Qed.

Lemma ext_is_named s s' a : ext s s' -> is_named s a = true -> is_named s' a = true.
Proof.
  unfold is_named. intros He H. destruct (named_find a (g_named s)) as [id|] eqn:E; [|discriminate].
  rewrite (He _ _ E). reflexivity.
Qed.

Lemma unnamed_mono s s' : ext s s' -> (unnamed s' <= unnamed s)%nat.
Proof.
  intro He. unfold unnamed. apply filter_length_le. intros x _ Hx. cbv beta in *.
  destruct (is_named s x) eqn:E; [|reflexivity].
  rewrite (ext_is_named _ _ _ He E) in Hx. discriminate.
Qed.

Lemma unnamed_cons s a id nx :
  mem a dups = true -> named_find a (g_named s) = None ->
  (unnamed (mkIst ((a, id) :: g_named s) nx) < unnamed s)%nat.
Proof.
  intros Hm Hn. unfold unnamed. apply filter_length_lt with (x := a).
  - intros y _ Hy. cbv beta in *. destruct (is_named s y) eqn:E; [|reflexivity].
    rewrite (ext_is_named _ _ _ (ext_cons s a id nx Hn) E) in Hy. discriminate.
  - apply mem_In. exact Hm.
  - unfold is_named. simpl. rewrite N.eqb_refl. reflexivity.
  - unfold is_named. rewrite Hn. reflexivity.
Qed.

(* a rank that drops along every edge into an unmarked object, bounded by L *)
Variable rk : addr -> nat.
Variable L : nat.
Hypothesis rk_bound : forall a, (rk a <= L)%nat.
Hypothesis rk_drop : forall a n l b,
  hget h a = Some n -> In (l, Some b) (nkids n) -> mem b dups = false -> (rk b < rk a)%nat.
(* no dangling addresses among the references of allocated objects *)
Hypothesis kids_closed : forall a n l b,
  hget h a = Some n -> In (l, Some b) (nkids n) -> exists n', hget h b = Some n'.

Definition need (s : ist) (r : ref) : nat :=
  match r with
  | None => O
  | Some a => (unnamed s * (L + 3) + (if mem a dups then 1 else rk a + 2))%nat
  end.

Lemma kids_total tr sf (P : ist -> Prop) ks :
  (forall s, P s -> forall l r, In (l, r) ks -> exists t s', tr r s = Some (t, s') /\ P s') ->
  forall s, P s -> exists ts s', trav_kids tr sf ks s = Some (ts, s') /\ P s'.
Proof.
  induction ks as [|[l r] ks IH]; intros Htr s Hs; simpl.
  - eauto.
  - assert (IH' := IH (fun s0 H0 l0 r0 Hin => Htr s0 H0 l0 r0 (or_intror Hin))).
    destruct (sf && negb omit_never && empty_target h r).
    + destruct (IH' s Hs) as [ts [s' [E HP]]]. rewrite E. eauto.
    + destruct (Htr s Hs l r (or_introl eq_refl)) as [t [s1 [E1 HP1]]]. rewrite E1.
      destruct (IH' s1 HP1) as [ts [s' [E HP]]]. rewrite E. eauto.
Qed.

Lemma gtrav_total fuel : forall r s,
  (match r with Some a => exists n, hget h a = Some n | None => True end) ->
  (need s r <= fuel)%nat -> exists t s', trav fuel r s = Some (t, s').
Proof.
  induction fuel as [|f IH]; intros r s Hr Hn.
  - destruct r as [a|]; simpl; [|eauto].
    unfold need in Hn. destruct (mem a dups); lia.
  - destruct r as [a|]; simpl; [|eauto].
    destruct Hr as [n Hn']. rewrite Hn'.
    unfold need in Hn.
    destruct (mem a dups) eqn:Ed.
    + destruct (named_find a (g_named s)) as [id|] eqn:En; [eauto|].
      set (s1 := mkIst ((a, g_next s) :: g_named s) ((g_next s + 1) mod 4294967296)).
      assert (Hlt : (unnamed s1 < unnamed s)%nat) by (apply unnamed_cons; assumption).
      destruct (kids_total (trav f) (is_struct n) (fun s' => ext s1 s') (nkids n)) with (s := s1) as [ts [s' [E _]]].
      * intros s0 H0 l r Hin.
        assert (Hu : (unnamed s0 <= unnamed s1)%nat) by (apply unnamed_mono; exact H0).
        destruct (IH r s0) as [t [s2 E2]].
        -- destruct r as [b|]; [|exact I]. eapply kids_closed; eauto.
        -- destruct r as [b|]; simpl; [|lia].
           assert (Hb := rk_bound b).
           assert ((if mem b dups then 1 else rk b + 2) <= L + 2)%nat by (destruct (mem b dups); lia).
           nia.
        -- exists t, s2. split; [exact E2|]. eapply ext_trans; [exact H0 | eapply gtrav_ext; eauto].
      * apply ext_refl.
      * fold s1. rewrite E. eauto.
    + destruct (kids_total (trav f) (is_struct n) (fun s' => ext s s') (nkids n)) with (s := s) as [ts [s' [E _]]].
      * intros s0 H0 l r Hin.
        assert (Hu : (unnamed s0 <= unnamed s)%nat) by (apply unnamed_mono; exact H0).
        destruct (IH r s0) as [t [s2 E2]].
        -- destruct r as [b|]; [|exact I]. eapply kids_closed; eauto.
        -- destruct r as [b|]; simpl; [|lia].
           destruct (mem b dups) eqn:Eb.
           ++ nia.
           ++ assert (rk b < rk a)%nat by (eapply rk_drop; eauto). nia.
        -- exists t, s2. split; [exact E2|]. eapply ext_trans; [exact H0 | eapply gtrav_ext; eauto].
      * apply ext_refl.
      * rewrite E. eauto.
Qed.

End Termination.
