(* C20 — proofs about Model/Graph.v.
   Part 1: the iterator comes back on every heap in which each cycle passes through a marked object.
   Part 2: the builder stack run on the events of a call tree performs the tree's denotation.
   Part 3: deferred reference setters end up writing what an oracle would have written at once.
   Part 4: the shape of the iterator's call tree.
   Part 5: marshal + unmarshal gives an isomorphic heap.
   Part 6: the validator's single marker slot. *)
From CE Require Import Model.Graph.
From Coq Require Import ZifyN ZifyNat ZifyBool Lia.
Open Scope N_scope.

(* ------------------------------------------------------------------------- *)
(* basics                                                                     *)

Lemma mem_In a l : mem a l = true <-> In a l.
Proof.
  unfold mem. rewrite existsb_exists. split.
  - intros [x [Hi He]]. apply N.eqb_eq in He. subst. exact Hi.
  - intro Hi. exists a. split; [exact Hi | apply N.eqb_refl].
Qed.

Lemma label_eqb_eq a b : label_eqb a b = true <-> a = b.
Proof.
  destruct a, b; simpl; split; intro H; try discriminate; try congruence.
  - apply N.eqb_eq in H. congruence.
  - inversion H. apply N.eqb_refl.
  - apply N.eqb_eq in H. congruence.
  - inversion H. apply N.eqb_refl.
  - apply Z.eqb_eq in H. congruence.
  - inversion H. apply Z.eqb_refl.
Qed.
Lemma label_eqb_refl a : label_eqb a a = true.
Proof. apply label_eqb_eq. reflexivity. Qed.
Lemma label_eqb_neq a b : a <> b -> label_eqb a b = false.
Proof. intro H. destruct (label_eqb a b) eqn:E; [apply label_eqb_eq in E; contradiction | reflexivity]. Qed.

(* ------------------------------------------------------------------------- *)
(* Part 1: termination                                                         *)

Definition is_named (s : ist) (a : addr) : bool :=
  match named_find a (g_named s) with Some _ => true | None => false end.

(* s' knows every name s knows *)
Definition ext (s s' : ist) : Prop :=
  forall a id, named_find a (g_named s) = Some id -> named_find a (g_named s') = Some id.

Lemma ext_refl s : ext s s.
Proof. intros a id H. exact H. Qed.
Lemma ext_trans s1 s2 s3 : ext s1 s2 -> ext s2 s3 -> ext s1 s3.
Proof. intros H1 H2 a id H. apply H2, H1, H. Qed.

Lemma ext_cons s (a : addr) id nx :
  named_find a (g_named s) = None -> ext s (mkIst ((a, id) :: g_named s) nx).
Proof.
  intros Hn b idb Hb. simpl. destruct (b =? a) eqn:E.
  - apply N.eqb_eq in E. subst. congruence.
  - exact Hb.
Qed.

Section Termination.
Variable h : heap.
Variable dups : list addr.
Variable omit_never : bool.

Notation trav := (gtrav h dups omit_never).
Notation trav_kids := (gtrav_kids h omit_never).

Lemma kids_ext tr :
  (forall r s t s', tr r s = Some (t, s') -> ext s s') ->
  forall sf ks s ts s', trav_kids tr sf ks s = Some (ts, s') -> ext s s'.
Proof.
  intros Htr sf ks. induction ks as [|[l r] ks IH]; intros s ts s' H; simpl in H.
  - inversion H; subst. apply ext_refl.
  - destruct (sf && negb omit_never && empty_target h r).
    + destruct (trav_kids tr sf ks s) as [[ts0 s0]|] eqn:E; [|discriminate].
      inversion H; subst. eapply IH; eauto.
    + destruct (tr r s) as [[t1 s1]|] eqn:E1; [|discriminate].
      destruct (trav_kids tr sf ks s1) as [[ts0 s0]|] eqn:E; [|discriminate].
      inversion H; subst. eapply ext_trans; [eapply Htr; eauto | eapply IH; eauto].
Qed.

Lemma gtrav_ext fuel : forall r s t s', trav fuel r s = Some (t, s') -> ext s s'.
Proof.
  induction fuel as [|f IH]; intros r s t s' H.
  - destruct r as [a|]; simpl in H; [discriminate | inversion H; subst; apply ext_refl].
  - destruct r as [a|]; simpl in H; [| inversion H; subst; apply ext_refl].
    destruct (hget h a) as [n|]; [|discriminate].
    destruct (mem a dups).
    + destruct (named_find a (g_named s)) as [id|] eqn:En.
      * inversion H; subst. apply ext_refl.
      * destruct (trav_kids (trav f) (is_struct n) (nkids n) _) as [[ts s2]|] eqn:Ek; [|discriminate].
        inversion H; subst.
        eapply ext_trans; [apply ext_cons; exact En | eapply kids_ext; eauto].
    + destruct (trav_kids (trav f) (is_struct n) (nkids n) s) as [[ts s2]|] eqn:Ek; [|discriminate].
      inversion H; subst. eapply kids_ext; eauto.
Qed.

(* marked objects that have no name yet *)
Definition unnamed (s : ist) : nat := length (filter (fun d => negb (is_named s d)) dups).

Lemma filter_length_le {A} (p q : A -> bool) l :
  (forall x, In x l -> p x = true -> q x = true) -> (length (filter p l) <= length (filter q l))%nat.
Proof.
  induction l as [|x l IH]; intro H; simpl; [lia|].
  assert (IH' := IH (fun y Hy => H y (or_intror Hy))).
  destruct (p x) eqn:Ep.
  - rewrite (H x (or_introl eq_refl) Ep). simpl. lia.
  - destruct (q x); simpl; lia.
Qed.

Lemma filter_length_lt {A} (p q : A -> bool) l x :
  (forall y, In y l -> p y = true -> q y = true) -> In x l -> p x = false -> q x = true ->
  (length (filter p l) < length (filter q l))%nat.
Proof.
  induction l as [|y l IH]; intros H Hin Hp Hq; [destruct Hin|].
  simpl. destruct Hin as [->|Hin].
  - rewrite Hp, Hq. simpl.
    assert (length (filter p l) <= length (filter q l))%nat by (apply filter_length_le; intros; apply H; [right|]; assumption).
    lia.
  - assert (IH' := IH (fun z Hz => H z (or_intror Hz)) Hin Hp Hq).
    destruct (p y) eqn:Ep.
    + rewrite (H y (or_introl eq_refl) Ep). simpl. lia.
    + destruct (q y); simpl; lia.
Qed.

Lemma ext_is_named s s' a : ext s s' -> is_named s a = true -> is_named s' a = true.
Proof.
  unfold is_named. intros He H. destruct (named_find a (g_named s)) as [id|] eqn:E; [|discriminate].
  rewrite (He _ _ E). reflexivity.
Qed.

Lemma unnamed_mono s s' : ext s s' -> (unnamed s' <= unnamed s)%nat.
Proof.
  intro He. unfold unnamed. apply filter_length_le. intros x _ Hx. cbv beta in *.
  destruct (is_named s x) eqn:E; [|reflexivity].
  rewrite (ext_is_named _ _ _ He E) in Hx. discriminate.
Qed.

Lemma unnamed_cons s a id nx :
  mem a dups = true -> named_find a (g_named s) = None ->
  (unnamed (mkIst ((a, id) :: g_named s) nx) < unnamed s)%nat.
Proof.
  intros Hm Hn. unfold unnamed. apply filter_length_lt with (x := a).
  - intros y _ Hy. cbv beta in *. destruct (is_named s y) eqn:E; [|reflexivity].
    rewrite (ext_is_named _ _ _ (ext_cons s a id nx Hn) E) in Hy. discriminate.
  - apply mem_In. exact Hm.
  - unfold is_named. simpl. rewrite N.eqb_refl. reflexivity.
  - unfold is_named. rewrite Hn. reflexivity.
Qed.

(* a rank that drops along every edge into an unmarked object, bounded by L *)
Variable rk : addr -> nat.
Variable L : nat.
Hypothesis rk_bound : forall a, (rk a <= L)%nat.
Hypothesis rk_drop : forall a n l b,
  hget h a = Some n -> In (l, Some b) (nkids n) -> mem b dups = false -> (rk b < rk a)%nat.
(* no dangling addresses among the references of allocated objects *)
Hypothesis kids_closed : forall a n l b,
  hget h a = Some n -> In (l, Some b) (nkids n) -> exists n', hget h b = Some n'.

Definition need (s : ist) (r : ref) : nat :=
  match r with
  | None => O
  | Some a => (unnamed s * (L + 3) + (if mem a dups then 1 else rk a + 2))%nat
  end.

Lemma kids_total tr sf (P : ist -> Prop) ks :
  (forall s, P s -> forall l r, In (l, r) ks -> exists t s', tr r s = Some (t, s') /\ P s') ->
  forall s, P s -> exists ts s', trav_kids tr sf ks s = Some (ts, s') /\ P s'.
Proof.
  induction ks as [|[l r] ks IH]; intros Htr s Hs; simpl.
  - eauto.
  - assert (IH' := IH (fun s0 H0 l0 r0 Hin => Htr s0 H0 l0 r0 (or_intror Hin))).
    destruct (sf && negb omit_never && empty_target h r).
    + destruct (IH' s Hs) as [ts [s' [E HP]]]. rewrite E. eauto.
    + destruct (Htr s Hs l r (or_introl eq_refl)) as [t [s1 [E1 HP1]]]. rewrite E1.
      destruct (IH' s1 HP1) as [ts [s' [E HP]]]. rewrite E. eauto.
Qed.

Lemma gtrav_total fuel : forall r s,
  (match r with Some a => exists n, hget h a = Some n | None => True end) ->
  (need s r <= fuel)%nat -> exists t s', trav fuel r s = Some (t, s').
Proof.
  induction fuel as [|f IH]; intros r s Hr Hn.
  - destruct r as [a|]; simpl; [|eauto].
    unfold need in Hn. destruct (mem a dups); lia.
  - destruct r as [a|]; simpl; [|eauto].
    destruct Hr as [n Hn']. rewrite Hn'.
    unfold need in Hn.
    destruct (mem a dups) eqn:Ed.
    + destruct (named_find a (g_named s)) as [id|] eqn:En; [eauto|].
      set (s1 := mkIst ((a, g_next s) :: g_named s) ((g_next s + 1) mod 4294967296)).
      assert (Hlt : (unnamed s1 < unnamed s)%nat) by (apply unnamed_cons; assumption).
      destruct (kids_total (trav f) (is_struct n) (fun s' => ext s1 s') (nkids n)) with (s := s1) as [ts [s' [E _]]].
      * intros s0 H0 l r Hin.
        assert (Hu : (unnamed s0 <= unnamed s1)%nat) by (apply unnamed_mono; exact H0).
        destruct (IH r s0) as [t [s2 E2]].
        -- destruct r as [b|]; [|exact I]. eapply kids_closed; eauto.
        -- destruct r as [b|]; simpl; [|lia].
           assert (Hb := rk_bound b).
           assert ((if mem b dups then 1 else rk b + 2) <= L + 2)%nat by (destruct (mem b dups); lia).
           nia.
        -- exists t, s2. split; [exact E2|]. eapply ext_trans; [exact H0 | eapply gtrav_ext; eauto].
      * apply ext_refl.
      * fold s1. rewrite E. eauto.
    + destruct (kids_total (trav f) (is_struct n) (fun s' => ext s s') (nkids n)) with (s := s) as [ts [s' [E _]]].
      * intros s0 H0 l r Hin.
        assert (Hu : (unnamed s0 <= unnamed s)%nat) by (apply unnamed_mono; exact H0).
        destruct (IH r s0) as [t [s2 E2]].
        -- destruct r as [b|]; [|exact I]. eapply kids_closed; eauto.
        -- destruct r as [b|]; simpl; [|lia].
           destruct (mem b dups) eqn:Eb.
           ++ nia.
           ++ assert (rk b < rk a)%nat by (eapply rk_drop; eauto). nia.
        -- exists t, s2. split; [exact E2|]. eapply ext_trans; [exact H0 | eapply gtrav_ext; eauto].
      * apply ext_refl.
      * rewrite E. eauto.
Qed.

End Termination.

(* ------------------------------------------------------------------------- *)
(* the boolean hypotheses give the rank and closedness used above              *)

Lemma hget_In h a n : hget h a = Some n -> In (a, n) h.
Proof.
  induction h as [|[a' n'] h IH]; simpl; [discriminate|].
  destruct (a =? a') eqn:E.
  - intro H. inversion H; subst. apply N.eqb_eq in E. subst. left. reflexivity.
  - intro H. right. apply IH, H.
Qed.

Lemma fold_max_le {A} (g : A -> option nat) (l : list A) (m0 B : nat) :
  (m0 <= B)%nat -> (forall x v, In x l -> g x = Some v -> (v <= B)%nat) ->
  (fold_left (fun m x => match g x with Some v => Nat.max m v | None => m end) l m0 <= B)%nat.
Proof.
  revert m0. induction l as [|x l IH]; intros m0 H0 H; simpl; [exact H0|].
  apply IH.
  - destruct (g x) as [v|] eqn:E; [|exact H0]. assert (v <= B)%nat by (eapply H; [left; reflexivity | exact E]). lia.
  - intros y v Hy. apply H. right. exact Hy.
Qed.

Lemma rank_of_le h dups fuel a : (rank_of h dups fuel a <= fuel)%nat.
Proof.
  revert a. induction fuel as [|f IH]; intro a; simpl; [lia|].
  destruct (hget h a) as [n|]; [|lia].
  set (g := fun lr : label * ref => match snd lr with
                                    | Some b => if mem b dups then None else Some (S (rank_of h dups f b))
                                    | None => None end).
  assert (E : forall l m0,
             fold_left (fun m (lr : label * ref) =>
                          match snd lr with
                          | Some b => if mem b dups then m else Nat.max m (S (rank_of h dups f b))
                          | None => m end) l m0 =
             fold_left (fun m x => match g x with Some v => Nat.max m v | None => m end) l m0).
  { induction l as [|x l IHl]; intro m0; simpl; [reflexivity|]. rewrite IHl. f_equal.
    unfold g. destruct (snd x) as [b|]; [destruct (mem b dups)|]; reflexivity. }
  rewrite E. apply fold_max_le; [lia|].
  intros x v _ Hg. unfold g in Hg. destruct (snd x) as [b|]; [|discriminate].
  destruct (mem b dups); [discriminate|]. inversion Hg. specialize (IH b). lia.
Qed.

Lemma cover_ok_drop h dups :
  cover_ok h dups = true ->
  forall a n l b, hget h a = Some n -> In (l, Some b) (nkids n) -> mem b dups = false ->
    (rank_of h dups (length h) b < rank_of h dups (length h) a)%nat.
Proof.
  intros Hc a n l b Hg Hin Hm. unfold cover_ok in Hc. rewrite forallb_forall in Hc.
  specialize (Hc _ (hget_In _ _ _ Hg)). simpl in Hc. rewrite forallb_forall in Hc.
  specialize (Hc _ Hin). simpl in Hc. rewrite Hm in Hc. simpl in Hc. apply Nat.ltb_lt in Hc. exact Hc.
Qed.

Lemma closed_kids h root :
  closed h root = true ->
  forall a n l b, hget h a = Some n -> In (l, Some b) (nkids n) -> exists n', hget h b = Some n'.
Proof.
  intros Hc a n l b Hg Hin. unfold closed in Hc. rewrite forallb_forall in Hc.
  assert (Hb : In (Some b) (root :: all_kids h)).
  { right. unfold all_kids. apply in_flat_map. exists (a, n). split; [apply hget_In; exact Hg|].
    simpl. apply in_map_iff. exists (l, Some b). split; [reflexivity | exact Hin]. }
  specialize (Hc _ Hb). simpl in Hc. destruct (hget h b) as [n'|]; [eauto | discriminate].
Qed.

Lemma closed_root h root :
  closed h root = true -> match root with Some a => exists n, hget h a = Some n | None => True end.
Proof.
  intro Hc. unfold closed in Hc. rewrite forallb_forall in Hc.
  specialize (Hc root (or_introl eq_refl)). destruct root as [a|]; [|exact I].
  destruct (hget h a) as [n|]; [eauto | discriminate].
Qed.

Lemma filter_length_all {A} (p : A -> bool) l : (length (filter p l) <= length l)%nat.
Proof. induction l as [|x l IH]; simpl; [lia|]. destruct (p x); simpl; lia. Qed.

(* graph_marshal_terminates *)
Theorem graph_marshal_terminates h dups omit_never root :
  closed h root = true -> cover_ok h dups = true ->
  exists t s, gtrav h dups omit_never (graph_fuel h dups) root ist0 = Some (t, s).
Proof.
  intros Hc Hk.
  apply gtrav_total with (rk := rank_of h dups (length h)) (L := length h).
  - intro a. apply rank_of_le.
  - apply cover_ok_drop. exact Hk.
  - apply (closed_kids _ _ Hc).
  - apply closed_root. exact Hc.
  - unfold need, graph_fuel. destruct root as [a|]; [|lia].
    assert (unnamed dups ist0 <= length dups)%nat by apply filter_length_all.
    assert (rank_of h dups (length h) a <= length h)%nat by apply rank_of_le.
    destruct (mem a dups); nia.
Qed.

Corollary iterate_graph_terminates h dups omit_never root :
  closed h root = true -> cover_ok h dups = true ->
  exists es, iterate_graph h dups omit_never root = Some es.
Proof.
  intros Hc Hk. destruct (graph_marshal_terminates h dups omit_never root Hc Hk) as [t [s E]].
  unfold iterate_graph, iterate_tree. rewrite E. eauto.
Qed.

(* more nested calls never change an answer *)
Section Mono.
Variable h : heap.
Variable dups : list addr.
Variable omit_never : bool.

Lemma kids_mono tr tr' :
  (forall r s x, tr r s = Some x -> tr' r s = Some x) ->
  forall sf ks s x, gtrav_kids h omit_never tr sf ks s = Some x -> gtrav_kids h omit_never tr' sf ks s = Some x.
Proof.
  intros Htr sf ks. induction ks as [|[l r] ks IH]; intros s x H; simpl in *; [exact H|].
  destruct (sf && negb omit_never && empty_target h r).
  - destruct (gtrav_kids h omit_never tr sf ks s) as [[ts s']|] eqn:E; [|discriminate].
    rewrite (IH _ _ E). exact H.
  - destruct (tr r s) as [[t s1]|] eqn:E1; [|discriminate]. rewrite (Htr _ _ _ E1).
    destruct (gtrav_kids h omit_never tr sf ks s1) as [[ts s']|] eqn:E; [|discriminate].
    rewrite (IH _ _ E). exact H.
Qed.

Lemma gtrav_S f a s :
  gtrav h dups omit_never (S f) (Some a) s =
  match hget h a with
  | None => None
  | Some n =>
      if mem a dups then
        match named_find a (g_named s) with
        | Some id => Some (TRef id, s)
        | None =>
            match gtrav_kids h omit_never (gtrav h dups omit_never f) (is_struct n) (nkids n)
                             (mkIst ((a, g_next s) :: g_named s) ((g_next s + 1) mod 4294967296)) with
            | Some (ts, s') => Some (TNode a (Some (g_next s)) (nkind n) ts, s')
            | None => None
            end
        end
      else
        match gtrav_kids h omit_never (gtrav h dups omit_never f) (is_struct n) (nkids n) s with
        | Some (ts, s') => Some (TNode a None (nkind n) ts, s')
        | None => None
        end
  end.
Proof. reflexivity. Qed.

Lemma gtrav_mono_S fuel : forall r s x,
  gtrav h dups omit_never fuel r s = Some x -> gtrav h dups omit_never (S fuel) r s = Some x.
Proof.
  induction fuel as [|f IH]; intros r s x H.
  - destruct r as [a|]; simpl in *; [discriminate | exact H].
  - destruct r as [a|]; [|exact H].
    rewrite gtrav_S in H. rewrite gtrav_S.
    destruct (hget h a) as [n|]; [|discriminate].
    destruct (mem a dups).
    + destruct (named_find a (g_named s)); [exact H|].
      destruct (gtrav_kids h omit_never (gtrav h dups omit_never f) (is_struct n) (nkids n) _) as [[ts s']|] eqn:E; [|discriminate].
      rewrite (kids_mono _ _ IH _ _ _ _ E). exact H.
    + destruct (gtrav_kids h omit_never (gtrav h dups omit_never f) (is_struct n) (nkids n) s) as [[ts s']|] eqn:E; [|discriminate].
      rewrite (kids_mono _ _ IH _ _ _ _ E). exact H.
Qed.

Lemma gtrav_mono fuel fuel' r s x :
  (fuel <= fuel')%nat -> gtrav h dups omit_never fuel r s = Some x -> gtrav h dups omit_never fuel' r s = Some x.
Proof.
  intro Hle. induction Hle as [|m Hle IH]; intro H; [exact H|]. apply gtrav_mono_S, IH, H.
Qed.
End Mono.

(* ------------------------------------------------------------------------- *)
(* Part 2: the builder stack on the events of a call tree                      *)

Section TmInd.
Variable P : tm -> Prop.
Hypothesis HOmit : P TOmit.
Hypothesis HNull : P TNull.
Hypothesis HRef : forall id, P (TRef id).
Hypothesis HNode : forall a m k kids, Forall (fun lt : label * tm => P (snd lt)) kids -> P (TNode a m k kids).
Fixpoint tm_ind' (t : tm) : P t :=
  match t with
  | TOmit => HOmit
  | TNull => HNull
  | TRef id => HRef id
  | TNode a m k kids =>
      HNode a m k kids
        ((fix go (l : list (label * tm)) : Forall (fun lt : label * tm => P (snd lt)) l :=
            match l with
            | [] => Forall_nil _
            | x :: r => Forall_cons x (tm_ind' (snd x)) (go r)
            end) kids)
  end.
End TmInd.

Lemma field_name_not_payload l l' t' :
  field_find (field_label_name l) 0 fields = Some (l', t') -> bytes_eqb (field_label_name l) payload_name = false.
Proof.
  destruct l as [i|i|k]; simpl; try discriminate.
  destruct (N.to_nat i) as [|[|[|[|[|j]]]]]; simpl; try reflexivity; try discriminate.
  destruct j; discriminate.
Qed.

Arguments field_find : simpl never.
Arguments field_label_name : simpl never.

(* what a frame does with a reference / how a container frame receives the label of its next child *)
Definition frame_addr (f : bframe) : option addr :=
  match f with FStructKey p | FSlice p _ | FMapKey p => Some p | _ => None end.
Definition kid_frame (f : bframe) (l : label) : option bframe :=
  match f, l with
  | FStructKey p, LF _ =>
      match field_find (field_label_name l) 0 fields with
      | Some (l', t') => Some (FStructVal p l' t')
      | None => None
      end
  | FSlice p n, LI _ => Some (FSlice p n)
  | FMapKey p, LK k => Some (FMapVal p k)
  | _, _ => None
  end.
Definition kind_begin (k : kind) : event := match k with KSlice => EList | _ => EMap end.
Definition after_begin (k : kind) (cf : bframe) (s : bst) : option bst :=
  match k, cf with
  | KStruct v, FStructKey p => Some (b_payload p v s)
  | KSlice, FSlice _ _ => Some s
  | KMap, FMapKey _ => Some s
  | _, _ => None
  end.

Section Eff.
(* the two operations of the reference filler, abstracted *)
Variable oref : bytes -> slot -> bst -> bst.
Variable omark : bytes -> addr -> bst -> bst.

Definition ref_step (id : bytes) (f : bframe) (s : bst) : option (bframe * bst) :=
  match f with
  | FStructVal p l _ => Some (FStructKey p, oref id (p, l) s)
  | FSlice p n => Some (FSlice p (n + 1), oref id (p, LI n) (b_set (p, LI n) None s))
  | FMapVal p k => Some (FMapKey p, oref id (p, LK k) s)
  | _ => None
  end.

Section Kids.
Variable ev : tm -> bframe -> bst -> option (bframe * bst).
Fixpoint eff_kids (ks : list (label * tm)) (cf : bframe) (s : bst) : option (bframe * bst) :=
  match ks with
  | [] => Some (cf, s)
  | (l, t') :: r =>
      if is_omit t' then eff_kids r cf s
      else match kid_frame cf l with
           | None => None
           | Some vf => match ev t' vf s with
                        | Some (cf', s') => eff_kids r cf' s'
                        | None => None
                        end
           end
  end.
End Kids.

(* the denotation of a call tree delivered to the frame f *)
Fixpoint eff_val (t : tm) (f : bframe) (s : bst) : option (bframe * bst) :=
  match t with
  | TOmit => None
  | TNull => deliver None f s
  | TRef id => ref_step (dec_bytes id) f s
  | TNode _ m k kids =>
      match frame_ty f with
      | None => None
      | Some ty =>
          match begin_container ty (kind_begin k) s with
          | None => None
          | Some (cf, s1) =>
              match after_begin k cf s1 with
              | None => None
              | Some s1' =>
                  match eff_kids eff_val kids cf s1' with
                  | None => None
                  | Some (cf', s2) =>
                      match frame_addr cf' with
                      | None => None
                      | Some p => deliver (Some p) f (match m with Some id => omark (dec_bytes id) p s2 | None => s2 end)
                      end
                  end
              end
          end
      end
  end.
End Eff.

Definition kids_events (kids : list (label * tm)) : list event :=
  flat_map (fun lt : label * tm => match lt with (l, t') => if is_omit t' then [] else label_events l ++ flatten t' end) kids.

Lemma flatten_node a m k kids :
  flatten (TNode a m k kids) =
  (match m with Some id => [EMarker (dec_bytes id)] | None => [] end) ++ kind_events k ++ kids_events kids ++ [EEnd].
Proof. reflexivity. Qed.

Lemma brun_app st es1 es2 :
  brun st (es1 ++ es2) = match brun st es1 with Some st' => brun st' es2 | None => None end.
Proof.
  revert st. induction es1 as [|e es1 IH]; intro st; simpl; [reflexivity|].
  destruct (bstep st e); [apply IH | reflexivity].
Qed.

(* container frames stay container frames of the same object *)
Definition container_frame (f : bframe) : bool :=
  match f with FStructKey _ | FSlice _ _ | FMapKey _ => true | _ => false end.

Lemma deliver_frame v f s f' s' :
  deliver v f s = Some (f', s') ->
  frame_ty f <> None /\ (f = FTop /\ f' = FTop \/ container_frame f' = true).
Proof.
  destruct f; simpl; intro H; try discriminate.
  - inversion H; subst. split; [discriminate | left; auto].
  - destruct v, t; inversion H; subst; split; try discriminate; right; reflexivity.
  - inversion H; subst. split; [discriminate | right; reflexivity].
  - inversion H; subst. split; [discriminate | right; reflexivity].
Qed.

Lemma kid_frame_ty cf l vf : kid_frame cf l = Some vf -> frame_ty vf <> None /\ vf <> FTop /\ container_frame cf = true.
Proof.
  destruct cf, l; simpl; intro H; try discriminate.
  - destruct (field_find _ 0 fields) as [[l' t']|]; [|discriminate]. inversion H; subst. simpl. repeat split; discriminate.
  - inversion H; subst. simpl. repeat split; discriminate.
  - inversion H; subst. simpl. repeat split; discriminate.
Qed.

Lemma label_step cf l vf stk s :
  kid_frame cf l = Some vf ->
  brun (cf :: stk, s) (label_events l) = Some (vf :: stk, s).
Proof.
  destruct cf, l; simpl; intro H; try discriminate.
  - destruct (field_find _ 0 fields) as [[l' t']|] eqn:E; [|discriminate]. inversion H; subst.
    rewrite (field_name_not_payload _ _ _ E). reflexivity.
  - inversion H; subst. reflexivity.
  - inversion H; subst. reflexivity.
Qed.

Lemma brun_eff t :
  forall f s f' s' stk rest,
    eff_val b_ref b_mark t f s = Some (f', s') ->
    brun (f :: stk, s) (flatten t ++ rest) = brun (f' :: stk, s') rest.
Proof.
  induction t as [| |id|a m k kids IHk] using tm_ind'; intros f s f' s' stk rest H.
  - discriminate.
  - simpl in H. simpl. rewrite H. reflexivity.
  - simpl in H. simpl. unfold ref_step in H.
    destruct f; try discriminate; inversion H; subst; reflexivity.
  - cbn [eff_val] in H.
    destruct (frame_ty f) as [ty|] eqn:Ety; [|discriminate].
    destruct (begin_container ty (kind_begin k) s) as [[cf s1]|] eqn:Eb; [|discriminate].
    destruct (after_begin k cf s1) as [s1'|] eqn:Ea; [|discriminate].
    destruct (eff_kids (eff_val b_ref b_mark) kids cf s1') as [[cf' s2]|] eqn:Ek; [|discriminate].
    destruct (frame_addr cf') as [p|] eqn:Ep; [|discriminate].
    (* the children *)
    assert (Hkids : forall stk' rest',
               brun (cf :: stk', s1') (kids_events kids ++ rest') = brun (cf' :: stk', s2) rest').
    { clear H Eb Ea Ep. revert cf s1' Ek.
      induction kids as [|[l t'] kids IHl]; intros cf s1' Ek stk' rest'; simpl in Ek.
      - inversion Ek; subst. reflexivity.
      - inversion IHk as [|x xs Hx Hxs]; subst. simpl in Hx.
        unfold kids_events. simpl. fold (kids_events kids).
        destruct (is_omit t') eqn:Eo.
        + simpl. apply IHl; assumption.
        + destruct (kid_frame cf l) as [vf|] eqn:Ev; [|discriminate].
          destruct (eff_val b_ref b_mark t' vf s1') as [[cf1 s1'']|] eqn:E1; [|discriminate].
          rewrite <- !app_assoc. rewrite brun_app. rewrite (label_step _ _ _ _ _ Ev).
          rewrite (Hx _ _ _ _ stk' _ E1). apply IHl; assumption. }
    (* the frame on which the container sits *)
    assert (Hbegin : forall stk0, value_frame stk0 = Some f ->
               brun (stk0, s) (kind_events k) = Some (cf :: stk0, s1')).
    { intros stk0 Hv. unfold begin_container, b_alloc in Eb.
      destruct k as [v| |]; destruct ty; cbn [kind_begin] in Eb; try discriminate;
        inversion Eb; subst; cbn [after_begin] in Ea; try discriminate; inversion Ea; subst;
        cbn [kind_events brun bstep]; rewrite Hv, Ety; cbn [begin_container b_alloc];
        [ change (AT_String =? AT_String) with true; cbn [negb bytes_eqb list_eqb payload_name N.eqb Pos.eqb andb]; reflexivity
        | reflexivity | reflexivity ]. }
    assert (Hcf' : container_frame cf' = true).
    { destruct cf'; simpl in Ep; try discriminate; reflexivity. }
    assert (Hfm : forall id0, f <> FMarker id0).
    { intros id0 ->. simpl in Ety. discriminate. }
    rewrite flatten_node. destruct m as [id|].
    + rewrite <- !app_assoc. simpl ((_ :: _) ++ _).
      cbn [brun bstep]. rewrite Ety.
      rewrite brun_app. rewrite (Hbegin (FMarker (dec_bytes id) :: f :: stk) eq_refl).
      rewrite brun_app. rewrite <- (app_nil_r (kids_events kids)) at 1.
      rewrite Hkids. cbn [brun]. cbn [app brun].
      destruct cf'; simpl in Ep; try discriminate; inversion Ep; subst; cbn [bstep]; rewrite H; reflexivity.
    + simpl ([] ++ _). rewrite <- !app_assoc.
      rewrite brun_app. rewrite (Hbegin (f :: stk)).
      2:{ destruct f; try reflexivity. exfalso. eapply Hfm; reflexivity. }
      rewrite brun_app. rewrite <- (app_nil_r (kids_events kids)) at 1.
      rewrite Hkids. cbn [brun]. cbn [app brun].
      destruct cf'; simpl in Ep; try discriminate; inversion Ep; subst; cbn [bstep];
        (destruct f; try (exfalso; eapply Hfm; reflexivity); rewrite H; reflexivity).
Qed.

Lemma build_graph_eff t s' r :
  eff_val b_ref b_mark t FTop bst0 = Some (FTop, s') -> b_root s' = Some r ->
  build_graph (doc_events t) = RtOk (b_heap s') r.
Proof.
  intros H Hr. unfold build_graph, doc_events. cbn [brun bstep].
  rewrite (brun_eff t FTop bst0 FTop s' [] [EEndDoc] H). cbn [brun bstep]. rewrite Hr. reflexivity.
Qed.

(* ------------------------------------------------------------------------- *)
(* Part 3: deferred setters against an oracle                                  *)

Lemma hget_hupd_same h a f : hget (hupd h a f) a = option_map f (hget h a).
Proof.
  induction h as [|[a' n] h IH]; simpl; [reflexivity|].
  destruct (a =? a') eqn:E; simpl; rewrite E; [reflexivity | exact IH].
Qed.
Lemma hget_hupd_other h a b f : a <> b -> hget (hupd h a f) b = hget h b.
Proof.
  intro Hne. induction h as [|[a' n] h IH]; simpl; [reflexivity|].
  destruct (a =? a') eqn:E; simpl.
  - apply N.eqb_eq in E. subst. destruct (b =? a') eqn:E2; [apply N.eqb_eq in E2; congruence | reflexivity].
  - destruct (b =? a'); [reflexivity | exact IH].
Qed.
Lemma kget_kset_same l v ks : kget l (kset l v ks) = Some v.
Proof.
  induction ks as [|[l' r] ks IH]; simpl.
  - rewrite label_eqb_refl. reflexivity.
  - destruct (label_eqb l l') eqn:E; simpl; rewrite E; [reflexivity | exact IH].
Qed.
Lemma kget_kset_other l l' v ks : l <> l' -> kget l' (kset l v ks) = kget l' ks.
Proof.
  intro Hne. induction ks as [|[l0 r] ks IH]; simpl.
  - rewrite label_eqb_neq; [reflexivity | congruence].
  - destruct (label_eqb l l0) eqn:E; simpl.
    + apply label_eqb_eq in E. subst. rewrite (label_eqb_neq l' l0); [reflexivity | congruence].
    + destruct (label_eqb l' l0); [reflexivity | exact IH].
Qed.

Lemma bytes_eqb_refl b : bytes_eqb b b = true.
Proof. apply bytes_eqb_eq. reflexivity. Qed.
Lemma bytes_eqb_neq a b : a <> b -> bytes_eqb a b = false.
Proof. intro H. destruct (bytes_eqb a b) eqn:E; [apply bytes_eqb_eq in E; contradiction | reflexivity]. Qed.

Definition slot_of (f : bframe) : option slot :=
  match f with
  | FStructVal p l _ => Some (p, l)
  | FSlice p n => Some (p, LI n)
  | FMapVal p k => Some (p, LK k)
  | _ => None
  end.
Definition next_frame (f : bframe) : bframe :=
  match f with
  | FStructVal p _ _ => FStructKey p
  | FSlice p n => FSlice p (n + 1)
  | FMapVal p k => FMapKey p
  | f => f
  end.

Lemma deliver_next v f s f' s' : deliver v f s = Some (f', s') -> f' = next_frame f.
Proof.
  destruct f; simpl; intro H; try discriminate; try (inversion H; subst; reflexivity).
  destruct v, t; inversion H; subst; reflexivity.
Qed.
Lemma eff_val_next oref omark t f s f' s' : eff_val oref omark t f s = Some (f', s') -> f' = next_frame f.
Proof.
  destruct t; cbn [eff_val]; intro H; try discriminate.
  - eapply deliver_next; eauto.
  - unfold ref_step in H. destruct f; try discriminate; inversion H; subst; reflexivity.
  - destruct (frame_ty f); [|discriminate].
    destruct (begin_container _ _ _) as [[cf s1]|]; [|discriminate].
    destruct (after_begin _ _ _); [|discriminate].
    destruct (eff_kids _ _ _ _) as [[cf' s2]|]; [|discriminate].
    destruct (frame_addr cf'); [|discriminate]. eapply deliver_next; eauto.
Qed.

Lemma NoDup_app_single {A} (l : list A) x : NoDup l -> ~ In x l -> NoDup (l ++ [x]).
Proof.
  induction l as [|y l IH]; intros Hn Hx; simpl.
  - constructor; [intros [] | constructor].
  - inversion Hn; subst. constructor.
    + intro Hin. apply in_app_or in Hin. destruct Hin as [Hin|[->|[]]]; [contradiction|]. apply Hx. left. reflexivity.
    + apply IH; [assumption|]. intro. apply Hx. right. assumption.
Qed.

Section Sim.
Variable M : bytes -> option addr.

Definition oref_i (id : bytes) (sl : slot) (s : bst) : bst := b_set sl (M id) s.
Definition omark_i (id : bytes) (x : addr) (s : bst) : bst := s.

Definition pending (s : bst) (sl : slot) : Prop := exists id, In (id, sl) (b_pend s).

Record Sim (sr si : bst) : Prop := mkSim {
  sim_next : b_next sr = b_next si;
  sim_root : b_root sr = b_root si;
  sim_dom : forall p, match hget (b_heap sr) p, hget (b_heap si) p with
                      | Some nr, Some ni => nkind nr = nkind ni
                      | None, None => True
                      | _, _ => False
                      end;
  sim_slot : forall p l nr ni, hget (b_heap sr) p = Some nr -> hget (b_heap si) p = Some ni ->
               ~ pending sr (p, l) -> kget l (nkids nr) = kget l (nkids ni);
  sim_pend : forall id p l, In (id, (p, l)) (b_pend sr) ->
               bfind id (b_marked sr) = None /\
               exists ni, hget (b_heap si) p = Some ni /\ kget l (nkids ni) = Some (M id);
  sim_marked : forall id x, bfind id (b_marked sr) = Some x -> M id = Some x;
  sim_nodup : NoDup (map snd (b_pend sr));
  sim_alloc : forall p n, hget (b_heap sr) p = Some n -> p < b_next sr;
}.

Lemma sim_exists_i sr si p n : Sim sr si -> hget (b_heap sr) p = Some n -> exists ni, hget (b_heap si) p = Some ni.
Proof.
  intros S H. assert (D := sim_dom _ _ S p). rewrite H in D.
  destruct (hget (b_heap si) p); [eauto | contradiction].
Qed.
Lemma sim_exists_r sr si p n : Sim sr si -> hget (b_heap si) p = Some n -> exists nr, hget (b_heap sr) p = Some nr.
Proof.
  intros S H. assert (D := sim_dom _ _ S p). rewrite H in D.
  destruct (hget (b_heap sr) p); [eauto | contradiction].
Qed.
Lemma sim_fresh sr si sl : Sim sr si -> b_next sr <= fst sl -> ~ pending sr sl.
Proof.
  intros S Hle [id Hin]. destruct sl as [p l].
  destruct (sim_pend _ _ S _ _ _ Hin) as [_ [ni [Hi _]]].
  destruct (sim_exists_r _ _ _ _ S Hi) as [nr Hr].
  assert (p < b_next sr) by (eapply sim_alloc; eauto). simpl in Hle. lia.
Qed.

(* allocation *)
Lemma sim_alloc_op sr si k ks :
  Sim sr si -> fst (b_alloc k ks sr) = fst (b_alloc k ks si) /\ Sim (snd (b_alloc k ks sr)) (snd (b_alloc k ks si)).
Proof.
  intro S. unfold b_alloc. simpl. split; [apply (sim_next _ _ S)|].
  assert (Hn := sim_next _ _ S).
  constructor; simpl.
  - rewrite Hn. reflexivity.
  - apply (sim_root _ _ S).
  - intro p. rewrite <- Hn. destruct (p =? b_next sr); [reflexivity | apply (sim_dom _ _ S)].
  - intros p l nr ni. rewrite <- Hn. destruct (p =? b_next sr) eqn:E.
    + intros H1 H2 _. inversion H1; inversion H2; subst. reflexivity.
    + intros H1 H2 Hp. eapply (sim_slot _ _ S); eauto.
  - intros id p l Hin. destruct (sim_pend _ _ S _ _ _ Hin) as [Hm [ni [Hi Hk]]]. split; [exact Hm|].
    rewrite <- Hn. destruct (p =? b_next sr) eqn:E.
    + apply N.eqb_eq in E. subst. destruct (sim_exists_r _ _ _ _ S Hi) as [nr Hr].
      assert (b_next sr < b_next sr) by (eapply sim_alloc; eauto). lia.
    + eauto.
  - apply (sim_marked _ _ S).
  - apply (sim_nodup _ _ S).
  - intros p n. destruct (p =? b_next sr) eqn:E.
    + apply N.eqb_eq in E. intros _. lia.
    + intro H. assert (p < b_next sr) by (eapply sim_alloc; eauto). lia.
Qed.

(* the same write on both sides, to a slot no setter is waiting for *)
Lemma sim_set sr si sl v : Sim sr si -> ~ pending sr sl -> Sim (b_set sl v sr) (b_set sl v si).
Proof.
  intros S Hnp. destruct sl as [p0 l0]. unfold b_set. simpl.
  constructor; simpl.
  - apply (sim_next _ _ S).
  - apply (sim_root _ _ S).
  - intro p. assert (D := sim_dom _ _ S p). destruct (N.eq_dec p0 p) as [->|Hne].
    + rewrite !hget_hupd_same. destruct (hget (b_heap sr) p), (hget (b_heap si) p); simpl; auto.
    + rewrite !hget_hupd_other by exact Hne. exact D.
  - intros p l nr ni. destruct (N.eq_dec p0 p) as [->|Hne].
    + rewrite !hget_hupd_same.
      destruct (hget (b_heap sr) p) as [nr0|] eqn:Er; [|discriminate].
      destruct (hget (b_heap si) p) as [ni0|] eqn:Ei; [|discriminate].
      simpl. intros H1 H2 Hp. inversion H1; inversion H2; subst. simpl.
      destruct (label_eqb l0 l) eqn:El.
      * apply label_eqb_eq in El. subst. rewrite !kget_kset_same. reflexivity.
      * assert (l0 <> l) by (intro; subst; rewrite label_eqb_refl in El; discriminate).
        rewrite !kget_kset_other by assumption. eapply (sim_slot _ _ S); eauto.
    + rewrite !hget_hupd_other by exact Hne. apply (sim_slot _ _ S).
  - intros id p l Hin. destruct (sim_pend _ _ S _ _ _ Hin) as [Hm [ni [Hi Hk]]]. split; [exact Hm|].
    destruct (N.eq_dec p0 p) as [->|Hne].
    + rewrite hget_hupd_same, Hi. simpl. eexists. split; [reflexivity|]. simpl.
      rewrite kget_kset_other; [exact Hk|]. intros ->. apply Hnp. exists id. exact Hin.
    + rewrite hget_hupd_other by exact Hne. eauto.
  - apply (sim_marked _ _ S).
  - apply (sim_nodup _ _ S).
  - intros p n. destruct (N.eq_dec p0 p) as [->|Hne].
    + rewrite hget_hupd_same. destruct (hget (b_heap sr) p) eqn:E; [|discriminate]. intros _. eapply sim_alloc; eauto.
    + rewrite hget_hupd_other by exact Hne. apply (sim_alloc _ _ S).
Qed.

Lemma sim_payload sr si p0 z : Sim sr si -> Sim (b_payload p0 z sr) (b_payload p0 z si).
Proof.
  intro S. unfold b_payload. constructor; simpl.
  - apply (sim_next _ _ S).
  - apply (sim_root _ _ S).
  - intro p. assert (D := sim_dom _ _ S p). destruct (N.eq_dec p0 p) as [->|Hne].
    + rewrite !hget_hupd_same. destruct (hget (b_heap sr) p), (hget (b_heap si) p); simpl; auto.
    + rewrite !hget_hupd_other by exact Hne. exact D.
  - intros p l nr ni. destruct (N.eq_dec p0 p) as [->|Hne].
    + rewrite !hget_hupd_same.
      destruct (hget (b_heap sr) p) as [nr0|] eqn:Er; [|discriminate].
      destruct (hget (b_heap si) p) as [ni0|] eqn:Ei; [|discriminate].
      simpl. intros H1 H2 Hp. inversion H1; inversion H2; subst. simpl. eapply (sim_slot _ _ S); eauto.
    + rewrite !hget_hupd_other by exact Hne. apply (sim_slot _ _ S).
  - intros id p l Hin. destruct (sim_pend _ _ S _ _ _ Hin) as [Hm [ni [Hi Hk]]]. split; [exact Hm|].
    destruct (N.eq_dec p0 p) as [->|Hne].
    + rewrite hget_hupd_same, Hi. simpl. eexists. split; [reflexivity|]. exact Hk.
    + rewrite hget_hupd_other by exact Hne. eauto.
  - apply (sim_marked _ _ S).
  - apply (sim_nodup _ _ S).
  - intros p n. destruct (N.eq_dec p0 p) as [->|Hne].
    + rewrite hget_hupd_same. destruct (hget (b_heap sr) p) eqn:E; [|discriminate]. intros _. eapply sim_alloc; eauto.
    + rewrite hget_hupd_other by exact Hne. apply (sim_alloc _ _ S).
Qed.

Lemma sim_set_root sr si v :
  Sim sr si ->
  Sim (mkB (b_heap sr) (b_next sr) (b_marked sr) (b_pend sr) (Some v))
      (mkB (b_heap si) (b_next si) (b_marked si) (b_pend si) (Some v)).
Proof.
  intro S. constructor; simpl; try apply S. reflexivity.
Qed.

(* a reference: resolved at once on both sides, or deferred on the real side *)
Lemma sim_ref sr si id sl :
  Sim sr si -> ~ pending sr sl -> (exists n, hget (b_heap sr) (fst sl) = Some n) ->
  Sim (b_ref id sl sr) (oref_i id sl si).
Proof.
  intros S Hnp [n0 Hn0]. unfold b_ref, oref_i.
  destruct (bfind id (b_marked sr)) as [x|] eqn:Em.
  - rewrite (sim_marked _ _ S _ _ Em). apply sim_set; assumption.
  - destruct sl as [p0 l0]. simpl in Hn0.
    destruct (sim_exists_i _ _ _ _ S Hn0) as [ni0 Hi0].
    unfold b_set. constructor; simpl.
    + apply (sim_next _ _ S).
    + apply (sim_root _ _ S).
    + intro p. assert (D := sim_dom _ _ S p). destruct (N.eq_dec p0 p) as [->|Hne].
      * rewrite hget_hupd_same. destruct (hget (b_heap sr) p), (hget (b_heap si) p); simpl; auto.
      * rewrite hget_hupd_other by exact Hne. exact D.
    + intros p l nr ni H1 H2 Hp.
      assert (Hp' : ~ pending sr (p, l)).
      { intros [id' Hin]. apply Hp. exists id'. simpl. apply in_or_app. left. exact Hin. }
      destruct (N.eq_dec p0 p) as [->|Hne].
      * rewrite hget_hupd_same, Hi0 in H2. simpl in H2. inversion H2; subst. simpl.
        assert (l0 <> l).
        { intros ->. apply Hp. exists id. simpl. apply in_or_app. right. left. reflexivity. }
        rewrite kget_kset_other by assumption. eapply (sim_slot _ _ S); eauto.
      * rewrite hget_hupd_other in H2 by exact Hne. eapply (sim_slot _ _ S); eauto.
    + intros id' p l Hin. apply in_app_or in Hin. destruct Hin as [Hin|[Heq|[]]].
      * destruct (sim_pend _ _ S _ _ _ Hin) as [Hm [ni [Hi Hk]]]. split; [exact Hm|].
        destruct (N.eq_dec p0 p) as [->|Hne].
        -- rewrite hget_hupd_same, Hi. simpl. eexists. split; [reflexivity|]. simpl.
           rewrite kget_kset_other; [exact Hk|]. intros ->. apply Hnp. exists id'. exact Hin.
        -- rewrite hget_hupd_other by exact Hne. eauto.
      * inversion Heq; subst. split; [exact Em|].
        rewrite hget_hupd_same, Hi0. simpl. eexists. split; [reflexivity|]. simpl. apply kget_kset_same.
    + apply (sim_marked _ _ S).
    + rewrite map_app. simpl. apply NoDup_app_single.
      * apply (sim_nodup _ _ S).
      * intro Hin. apply in_map_iff in Hin. destruct Hin as [[id' sl'] [Heq Hin]]. simpl in Heq. subst.
        apply Hnp. exists id'. exact Hin.
    + apply (sim_alloc _ _ S).
Qed.

(* NotifyMarker: the setters that were waiting for id run now *)
Definition resolve (id : bytes) (x : addr) (pend : list (bytes * slot)) (s : bst) : bst :=
  fold_left (fun st (e : bytes * slot) => if bytes_eqb id (fst e) then b_set (snd e) (Some x) st else st) pend s.
Definition hit (id : bytes) (pend : list (bytes * slot)) (p : addr) (l : label) : bool :=
  existsb (fun e : bytes * slot => bytes_eqb id (fst e) && (fst (snd e) =? p) && label_eqb (snd (snd e)) l) pend.

Lemma resolve_fields id x pend : forall s,
  b_next (resolve id x pend s) = b_next s /\ b_marked (resolve id x pend s) = b_marked s /\
  b_pend (resolve id x pend s) = b_pend s /\ b_root (resolve id x pend s) = b_root s.
Proof.
  induction pend as [|e pend IH]; intro s; simpl; [auto|].
  destruct (IH (if bytes_eqb id (fst e) then b_set (snd e) (Some x) s else s)) as [H1 [H2 [H3 H4]]].
  unfold resolve in *. rewrite H1, H2, H3, H4. destruct (bytes_eqb id (fst e)); simpl; auto.
Qed.

Lemma resolve_heap id x pend : forall s p,
  match hget (b_heap (resolve id x pend s)) p, hget (b_heap s) p with
  | Some n', Some n => nkind n' = nkind n /\
                       forall l, kget l (nkids n') = if hit id pend p l then Some (Some x) else kget l (nkids n)
  | None, None => True
  | _, _ => False
  end.
Proof.
  induction pend as [|e pend IH]; intros s p; simpl.
  - destruct (hget (b_heap s) p); auto.
  - specialize (IH (if bytes_eqb id (fst e) then b_set (snd e) (Some x) s else s) p).
    unfold resolve in *. simpl.
    destruct (bytes_eqb id (fst e)) eqn:Eid; simpl.
    + destruct e as [id' [p0 l0]]. simpl in *. unfold b_set in IH. simpl in IH.
      destruct (N.eq_dec p0 p) as [->|Hne].
      * rewrite N.eqb_refl. rewrite hget_hupd_same in IH.
        destruct (hget (b_heap s) p) as [n|]; simpl in IH.
        -- destruct (hget (b_heap (fold_left _ pend _)) p) as [n'|]; [|contradiction].
           destruct IH as [Hk Hl]. split; [exact Hk|]. intro l. rewrite Hl. simpl.
           destruct (hit id pend p l); [rewrite orb_true_r; reflexivity|]. rewrite orb_false_r.
           destruct (label_eqb l0 l) eqn:El.
           ++ apply label_eqb_eq in El. subst. apply kget_kset_same.
           ++ apply kget_kset_other. intros ->. rewrite label_eqb_refl in El. discriminate.
        -- exact IH.
      * rewrite hget_hupd_other in IH by exact Hne.
        assert (E : (p0 =? p) = false) by (apply N.eqb_neq; exact Hne). rewrite E. simpl. exact IH.
    + exact IH.
Qed.

Lemma NoDup_map_filter {A B} (f : A -> B) (q : A -> bool) l : NoDup (map f l) -> NoDup (map f (filter q l)).
Proof.
  induction l as [|x l IH]; simpl; intro H; [constructor|].
  inversion H; subst. destruct (q x); simpl; [|apply IH; assumption].
  constructor; [|apply IH; assumption].
  intro Hin. apply in_map_iff in Hin. destruct Hin as [y [Hy Hin]]. apply filter_In in Hin. destruct Hin as [Hin _].
  apply H2. rewrite <- Hy. apply in_map. exact Hin.
Qed.

Lemma hit_pending id sr p l : hit id (b_pend sr) p l = true -> In (id, (p, l)) (b_pend sr).
Proof.
  unfold hit. rewrite existsb_exists. intros [[id' [p' l']] [Hin He]]. simpl in He.
  apply andb_true_iff in He. destruct He as [He Hl]. apply andb_true_iff in He. destruct He as [Hi Hp].
  apply bytes_eqb_eq in Hi. apply N.eqb_eq in Hp. apply label_eqb_eq in Hl. subst. exact Hin.
Qed.
Lemma pending_hit id sr p l : In (id, (p, l)) (b_pend sr) -> hit id (b_pend sr) p l = true.
Proof.
  intro Hin. unfold hit. rewrite existsb_exists. exists (id, (p, l)). split; [exact Hin|]. simpl.
  rewrite bytes_eqb_refl, N.eqb_refl, label_eqb_refl. reflexivity.
Qed.

Lemma b_mark_unfold id x s :
  b_mark id x s =
  mkB (b_heap (resolve id x (b_pend s) s)) (b_next s) ((id, x) :: b_marked s)
      (filter (fun e : bytes * slot => negb (bytes_eqb id (fst e))) (b_pend s)) (b_root s).
Proof.
  unfold b_mark. fold (resolve id x (b_pend s) s).
  destruct (resolve_fields id x (b_pend s) s) as [H1 [_ [_ H4]]]. rewrite H1, H4. reflexivity.
Qed.

Lemma sim_mark sr si id x :
  Sim sr si -> M id = Some x -> bfind id (b_marked sr) = None -> Sim (b_mark id x sr) (omark_i id x si).
Proof.
  intros S HM Hun. unfold omark_i. rewrite b_mark_unfold.
  constructor; simpl.
  - apply (sim_next _ _ S).
  - apply (sim_root _ _ S).
  - intro p. assert (R := resolve_heap id x (b_pend sr) sr p). assert (D := sim_dom _ _ S p).
    destruct (hget (b_heap (resolve id x (b_pend sr) sr)) p) as [n'|], (hget (b_heap sr) p) as [n|]; try contradiction.
    + destruct (hget (b_heap si) p); [|contradiction]. destruct R as [R _]. congruence.
    + exact D.
  - intros p l nr ni H1 H2 Hp.
    assert (R := resolve_heap id x (b_pend sr) sr p). rewrite H1 in R.
    destruct (hget (b_heap sr) p) as [n|] eqn:Er; [|contradiction].
    destruct R as [_ R]. rewrite R.
    destruct (hit id (b_pend sr) p l) eqn:Eh.
    + apply hit_pending in Eh. destruct (sim_pend _ _ S _ _ _ Eh) as [_ [ni' [Hi Hk]]].
      rewrite H2 in Hi. inversion Hi; subst. rewrite Hk, HM. reflexivity.
    + eapply (sim_slot _ _ S); eauto.
      intros [id' Hin]. destruct (bytes_eqb id id') eqn:Eid.
      * apply bytes_eqb_eq in Eid. subst. rewrite (pending_hit _ _ _ _ Hin) in Eh. discriminate.
      * apply Hp. exists id'. simpl. apply filter_In. split; [exact Hin|]. simpl. rewrite Eid. reflexivity.
  - intros id' p l Hin. apply filter_In in Hin. destruct Hin as [Hin Hne]. simpl in Hne.
    destruct (sim_pend _ _ S _ _ _ Hin) as [Hm Hi]. split; [|exact Hi].
    destruct (bytes_eqb id' id) eqn:E; [|exact Hm].
    apply bytes_eqb_eq in E. subst. rewrite bytes_eqb_refl in Hne. discriminate.
  - intros id' x'. destruct (bytes_eqb id' id) eqn:E.
    + apply bytes_eqb_eq in E. subst. intro H. inversion H; subst. exact HM.
    + apply (sim_marked _ _ S).
  - apply NoDup_map_filter. apply (sim_nodup _ _ S).
  - intros p n H. assert (R := resolve_heap id x (b_pend sr) sr p). rewrite H in R.
    destruct (hget (b_heap sr) p) eqn:Er; [|contradiction]. eapply sim_alloc; eauto.
Qed.

(* ---- the shape of a call tree that matters to the builder ---- *)

Definition kids_size (ks : list (label * tm)) (sz : tm -> N) : N :=
  fold_right (fun (lt : label * tm) acc => sz (snd lt) + acc) 0 ks.
Fixpoint tm_size (t : tm) : N :=
  match t with
  | TNode _ _ _ kids => 1 + fold_right (fun (lt : label * tm) acc => tm_size (snd lt) + acc) 0 kids
  | _ => 0
  end.
(* marker ids, as the builder sees them *)
Fixpoint tm_bids (t : tm) : list bytes :=
  match t with
  | TNode _ m _ kids =>
      (match m with Some id => [dec_bytes id] | None => [] end) ++ flat_map (fun lt : label * tm => tm_bids (snd lt)) kids
  | _ => []
  end.
Definition kids_bids (ks : list (label * tm)) : list bytes := flat_map (fun lt : label * tm => tm_bids (snd lt)) ks.

Section KidsAt.
Context {A : Type}.
Variable g : tm -> addr -> list A.
Fixpoint kids_at (ks : list (label * tm)) (nx : addr) : list A :=
  match ks with
  | [] => []
  | lt :: r => g (snd lt) nx ++ kids_at r (nx + tm_size (snd lt))
  end.
End KidsAt.
(* the address each marked object gets when the tree is built starting at address next *)
Fixpoint marks_at (t : tm) (next : addr) : list (bytes * addr) :=
  match t with
  | TNode _ m _ kids =>
      (match m with Some id => [(dec_bytes id, next)] | None => [] end) ++ kids_at marks_at kids (next + 1)
  | _ => []
  end.

Fixpoint slice_seq (n : N) (ks : list (label * tm)) : Prop :=
  match ks with
  | [] => True
  | (l, t) :: r => l = LI n /\ is_omit t = false /\ slice_seq (n + 1) r
  end.
Definition kids_ok (k : kind) (kids : list (label * tm)) : Prop :=
  NoDup (map fst kids) /\
  match k with
  | KStruct _ => forall l t, In (l, t) kids -> exists i, l = LF i /\ i < 5
  | KSlice => slice_seq 0 kids
  | KMap => forall l t, In (l, t) kids -> exists z, l = LK z
  end.
Fixpoint tm_wf (t : tm) : Prop :=
  match t with
  | TNode _ _ k kids =>
      kids_ok k kids /\
      (fix all (ks : list (label * tm)) : Prop := match ks with [] => True | lt :: r => tm_wf (snd lt) /\ all r end) kids
  | _ => True
  end.
Lemma tm_wf_node a m k kids :
  tm_wf (TNode a m k kids) <-> kids_ok k kids /\ Forall (fun lt : label * tm => tm_wf (snd lt)) kids.
Proof.
  cbn [tm_wf]. split; intros [H1 H2]; (split; [exact H1|]); clear H1.
  - induction kids as [|lt r IH]; [constructor|]. destruct H2 as [Ha Hb]. constructor; [exact Ha | apply IH; exact Hb].
  - induction kids as [|lt r IH]; [exact I|]. inversion H2; subst. split; [assumption | apply IH; assumption].
Qed.

(* the labels a container frame will meet *)
Definition kids_fit (cf : bframe) (kids : list (label * tm)) : Prop :=
  match cf with
  | FStructKey _ => forall l t, In (l, t) kids -> exists i, l = LF i /\ i < 5
  | FSlice _ n => slice_seq n kids
  | FMapKey _ => forall l t, In (l, t) kids -> exists z, l = LK z
  | _ => False
  end.

Lemma field_find_self i : i < 5 -> exists t, field_find (field_label_name (LF i)) 0 fields = Some (LF i, t).
Proof.
  intro Hi. assert (i = 0 \/ i = 1 \/ i = 2 \/ i = 3 \/ i = 4) as [-> | [-> | [-> | [-> | ->]]]] by lia;
    vm_compute; eauto.
Qed.

Lemma kids_fit_step cf p l t r :
  frame_addr cf = Some p -> kids_fit cf ((l, t) :: r) -> is_omit t = false ->
  exists vf, kid_frame cf l = Some vf /\ slot_of vf = Some (p, l) /\ kids_fit (next_frame vf) r /\
             frame_addr (next_frame vf) = Some p.
Proof.
  intros Hp Hf Ho. destruct cf; simpl in Hp; try discriminate; inversion Hp; subst; simpl in Hf.
  - destruct (Hf l t (or_introl eq_refl)) as [i [-> Hi]]. destruct (field_find_self i Hi) as [ty E].
    exists (FStructVal p (LF i) ty). unfold kid_frame. rewrite E. simpl. repeat split; try reflexivity.
    intros l0 t0 Hin. apply (Hf l0 t0). right. exact Hin.
  - destruct Hf as [-> [_ Hs]]. exists (FSlice p n). simpl. repeat split; try reflexivity. exact Hs.
  - destruct (Hf l t (or_introl eq_refl)) as [z ->]. exists (FMapVal p z). simpl. repeat split; try reflexivity.
    intros l0 t0 Hin. apply (Hf l0 t0). right. exact Hin.
Qed.
Lemma kids_fit_skip cf l t r : kids_fit cf ((l, t) :: r) -> is_omit t = true -> kids_fit cf r.
Proof.
  intros Hf Ho. destruct cf; simpl in *; try contradiction.
  - intros l0 t0 Hin. apply (Hf l0 t0). right. exact Hin.
  - destruct Hf as [_ [Hno _]]. congruence.
  - intros l0 t0 Hin. apply (Hf l0 t0). right. exact Hin.
Qed.

(* ---- small facts about the primitive operations ---- *)
Lemma b_set_keep sl v s p n : hget (b_heap s) p = Some n -> exists n', hget (b_heap (b_set sl v s)) p = Some n'.
Proof.
  intro H. unfold b_set. simpl. destruct (N.eq_dec (fst sl) p) as [E|E].
  - rewrite E, hget_hupd_same, H. simpl. eauto.
  - rewrite hget_hupd_other by exact E. eauto.
Qed.
Lemma b_ref_keep id sl s p n : hget (b_heap s) p = Some n -> exists n', hget (b_heap (b_ref id sl s)) p = Some n'.
Proof.
  intro H. unfold b_ref. destruct (bfind id (b_marked s)); [apply b_set_keep with (n := n); exact H | simpl; eauto].
Qed.
Lemma b_ref_pend id sl s e : In e (b_pend (b_ref id sl s)) -> In e (b_pend s) \/ e = (id, sl).
Proof.
  unfold b_ref. destruct (bfind id (b_marked s)); simpl; [auto|].
  intro H. apply in_app_or in H. destruct H as [H|[H|[]]]; auto.
Qed.
Lemma b_ref_fields id sl s : b_next (b_ref id sl s) = b_next s /\ b_marked (b_ref id sl s) = b_marked s.
Proof. unfold b_ref. destruct (bfind id (b_marked s)); simpl; auto. Qed.
Lemma b_mark_keep id x s p n : hget (b_heap s) p = Some n -> exists n', hget (b_heap (b_mark id x s)) p = Some n'.
Proof.
  intro H. rewrite b_mark_unfold. simpl. assert (R := resolve_heap id x (b_pend s) s p). rewrite H in R.
  destruct (hget (b_heap (resolve id x (b_pend s) s)) p); [eauto | contradiction].
Qed.

Definition dst_ok (f : bframe) (sr : bst) : Prop :=
  match slot_of f with
  | Some sl => (exists n, hget (b_heap sr) (fst sl) = Some n) /\ ~ pending sr sl
  | None => True
  end.

Lemma sim_deliver sr si v f f' sr' :
  Sim sr si -> dst_ok f sr -> deliver v f sr = Some (f', sr') ->
  exists si', deliver v f si = Some (f', si') /\ Sim sr' si' /\
              b_next sr' = b_next sr /\ b_pend sr' = b_pend sr /\ b_marked sr' = b_marked sr /\
              (forall p n, hget (b_heap sr) p = Some n -> exists n', hget (b_heap sr') p = Some n').
Proof.
  intros S Hd H. unfold dst_ok in Hd.
  destruct f; simpl in H; try discriminate; simpl in Hd.
  - inversion H; subst. eexists. split; [reflexivity|]. split; [apply sim_set_root; exact S|]. simpl. repeat split; eauto.
  - destruct Hd as [_ Hnp].
    destruct v as [x|]; [| destruct t].
    + inversion H; subst. exists (b_set (p, l) (Some x) si). split; [destruct t; reflexivity|].
      split; [apply sim_set; assumption|]. repeat split; try reflexivity; intros; eapply b_set_keep; eauto.
    + inversion H; subst. exists (b_set (p, l) None si). split; [reflexivity|].
      split; [apply sim_set; assumption|]. repeat split; try reflexivity; intros; eapply b_set_keep; eauto.
    + inversion H; subst. exists si. split; [reflexivity|]. split; [exact S|]. repeat split; eauto.
    + discriminate.
  - destruct Hd as [_ Hnp]. inversion H; subst. eexists. split; [reflexivity|].
    split; [apply sim_set; assumption|]. repeat split; try reflexivity; intros; eapply b_set_keep; eauto.
  - destruct Hd as [_ Hnp]. inversion H; subst. eexists. split; [reflexivity|].
    split; [apply sim_set; assumption|]. repeat split; try reflexivity; intros; eapply b_set_keep; eauto.
Qed.

End Sim.
